"""C11 — extension resolution is conservative, idempotent and invisible on the wire
(model: coq/model/Resolve.v, spec: coq/spec/ResolveS.v, run: coq/run/C11Run.v).

A case is a JSON-able description: a registry (list of generated extension specs and/or names of
std extensions) and either a type tree, a type-argument tree, or a list of node specs of a small HUGR.
The harness builds the objects with the public API, passes them through the serialised form
(`via` = "loaded") or not ("built"), resolves, and records what the property speaks about.
Everything that reaches Coq is printed from the *objects* by the printers below."""
import importlib
import json
import random
import re

import fw
from fw import gN, gnat, glist, gopt, gpair, gapp, gbool

# ------------------------------------------------------------------------------------------------ std
STD_MODULES = ["hugr.std", "hugr.std.int", "hugr.std.float", "hugr.std.logic", "hugr.std.prelude",
               "hugr.std.collections.array", "hugr.std.collections.list", "hugr.std.collections.static_array"]
_STD = None


def std_exts():
    """name -> Extension, for every Extension object exposed by the hugr.std modules."""
    global _STD
    if _STD is None:
        from hugr import ext
        _STD = {}
        for m in STD_MODULES:
            mod = importlib.import_module(m)
            for v in vars(mod).values():
                if isinstance(v, ext.Extension):
                    _STD.setdefault(v.name, v)
    return _STD


# ------------------------------------------------------------------------------------------------ builders (tree -> hugr objects)
def B(b):
    from hugr import tys
    return {"C": tys.TypeBound.Copyable, "A": tys.TypeBound.Any}[b]


def build_param(p):
    from hugr import tys
    k = p[0]
    if k == "type":
        return tys.TypeTypeParam(B(p[1]))
    if k == "nat":
        return tys.BoundedNatParam(p[1])
    if k == "string":
        return tys.StringParam()
    if k == "list":
        return tys.ListParam(build_param(p[1]))
    if k == "tuple":
        return tys.TupleParam([build_param(x) for x in p[1]])
    if k == "exts":
        return tys.ExtensionsParam()
    raise AssertionError(p)


def build_ty(t, reg=None):
    from hugr import tys
    k = t[0]
    if k == "sum":
        return tys.Sum([[build_ty(x, reg) for x in row] for row in t[1]])
    if k == "tuple":                     # sugar class, same serial form as a one-row sum
        return tys.Tuple(*[build_ty(x, reg) for x in t[1]])
    if k == "unit":
        return tys.UnitSum(t[1])
    if k == "var":
        return tys.Variable(t[1], B(t[2]))
    if k == "rowvar":
        return tys.RowVariable(t[1], B(t[2]))
    if k == "usize":
        return tys.USize()
    if k == "qubit":
        return tys.Qubit
    if k == "alias":
        return tys.Alias(t[1], B(t[2]))
    if k == "func":
        return tys.FunctionType([build_ty(x, reg) for x in t[1]], [build_ty(x, reg) for x in t[2]], list(t[3]))
    if k == "poly":
        return tys.PolyFuncType([build_param(p) for p in t[1]],
                                tys.FunctionType([build_ty(x, reg) for x in t[2]], [build_ty(x, reg) for x in t[3]], list(t[4])))
    if k == "opaque":
        return tys.Opaque(id=t[2], bound=B(t[4]), args=[build_arg(a, reg) for a in t[3]], extension=t[1])
    if k == "ext":                       # definition-backed type built directly (never produced by loading)
        td = reg.get_extension(t[1]).get_type(t[2])
        return td.instantiate([build_arg(a, reg) for a in t[3]])
    raise AssertionError(t)


def build_arg(a, reg=None):
    from hugr import tys
    k = a[0]
    if k == "type":
        return tys.TypeTypeArg(build_ty(a[1], reg))
    if k == "nat":
        return tys.BoundedNatArg(a[1])
    if k == "str":
        return tys.StringArg(a[1])
    if k == "seq":
        return tys.SequenceArg([build_arg(x, reg) for x in a[1]])
    if k == "exts":
        return tys.ExtensionsArg(list(a[1]))
    if k == "var":
        return tys.VariableArg(a[1], build_param(a[2]))
    raise AssertionError(a)


def make_typedef(td):
    from hugr import ext
    bound = ext.ExplicitBound(B(td["bound"][1])) if td["bound"][0] == "E" else ext.FromParamsBound(list(td["bound"][1]))
    return ext.TypeDef(td["name"], td.get("descr", ""), [build_param(p) for p in td.get("params", [])], bound)


def make_opdef(od):
    from hugr import ext, tys
    sk = od.get("sig", "plain")
    if sk == "binary":
        sig = ext.OpDefSig(None, binary=True)
    elif sk == "poly":
        sig = ext.OpDefSig(tys.PolyFuncType([tys.TypeTypeParam(tys.TypeBound.Any)],
                                            tys.FunctionType.endo([tys.Variable(0, tys.TypeBound.Any)])))
    else:
        sig = ext.OpDefSig(tys.FunctionType.endo([tys.Qubit]))
    return ext.OpDef(od["name"], sig, od.get("descr", ""))


def build_registry(spec):
    from hugr import ext
    reg = ext.ExtensionRegistry()
    for e in spec:
        if "std" in e:
            reg.add_extension(std_exts()[e["std"]])
            continue
        x = ext.Extension(e["name"], ext.Version(0, 1, 0))
        for td in e.get("types", []):
            x.add_type_def(make_typedef(td))
        for od in e.get("ops", []):
            x.add_op_def(make_opdef(od))
        reg.add_extension(x)
    return reg


# Registries with a history (seeded C11-j).  "Exactly when the registry holds an extension of that name containing a
# definition of that name" speaks of the registry as it is at the time of the call, however it got there.  A registry
# spec with a history is brought to the same final contents as `build_registry(spec)` on ONE registry object in
# `k` stages: every extension has a birth stage (`registry.add_extension`), every definition of a generated extension a
# birth stage of its own; a definition born after its extension is added IN PLACE to the already registered extension
# object (`Extension.add_type_def` / `add_op_def`), optionally replacing an older definition of the same name ("old":
# other description, other bound) that was there from the start.  After every stage but the last `warm(registry)` is
# called: the harness runs its whole observation of the case's expression against the half-built registry and throws
# the result away.  `pre`: before all that, the same against another registry object ("full": the final contents,
# "empty").  The std extension objects are shared and never mutated (only their `add_extension` is delayed).
def old_variant(d, is_type):
    d = {**d, "descr": "old " + d.get("descr", "")}
    if is_type:
        d["bound"] = ["E", "A" if d["bound"] == ["E", "C"] else "C"]
    return d


def build_registry_hist(spec, hist, warm):
    from hugr import ext
    K = min(max(int(hist.get("k", 2)), 1), 4)
    eb, tb, ob, old = hist.get("ext", {}), hist.get("types", {}), hist.get("ops", {}), set(hist.get("old", []))

    def birth(d, key):
        return min(max(int(d.get(key, 0)), 0), K - 1)
    if hist.get("pre") == "full":
        warm(build_registry(spec))
    elif hist.get("pre") == "empty":
        warm(build_registry([]))
    reg = ext.ExtensionRegistry()
    objs = {}
    for s in range(K):
        for e in spec:
            if "std" in e:
                if birth(eb, e["std"]) == s:
                    reg.add_extension(std_exts()[e["std"]])
                continue
            nm = e["name"]
            be = birth(eb, nm)
            if be > s:
                continue
            if be == s:
                objs[nm] = ext.Extension(nm, ext.Version(0, 1, 0))
            x = objs[nm]
            for key, births, make, add, tag in (("types", tb, make_typedef, x.add_type_def, "t:"),
                                                ("ops", ob, make_opdef, x.add_op_def, "o:")):
                for d in e.get(key, []):
                    k2 = nm + "/" + d["name"]
                    bd = max(birth(births, k2), be)
                    if be == s and bd > s and tag + k2 in old:
                        add(make(old_variant(d, key == "types")))
                    if bd == s:
                        add(make(d))
            if be == s:
                reg.add_extension(x)
        if s < K - 1:
            warm(reg)
    return reg


# ------------------------------------------------------------------------------------------------ printers (hugr objects -> trees)
class Unprintable(Exception):
    pass


def bname(b):
    return {"C": "C", "A": "A"}[b.value]


def print_param(p):
    from hugr import tys
    if type(p) is tys.TypeTypeParam:
        return ["type", bname(p.bound)]
    if type(p) is tys.BoundedNatParam:
        return ["nat", p.upper_bound]
    if type(p) is tys.StringParam:
        return ["string"]
    if type(p) is tys.ListParam:
        return ["list", print_param(p.param)]
    if type(p) is tys.TupleParam:
        return ["tuple", [print_param(x) for x in p.params]]
    if type(p) is tys.ExtensionsParam:
        return ["exts"]
    raise Unprintable(repr(p))


def owner_name(d):
    """name of the extension a definition belongs to ("" when it has none), through the public accessor"""
    try:
        return d.get_extension().name
    except Exception:  # noqa: BLE001  (NoParentExtension)
        return ""


def print_typedef(td):
    from hugr import ext
    if isinstance(td.bound, ext.ExplicitBound):
        bound = ["E", bname(td.bound.bound)]
    elif isinstance(td.bound, ext.FromParamsBound):
        bound = ["P", [int(i) for i in td.bound.indices]]
    else:
        raise Unprintable(repr(td.bound))
    return {"ext": owner_name(td), "name": td.name,
            "descr": td.description, "params": [print_param(p) for p in td.params], "bound": bound}


def print_opdef(od):
    return {"ext": owner_name(od), "name": od.name, "descr": od.description}


def extop_descr(op):
    """the free-text description a definition-backed operation is written with: the field of the serialised operation
    (the property speaks of the serialised document; it leaves open whether a resolved operation carries the
    description it was loaded with or its definition's, so the model takes it from here - x_descr, checked for
    admissibility by the specification).  When the operation cannot be serialised the description is not observable
    on the wire; the conversion back to an opaque operation is asked instead."""
    from hugr.hugr.node_port import Node
    try:
        d = op._to_serial(Node(0)).description
        if isinstance(d, str):
            return d
    except Exception:  # noqa: BLE001
        pass
    try:
        d = op.to_custom_op().description
        if isinstance(d, str):
            return d
    except Exception:  # noqa: BLE001
        pass
    return op.op_def().description


def print_ty(t):
    """by isinstance, most specific first: sugar classes (Tuple / Option / Either) and other subclasses print as the
    class whose wire form they share; only the compact unit sum is spelled differently on the wire"""
    from hugr import tys
    if isinstance(t, tys.UnitSum):
        return ["unit", int(t.size)]
    if isinstance(t, tys.Sum):
        return ["sum", [[print_ty(x) for x in row] for row in t.variant_rows]]
    if isinstance(t, tys.RowVariable):
        return ["rowvar", int(t.idx), bname(t.bound)]
    if isinstance(t, tys.Variable):
        return ["var", int(t.idx), bname(t.bound)]
    if isinstance(t, tys.USize):
        return ["usize"]
    if isinstance(t, tys._QubitDef):
        return ["qubit"]
    if isinstance(t, tys.Alias):
        return ["alias", t.name, bname(t.bound)]
    if isinstance(t, tys.FunctionType):
        return ["func", [print_ty(x) for x in t.input], [print_ty(x) for x in t.output], list(t.runtime_reqs)]
    if isinstance(t, tys.PolyFuncType):
        return ["poly", [print_param(p) for p in t.params], [print_ty(x) for x in t.body.input],
                [print_ty(x) for x in t.body.output], list(t.body.runtime_reqs)]
    if isinstance(t, tys.Opaque):
        return ["opaque", t.extension, t.id, [print_arg(a) for a in t.args], bname(t.bound)]
    if isinstance(t, tys.ExtType):
        return ["extty", print_typedef(t.type_def), [print_arg(a) for a in t.args]]
    raise Unprintable(repr(t))


def print_arg(a):
    from hugr import tys
    if isinstance(a, tys.TypeTypeArg):
        return ["type", print_ty(a.ty)]
    if isinstance(a, tys.BoundedNatArg):
        return ["nat", int(a.n)]
    if isinstance(a, tys.StringArg):
        return ["str", a.value]
    if isinstance(a, tys.SequenceArg):
        return ["seq", [print_arg(x) for x in a.elems]]
    if isinstance(a, tys.ExtensionsArg):
        return ["exts", list(a.extensions)]
    if isinstance(a, tys.VariableArg):
        return ["var", int(a.idx), print_param(a.param)]
    raise Unprintable(repr(a))


def print_ft(f):
    return {"in": [print_ty(x) for x in f.input], "out": [print_ty(x) for x in f.output], "reqs": list(f.runtime_reqs)}


def print_registry(reg):
    out = []
    for k, x in reg.extensions.items():
        out.append([k, {"name": x.name, "types": [[n, print_typedef(d)] for n, d in x.types.items()],
                        "ops": [[n, print_opdef(d)] for n, d in x.operations.items()]}])
    return out


# serial dicts (pydantic dumps) -> trees; unknown shapes fail closed
def ser_param(d):
    k = d["tp"]
    if k == "Type":
        return ["type", d["b"]]
    if k == "BoundedNat":
        return ["nat", d["bound"]]
    if k == "String":
        return ["string"]
    if k == "List":
        return ["list", ser_param(d["param"])]
    if k == "Tuple":
        return ["tuple", [ser_param(x) for x in d["params"]]]
    if k == "Extensions":
        return ["exts"]
    raise Unprintable(repr(d))


def ser_ty(d):
    if "t" not in d and set(d) == {"params", "body"}:
        b = d["body"]
        return ["poly", [ser_param(p) for p in d["params"]], [ser_ty(x) for x in b["input"]],
                [ser_ty(x) for x in b["output"]], list(b["runtime_reqs"])]
    k = d["t"]
    if k == "Sum":
        if d["s"] == "Unit":
            return ["unit", d["size"]]
        return ["sum", [[ser_ty(x) for x in row] for row in d["rows"]]]
    if k == "V":
        return ["var", d["i"], d["b"]]
    if k == "R":
        return ["rowvar", d["i"], d["b"]]
    if k == "I":
        return ["usize"]
    if k == "Q":
        return ["qubit"]
    if k == "Alias":
        return ["alias", d["name"], d["bound"]]
    if k == "G":
        return ["func", [ser_ty(x) for x in d["input"]], [ser_ty(x) for x in d["output"]], list(d["runtime_reqs"])]
    if k == "Opaque":
        return ["opaque", d["extension"], d["id"], [ser_arg(a) for a in d["args"]], d["bound"]]
    raise Unprintable(repr(d))


def ser_arg(d):
    k = d["tya"]
    if k == "Type":
        return ["type", ser_ty(d["ty"])]
    if k == "BoundedNat":
        return ["nat", d["n"]]
    if k == "String":
        return ["str", d["arg"]]
    if k == "Sequence":
        return ["seq", [ser_arg(x) for x in d["elems"]]]
    if k == "Extensions":
        return ["exts", list(d["es"])]
    if k == "Variable":
        return ["var", d["idx"], ser_param(d["cached_decl"])]
    raise Unprintable(repr(d))


BUILTINS = {"core.adt": "BAdt", "core.fn": "BFn", "prelude.usize": "BUsize", "prelude.qubit": "BQubit",
            "compat.ext_set": "BExtSet"}


def term_tree(t, pairs):
    """hugr.model dataclass tree -> tree; symbols are split against the (extension, id) pairs of the case."""
    import hugr.model as model
    if type(t) is model.Apply:
        sym = None
        for e, i in pairs:
            if t.symbol == f"{e}.{i}":
                sym = ["qual", e, i]
                break
        if sym is None:
            sym = ["builtin", BUILTINS[t.symbol]] if t.symbol in BUILTINS else ["bare", t.symbol]
        return ["app", sym, [term_tree(x, pairs) for x in t.args]]
    if type(t) is model.List:
        return ["list", [term_tree(x, pairs) for x in t.parts]]
    if type(t) is model.Var:
        return ["var", int(t.name)]
    if type(t) is model.Splice:
        return ["splice", term_tree(t.seq, pairs)]
    if type(t) is model.Literal:
        if isinstance(t.value, bool) or not isinstance(t.value, (int, str)):
            raise Unprintable(repr(t))
        return ["nat", t.value] if isinstance(t.value, int) else ["str", t.value]
    raise Unprintable(repr(t))


def guard(f):
    """value of f(), or {"raised": class name}"""
    try:
        return f()
    except Unprintable:
        raise
    except Exception as e:  # noqa: BLE001
        return {"raised": type(e).__name__}


def raised(x):
    return isinstance(x, dict) and "raised" in x


def pairs_of(tree, acc):
    """(extension, id) pairs of the opaque types / custom operations of a tree"""
    if isinstance(tree, list):
        if tree and tree[0] == "opaque":
            acc.add((tree[1], tree[2]))
        for x in tree:
            pairs_of(x, acc)
    elif isinstance(tree, dict):
        if "ext" in tree and "name" in tree:
            acc.add((tree["ext"], tree["name"]))
        for x in tree.values():
            pairs_of(x, acc)
    return acc


# ------------------------------------------------------------------------------------------------ Gallina literals
class Lit:
    def __init__(self):
        self.n = fw.Interner()
        self.n("")                      # the empty string is name 0 (Resolve.empty_name)

    def name(self, s):
        return gN(self.n(("s", s)) if s != "" else 0)

    def bound(self, b):
        return {"C": "Copyable", "A": "Any"}[b]

    def param(self, p):
        k = p[0]
        if k == "type":
            return gapp("PType", self.bound(p[1]))
        if k == "nat":
            return gapp("PNat", gopt(None if p[1] is None else gN(p[1])))
        if k == "string":
            return "PString"
        if k == "list":
            return gapp("PList", self.param(p[1]))
        if k == "tuple":
            return gapp("PTuple", glist(self.param(x) for x in p[1]))
        if k == "exts":
            return "PExts"
        raise AssertionError(p)

    def typedef(self, d):
        b = gapp("Explicit", self.bound(d["bound"][1])) if d["bound"][0] == "E" else \
            gapp("FromParams", glist(gnat(i) for i in d["bound"][1]))
        return gapp("Build_typedef", self.name(d["ext"]), self.name(d["name"]), self.name(d["descr"]),
                    glist(self.param(p) for p in d["params"]), b)

    def opdef(self, d):
        return gapp("Build_opdef", self.name(d["ext"]), self.name(d["name"]), self.name(d["descr"]))

    def names(self, l):
        return glist(self.name(x) for x in l)

    def ty(self, t):
        k = t[0]
        if k == "sum":
            return gapp("TSum", glist(glist(self.ty(x) for x in row) for row in t[1]))
        if k == "unit":
            return gapp("TUnitSum", gnat(t[1]))
        if k == "var":
            return gapp("TVar", gnat(t[1]), self.bound(t[2]))
        if k == "rowvar":
            return gapp("TRowVar", gnat(t[1]), self.bound(t[2]))
        if k == "usize":
            return "TUSize"
        if k == "qubit":
            return "TQubit"
        if k == "alias":
            return gapp("TAlias", self.name(t[1]), self.bound(t[2]))
        if k == "func":
            return gapp("TFunc", glist(self.ty(x) for x in t[1]), glist(self.ty(x) for x in t[2]), self.names(t[3]))
        if k == "poly":
            return gapp("TPoly", glist(self.param(p) for p in t[1]), glist(self.ty(x) for x in t[2]),
                        glist(self.ty(x) for x in t[3]), self.names(t[4]))
        if k == "opaque":
            return gapp("TOpaque", self.name(t[1]), self.name(t[2]), glist(self.arg(a) for a in t[3]), self.bound(t[4]))
        if k == "extty":
            return gapp("TExt", self.typedef(t[1]), glist(self.arg(a) for a in t[2]), "Generic")
        raise AssertionError(t)

    def arg(self, a):
        k = a[0]
        if k == "type":
            return gapp("AType", self.ty(a[1]))
        if k == "nat":
            return gapp("ANat", gN(a[1]))
        if k == "str":
            return gapp("AString", self.name(a[1]))
        if k == "seq":
            return gapp("ASeq", glist(self.arg(x) for x in a[1]))
        if k == "exts":
            return gapp("AExts", self.names(a[1]))
        if k == "var":
            return gapp("AVar", gnat(a[1]), self.param(a[2]))
        raise AssertionError(a)

    def ft(self, f):
        return gapp("Build_functype", glist(self.ty(x) for x in f["in"]), glist(self.ty(x) for x in f["out"]),
                    self.names(f["reqs"]))

    def registry(self, r):
        return glist(gpair(self.name(k), gapp(
            "Build_extension", self.name(x["name"]),
            glist(gpair(self.name(n), self.typedef(d)) for n, d in x["types"]),
            glist(gpair(self.name(n), self.opdef(d)) for n, d in x["ops"]))) for k, x in r)

    def sym(self, s):
        if s[0] == "builtin":
            return gapp("SBuiltin", s[1])
        if s[0] == "qual":
            return gapp("SQual", self.name(s[1]), self.name(s[2]))
        return gapp("SBare", self.name(s[1]))

    def term(self, t):
        k = t[0]
        if k == "app":
            return gapp("MApply", self.sym(t[1]), glist(self.term(x) for x in t[2]))
        if k == "list":
            return gapp("MList", glist(self.term(x) for x in t[1]))
        if k == "var":
            return gapp("MVar", gnat(t[1]))
        if k == "splice":
            return gapp("MSplice", self.term(t[1]))
        if k == "nat":
            return gapp("MNat", gN(t[1]))
        if k == "str":
            return gapp("MStr", self.name(t[1]))
        raise AssertionError(t)

    def opt(self, x, f):
        return "None" if raised(x) else gapp("Some", f(x))

    def op(self, o):
        k = o[0]
        if k == "custom":
            c = o[1]
            return gapp("OCustom", gapp("Build_custom", self.name(c["ext"]), self.name(c["name"]), self.ft(c["sig"]),
                                        self.name(c["descr"]), glist(self.arg(a) for a in c["args"])))
        if k == "extop":
            x = o[1]
            return gapp("OExt", gapp("Build_extop", self.opdef(x["def"]), self.ft(x["sig"]),
                                     glist(self.arg(a) for a in x["args"]), self.name(x["descr"])))
        return gapp("OOther", gN(self.n(("other", o[1]))))

    def export(self, e):
        return gpair(self.sym(e[0]), glist(self.term(x) for x in e[1]), self.term(e[2]))

    # ---- whole HUGRs
    def mdv(self, m):
        if not hasattr(self, "md"):
            self.md = fw.Interner()
            self.md("{}")               # 0 = the empty dict
        return gN(self.md(json.dumps(m, sort_keys=True)))

    def other(self, code):
        return gN(self.n(("other", code)))

    def onat(self, x):
        return "None" if x is None else "(Some %d)" % x

    def oty(self, t):
        return "None" if t is None else gapp("Some", self.ty(t))

    def hop(self, o):
        k = o[0]
        if k == "op":
            return gapp("HOp", self.op(o[1]))
        if k == "const":
            return gapp("HConst", self.cval(o[1]))
        return gapp("HOther", self.other(o[1]), self.onat(o[2][0]), self.onat(o[2][1]), glist(self.oty(t) for t in o[3]))

    def cval(self, v):
        if v[0] == "fn":
            return gapp("VFunc", self.hugr(v[1]))
        if v[0] == "sum":
            return gapp("VSum", self.other(v[1]), glist(self.cval(x) for x in v[2]))
        return gapp("VLeaf", self.other(v[1]))

    def off(self, k):
        return "AOrder" if k == -1 else "(APort %d)" % k

    def hugr(self, d):
        nodes = {n["idx"]: n for n in d["nodes"]}
        out = []
        for i in range(max(nodes) + 1 if nodes else 0):
            n = nodes.get(i)
            if n is None:
                out.append("None")
                continue
            out.append("(Some (Nd %s %s %s %s %d %d))" % (self.hop(n["hop"]), self.onat(n["parent"]),
                       glist(str(c) for c in n["children"]), self.mdv(n["md"]), n["nin"], n["nout"]))
        links = glist("(Lk %d %s %d %s)" % (a, self.off(b), c, self.off(e)) for a, b, c, e in d["links"])
        return "(Hg %s %d %s)" % (glist(out), d["root"], links)

    def sop(self, o):
        k = o[0]
        if k == "op":
            return gapp("SOp", self.op(o[1]))
        if k == "const":
            return gapp("SConst", self.sval(o[1]))
        return gapp("SOther", self.other(o[1]))

    def sval(self, v):
        if v[0] == "fn":
            return gapp("SVFunc", self.serial(v[1]))
        if v[0] == "sum":
            return gapp("SVSum", self.other(v[1]), glist(self.sval(x) for x in v[2]))
        return gapp("SVLeaf", self.other(v[1]))

    def serial(self, v):
        nodes = glist("(Sn %s %d)" % (self.sop(o), p) for o, p in v["nodes"])
        edges = glist("(Ed %d %s %d %s)" % (a[0], self.onat(a[1]), b[0], self.onat(b[1])) for a, b in v["edges"])
        if v["metadata"] is None:
            meta = "None"
        else:
            meta = "(Some %s)" % glist("None" if m is None else "(Some %s)" % self.mdv(m) for m in v["metadata"])
        return "(Sr %s %s %s)" % (nodes, edges, meta)


# ------------------------------------------------------------------------------------------------ generator
GEN_EXTS = ["ext.a", "ext.b", "my_ext"]
TYPE_IDS = ["T", "U", "Pair", "List", "int"]
OP_IDS = ["Op", "Rot", "Not", "iadd"]
DESCRS = ["", "a definition", "rotate", "d2"]


def tree_bound(t, defs=None):
    """bound of a tree (used only to generate consistent inputs)"""
    k = t[0]
    if k in ("sum", "tuple"):
        rows = t[1] if k == "sum" else [t[1]]
        return "A" if any(tree_bound(x, defs) == "A" for row in rows for x in row) else "C"
    if k in ("unit", "usize", "func", "poly"):
        return "C"
    if k == "qubit":
        return "A"
    if k in ("var", "rowvar", "alias"):
        return t[2]
    if k == "opaque":
        return t[4]
    if k == "ext":
        return def_bound(defs[(t[1], t[2])], t[3], defs)
    raise AssertionError(t)


def def_bound(td, args, defs=None):
    if td["bound"][0] == "E":
        return td["bound"][1]
    bs = []
    for i in td["bound"][1]:
        if i >= len(args):
            return None
        if args[i][0] == "type":
            bs.append(tree_bound(args[i][1], defs))
    return "A" if "A" in bs else "C"


def std_typedefs():
    out = {}
    for name, x in std_exts().items():
        for n, d in x.types.items():
            out[(name, n)] = print_typedef(d)
    return out


def rand_param(rng, depth=0):
    r = rng.random()
    if r < 0.45:
        return ["type", rng.choice("CA")]
    if r < 0.65:
        return ["nat", rng.choice([None, 7, 64])]
    if r < 0.75:
        return ["string"]
    if r < 0.85 and depth < 2:
        return ["list", rand_param(rng, depth + 1)]
    if r < 0.95 and depth < 2:
        return ["tuple", [rand_param(rng, depth + 1) for _ in range(rng.randint(0, 2))]]
    return ["exts"]


def rand_universe(rng):
    """generated extension specs (a universe of definitions from which registries are cut)"""
    exts = []
    names = rng.sample(GEN_EXTS, rng.randint(1, 3))
    if rng.random() < 0.25:             # a generated extension under a std name (extension present, definition absent)
        names.append(rng.choice(["collections.list", "arithmetic.int.types", "logic"]))
    for nm in names:
        tds = []
        for tid in rng.sample(TYPE_IDS, rng.randint(0, 3)):
            params = [rand_param(rng) for _ in range(rng.randint(0, 3))]
            if rng.random() < 0.5 or not params:
                bound = ["E", rng.choice("CA")]
            else:
                bound = ["P", sorted(rng.sample(range(len(params)), rng.randint(1, len(params))))]
                if rng.random() < 0.3:
                    bound[1] = bound[1][::-1]
            tds.append({"name": tid, "descr": rng.choice(DESCRS), "params": params, "bound": bound})
        ods = [{"name": oid, "descr": rng.choice(DESCRS), "sig": rng.choice(["plain", "poly", "binary"])}
               for oid in rng.sample(OP_IDS, rng.randint(0, 3))]
        exts.append({"name": nm, "types": tds, "ops": ods})
    return exts


def cut_registry(rng, universe, std_names):
    """registry = empty | complete | partial (extension missing, definition missing, definition moved)"""
    mode = rng.choice(["empty", "complete", "complete", "drop-ext", "drop-def", "move-def", "std-only", "mixed"])
    gen = [json.loads(json.dumps(e)) for e in universe]
    std = list(std_names)
    if mode == "empty":
        return [], mode
    if mode == "std-only":
        gen = []
    if mode in ("drop-ext", "mixed") and gen:
        gen.pop(rng.randrange(len(gen)))
    if mode in ("drop-ext", "mixed") and std:
        std.pop(rng.randrange(len(std)))
    if mode in ("drop-def", "mixed"):
        for e in gen:
            for key in ("types", "ops"):
                e[key] = [d for d in e[key] if rng.random() < 0.5]
    if mode == "move-def" and len(gen) >= 2:
        a, b = rng.sample(range(len(gen)), 2)
        for key in ("types", "ops"):
            have = {d["name"] for d in gen[b][key]}
            for d in list(gen[a][key]):
                if d["name"] not in have and rng.random() < 0.7:
                    gen[a][key].remove(d)
                    gen[b][key].append(d)
    taken = {e["name"] for e in gen}
    spec = gen + [{"std": s} for s in std if s not in taken]
    rng.shuffle(spec)
    return spec, mode


def near_miss(rng, name):
    """a name that differs from a defined one by case, a trailing character, a missing character or a prefix"""
    r = rng.random()
    if r < 0.35:
        return name.swapcase() if name.swapcase() != name else name + "_"
    if r < 0.55:
        return name.lower() if name.lower() != name else name.upper()
    if r < 0.7:
        return name + rng.choice(["2", " ", "_", "."])
    if r < 0.85 and len(name) > 1:
        return name[:-1]
    return rng.choice(["x.", "_"]) + name


class Gen:
    def __init__(self, rng, universe, std_names, consistent=True):
        self.rng, self.consistent = rng, consistent
        self.defs = {(e["name"], d["name"]): {**d, "ext": e["name"]} for e in universe for d in e["types"]}
        for k, d in std_typedefs().items():
            if k[0] in std_names and k not in self.defs and k not in (("prelude", "usize"), ("prelude", "qubit")):
                self.defs[k] = d
        self.ops = [(e["name"], d["name"]) for e in universe for d in e["ops"]]
        for s in std_names:
            self.ops += [(s, n) for n in list(std_exts()[s].operations)[:6]]

    def leaf(self):
        rng = self.rng
        return rng.choice([["unit", rng.choice([0, 1, 2, 3])], ["usize"], ["qubit"], ["var", rng.randint(0, 2), rng.choice("CA")],
                           ["alias", rng.choice(["al", "T", "ext.a.T"][:2]), rng.choice("CA")], ["unit", 2], ["qubit"]])

    def arg_for(self, p, depth):
        rng = self.rng
        k = p[0]
        if k == "type":
            return ["type", self.ty(depth)]
        if k == "nat":
            return ["nat", rng.choice([0, 3, 5, 6, 64])]
        if k == "string":
            return ["str", rng.choice(["", "s", "T"])]
        if k == "list":
            return ["seq", [self.arg_for(p[1], depth - 1) for _ in range(rng.randint(0, 2))]]
        if k == "tuple":
            return ["seq", [self.arg_for(q, depth - 1) for q in p[1]]]
        return ["exts", rng.sample(GEN_EXTS, rng.randint(0, 2))]

    def arg(self, depth):
        rng = self.rng
        r = rng.random()
        if r < 0.5:
            return ["type", self.ty(depth)]
        if r < 0.6:
            return ["nat", rng.choice([0, 5, 7])]
        if r < 0.7:
            return ["str", rng.choice(["", "x"])]
        if r < 0.9 and depth > 0:
            return ["seq", [self.arg(depth - 1) for _ in range(rng.randint(0, 3))]]
        if r < 0.95:
            return ["exts", rng.sample(GEN_EXTS, rng.randint(0, 2))]
        return ["var", rng.randint(0, 2), rand_param(rng)]

    def opaque(self, depth):
        rng = self.rng
        r = rng.random()
        if self.defs and r < 0.75:
            (e, i) = rng.choice(sorted(self.defs))
            d = self.defs[(e, i)]
            args = [self.arg_for(p, depth - 1) for p in d["params"]]
            if rng.random() < 0.1:
                args = args + [self.arg(max(depth - 1, 0))] if rng.random() < 0.5 else args[:-1]
            b = def_bound(d, args)
            if b is None or not self.consistent and rng.random() < 0.5:
                b = rng.choice("CA")
            if rng.random() < 0.12:     # same id, unknown or other extension
                e = rng.choice(GEN_EXTS + ["nowhere"])
            elif rng.random() < 0.12:   # near-miss of a defined name: must stay opaque
                if rng.random() < 0.5:
                    i = near_miss(rng, i)
                else:
                    e = near_miss(rng, e)
            return ["opaque", e, i, args, b]
        e = rng.choice(GEN_EXTS + ["nowhere", "collections.list"])
        i = rng.choice(TYPE_IDS + ["Unknown"])
        return ["opaque", e, i, [self.arg(depth - 1) for _ in range(rng.randint(0, 2))] if depth > 0 else [], rng.choice("CA")]

    def ty(self, depth):
        rng = self.rng
        if depth <= 0:
            return self.leaf() if depth < 0 or rng.random() < 0.5 else self.opaque(0)
        r = rng.random()
        if r < 0.45:
            return self.opaque(depth)
        if r < 0.6:
            return ["sum", [[self.ty(depth - 1) for _ in range(rng.randint(0, 2))] for _ in range(rng.randint(0, 3))]]
        if r < 0.67:
            return ["tuple", [self.ty(depth - 1) for _ in range(rng.randint(0, 3))]]
        if r < 0.82:
            return ["func", [self.ty(depth - 1) for _ in range(rng.randint(0, 2))],
                    [self.ty(depth - 1) for _ in range(rng.randint(0, 2))], rng.sample(GEN_EXTS, rng.randint(0, 2))]
        return self.leaf()

    def ft(self, depth):
        rng = self.rng
        return {"in": [self.ty(depth) for _ in range(rng.randint(0, 2))], "out": [self.ty(depth) for _ in range(rng.randint(0, 2))],
                "reqs": rng.sample(GEN_EXTS, rng.randint(0, 1))}

    def custom(self, depth):
        rng = self.rng
        if self.ops and rng.random() < 0.75:
            e, n = rng.choice(self.ops)
            if rng.random() < 0.1:
                e = rng.choice(GEN_EXTS + ["nowhere"])
            elif rng.random() < 0.12:
                if rng.random() < 0.5:
                    n = near_miss(rng, n)
                else:
                    e = near_miss(rng, e)
        else:
            e, n = rng.choice(GEN_EXTS + ["nowhere", "logic"]), rng.choice(OP_IDS + ["Unknown"])
        return {"op": "custom", "ext": e, "name": n, "descr": rng.choice(["", "", "orig", "rotate"]), "sig": self.ft(depth),
                "args": [self.arg(depth) for _ in range(rng.randint(0, 2))]}


# ------------------------------------------------------------------------------------------------ sibling nodes
# Resolution is per node: what one node resolves to must not depend on the other nodes of the HUGR.  The sibling
# stream builds HUGRs whose custom nodes are one-point variations of one base node (same operation name and
# extension; different in the extension of one same-named opaque type, in the description, or in one component at
# any depth) and registries that are partial in exactly the distinguishing extension.
def flip(b):
    return "A" if b == "C" else "C"


def mut_ty(t, twin, depth=0):
    """one-point variations of a type tree: (tag, depth, tree)"""
    k = t[0]
    if k == "opaque":
        yield "type-ext", depth, ["opaque", twin(t[1]), t[2], t[3], t[4]]
        yield "type-id", depth, ["opaque", t[1], t[2] + "2", t[3], t[4]]
        yield "type-bound", depth, ["opaque", t[1], t[2], t[3], flip(t[4])]
        for j, a in enumerate(t[3]):
            for tag, d, a2 in mut_arg(a, twin, depth + 1):
                yield tag, d, ["opaque", t[1], t[2], t[3][:j] + [a2] + t[3][j + 1:], t[4]]
    elif k == "sum":
        for i, row in enumerate(t[1]):
            for j, x in enumerate(row):
                for tag, d, x2 in mut_ty(x, twin, depth + 1):
                    yield tag, d, ["sum", t[1][:i] + [row[:j] + [x2] + row[j + 1:]] + t[1][i + 1:]]
    elif k == "tuple":
        for j, x in enumerate(t[1]):
            for tag, d, x2 in mut_ty(x, twin, depth + 1):
                yield tag, d, ["tuple", t[1][:j] + [x2] + t[1][j + 1:]]
    elif k == "func":
        for pos in (1, 2):
            for j, x in enumerate(t[pos]):
                for tag, d, x2 in mut_ty(x, twin, depth + 1):
                    u = list(t)
                    u[pos] = t[pos][:j] + [x2] + t[pos][j + 1:]
                    yield tag, d, u
        yield "reqs", depth, ["func", t[1], t[2], [r for r in GEN_EXTS if r not in t[3]][:1] + t[3][1:]]
    elif k == "unit":
        yield "leaf", depth, ["unit", t[1] + 1]
    elif k in ("var", "rowvar"):
        yield "leaf", depth, [k, t[1] + 1, t[2]]
        yield "leaf", depth, [k, t[1], flip(t[2])]
    elif k == "alias":
        yield "leaf", depth, ["alias", t[1] + "2", t[2]]
    elif k == "usize":
        yield "leaf", depth, ["qubit"]
    elif k == "qubit":
        yield "leaf", depth, ["usize"]


def mut_arg(a, twin, depth=0):
    k = a[0]
    if k == "type":
        for tag, d, t2 in mut_ty(a[1], twin, depth):
            yield tag, d, ["type", t2]
    elif k == "nat":
        yield "leaf", depth, ["nat", a[1] + 1]
    elif k == "str":
        yield "leaf", depth, ["str", a[1] + "x"]
    elif k == "seq":
        for j, x in enumerate(a[1]):
            for tag, d, x2 in mut_arg(x, twin, depth + 1):
                yield tag, d, ["seq", a[1][:j] + [x2] + a[1][j + 1:]]
        if a[1]:
            yield "seq-len", depth, ["seq", a[1] + a[1][-1:]]
    elif k == "exts":
        yield "leaf", depth, ["exts", [r for r in GEN_EXTS if r not in a[1]][:1] + a[1][1:]]
    elif k == "var":
        yield "leaf", depth, ["var", a[1] + 1, a[2]]


def mut_node(n, twin):
    """one-point variations of a custom node spec that keep its operation name and extension: (tag, depth, node)"""
    yield "descr", 0, {**n, "descr": n["descr"] + "'"}
    yield "descr", 0, {**n, "descr": "" if n["descr"] else "other"}
    f = n["sig"]
    for pos in ("in", "out"):
        for j, x in enumerate(f[pos]):
            for tag, d, x2 in mut_ty(x, twin, 1):
                yield "sig:" + tag, d, {**n, "sig": {**f, pos: f[pos][:j] + [x2] + f[pos][j + 1:]}}
    yield "sig:reqs", 0, {**n, "sig": {**f, "reqs": [r for r in GEN_EXTS if r not in f["reqs"]][:1] + f["reqs"][1:]}}
    for j, a in enumerate(n["args"]):
        for tag, d, a2 in mut_arg(a, twin, 1):
            yield "arg:" + tag, d, {**n, "args": n["args"][:j] + [a2] + n["args"][j + 1:]}


def rename_type_ext(x, src, dst):
    """every opaque type of extension src (at any depth of a node spec / tree) moved to extension dst"""
    if isinstance(x, list):
        if x and x[0] == "opaque" and x[1] == src:
            return ["opaque", dst, x[2], rename_type_ext(x[3], src, dst), x[4]]
        return [rename_type_ext(y, src, dst) for y in x]
    if isinstance(x, dict):
        return {k: (rename_type_ext(v, src, dst) if k in ("sig", "args", "in", "out") else v) for k, v in x.items()}
    return x


TWIN_NAMES = ["ext.c", "types.b", "ext.a2"]


def sibling_case(rng, allstd):
    """a HUGR of near-identical custom nodes + a registry partial in the extension that tells them apart"""
    universe = rand_universe(rng)
    # E: an extension with at least one type definition; E2: its twin (same type and operation names, same
    # parameters and bounds, so that a type moved from E to E2 is consistent under either)
    E = rng.choice(universe)
    if not E["types"]:
        E["types"].append({"name": rng.choice(TYPE_IDS), "descr": "", "bound": ["E", rng.choice("CA")], "params": []})
    if rng.random() < 0.5 and not any(d["params"] for d in E["types"]):
        E["types"].append({"name": next(i for i in TYPE_IDS + ["Box"] if i not in {d["name"] for d in E["types"]}),
                           "descr": "", "params": [["type", "A"]], "bound": ["P", [0]]})
    others = [e["name"] for e in universe if e is not E]
    e2name = rng.choice([n for n in GEN_EXTS + TWIN_NAMES if n != E["name"] and n not in others])
    E2 = {"name": e2name, "types": [{**json.loads(json.dumps(d)), "descr": rng.choice(DESCRS)} for d in E["types"]],
          "ops": [{**d, "descr": rng.choice(DESCRS)} for d in E["ops"]]}
    universe.append(E2)
    # the operation: of any extension of the universe (E and E2 included), with a definition
    O = rng.choice(universe)
    if not O["ops"]:
        O["ops"].append({"name": rng.choice(OP_IDS), "descr": rng.choice(DESCRS), "sig": "poly"})
        if O is E:
            E2["ops"].append({**O["ops"][0], "descr": rng.choice(DESCRS)})
    opn = rng.choice(O["ops"])["name"]
    std_names = rng.sample(allstd, rng.choice([0, 0, 1]))
    g = Gen(rng, universe, std_names)

    def twin(e):
        if e == E["name"]:
            return E2["name"]
        if e == E2["name"]:
            return E["name"]
        return rng.choice([n for n in [x["name"] for x in universe] + ["nowhere"] if n != e])

    def of_E():                         # an opaque type of E, plain or wrapped
        d = rng.choice(E["types"])
        args = [g.arg_for(p, rng.choice([0, 1])) for p in d["params"]]
        o = ["opaque", E["name"], d["name"], args, def_bound(d, args) or "A"]
        r = rng.random()
        if r < 0.55:
            return o
        if r < 0.7:
            return ["sum", [[o], [["unit", 2], o][:rng.randint(0, 2)]]]
        if r < 0.8:
            return ["func", [o], [g.ty(0)], []]
        boxes = [(k, dd) for k, dd in g.defs.items() if [p[0] for p in dd["params"]] == ["type"]]
        if boxes:
            (be, bi), bd = rng.choice(sorted(boxes, key=lambda kv: kv[0]))
            return ["opaque", be, bi, [["type", o]], def_bound(bd, [["type", o]]) or "A"]
        return ["opaque", "nowhere", "U", [["type", o]], rng.choice("CA")]

    t = of_E()
    base = g.custom(rng.choice([0, 1]))
    base["ext"], base["name"] = O["name"], opn
    shape = rng.random()
    if shape < 0.4:                     # polymorphic identity applied to t
        base["sig"] = {"in": [t], "out": [t], "reqs": base["sig"]["reqs"]}
        base["args"] = [["type", t]]
    elif shape < 0.6:                   # only in the signature
        base["sig"]["in"] = base["sig"]["in"][:1] + [t]
    elif shape < 0.8:                   # only in the type arguments
        base["args"] = base["args"][:1] + [rng.choice([["type", t], ["seq", [["type", t], ["nat", 3]]]])]
    else:
        base["sig"]["out"] = [of_E()] + base["sig"]["out"][:1]
        base["args"] = [["type", t]] + base["args"][:1]

    muts = list(mut_node(base, twin))
    by = {"ext": [m for m in muts if m[0].endswith("type-ext")],
          "descr": [m for m in muts if m[0] == "descr"],
          "deep": [m for m in muts if m[1] >= 2] or muts,
          "any": muts}
    nodes, tags = [base], ["base"]
    for _ in range(rng.choice([1, 1, 2, 3])):
        kind = rng.choice(["ext", "ext", "ext-all", "descr", "deep", "any", "dup"])
        if kind == "dup":
            nodes.append(json.loads(json.dumps(base)))
        elif kind == "ext-all":
            nodes.append(rename_type_ext(base, E["name"], E2["name"]))
        else:
            tag, _, n2 = rng.choice(by[kind] or muts)
            if kind == "deep" and rng.random() < 0.3:      # and the description as well
                n2 = {**n2, "descr": rng.choice(["", "orig", "rotate"])}
            nodes.append(n2)
            kind = kind + ":" + tag
        tags.append(kind)
    order = list(range(len(nodes)))
    rng.shuffle(order)
    nodes, tags = [nodes[i] for i in order], [tags[i] for i in order]
    if rng.random() < 0.25:
        nodes.insert(rng.randrange(len(nodes) + 1), {"op": "std", "which": rng.choice(STD_OPS), "ty": g.ty(1)})
    # registry: partial in exactly the distinguishing extension (either side), or complete / definition dropped
    mode = rng.choice(["sib:only-E", "sib:only-E", "sib:only-E2", "sib:only-E2", "sib:both", "sib:E2-no-types",
                       "sib:E-no-types", "sib:neither"])
    reg = [json.loads(json.dumps(e)) for e in universe]
    drop = {"sib:only-E": [E2["name"]], "sib:only-E2": [E["name"]], "sib:neither": [E["name"], E2["name"]]}.get(mode, [])
    reg = [e for e in reg if e["name"] not in drop]
    for e in reg:
        if (mode, e["name"]) in (("sib:E2-no-types", E2["name"]), ("sib:E-no-types", E["name"])):
            e["types"] = []
    if drop and O["name"] in drop and rng.random() < 0.7:
        # keep the operation's definition resolvable: file it in an extension that stays
        keep = dict(next(e for e in universe if e["name"] == O["name"]))
        reg.append({"name": keep["name"], "types": [], "ops": keep["ops"]})
    reg += [{"std": s} for s in std_names if s not in {e["name"] for e in reg}]
    rng.shuffle(reg)
    return {"kind": "hugr", "via": rng.choice(["loaded", "loaded", "built"]), "reg": reg, "mode": mode, "nodes": nodes,
            "sib": tags}


# ------------------------------------------------------------------------------------------------ container paths
# "Resolution reaches every depth": whichever chain of containers leads from the expression being resolved down to
# an opaque type, the type at the end is resolved.  A chain is a list of steps; a step names the container and the
# slot the next link sits in.  Steps from a type: sum / tuple / fin / fout (function type input / output; the child
# is a type), opqR / opqU (argument of a resolvable / of an unresolvable opaque type; the child is a type argument).
# Steps from a type argument: type (the child is a type), seq (the child is a type argument).  The random streams
# reach a given chain with a probability that falls geometrically with its length and some pairs (a sequence directly
# inside a sequence) need two unlikely draws in a row; the path stream enumerates every chain up to a length and
# samples longer ones, as a bare type / type argument and as signature / type argument of a custom node.
TY_STEPS = {"sum": "ty", "tuple": "ty", "fin": "ty", "fout": "ty", "opqR": "arg", "opqU": "arg"}
ARG_STEPS = {"type": "ty", "seq": "arg"}
PATH_EXT, PATH_BOX_EXT, PATH_OP_EXT = "ext.a", "ext.b", "ext.ops"


def paths(sort, n):
    """every chain of n steps that starts at a `sort` ("ty" | "arg") and ends at a type (the opaque leaf)"""
    if n == 0:
        if sort == "ty":
            yield []
        return
    for s, child in (TY_STEPS if sort == "ty" else ARG_STEPS).items():
        for rest in paths(child, n - 1):
            yield [s] + rest


def rand_path(rng, sort, n):
    p, cur = [], sort
    for _ in range(n):
        s = rng.choice(sorted(TY_STEPS if cur == "ty" else ARG_STEPS))
        p.append(s)
        cur = (TY_STEPS if cur == "ty" else ARG_STEPS)[s]
    return p if cur == "ty" else p + ["type"]      # a chain ends at a type: close it with a type step


def param_of(a):
    """a type parameter that the type argument tree `a` fits"""
    k = a[0]
    if k == "type":
        return ["type", "A"]
    if k == "nat":
        return ["nat", None]
    if k == "str":
        return ["string"]
    if k == "exts":
        return ["exts"]
    if k == "seq":
        ps = [param_of(x) for x in a[1]]
        if not ps:
            return ["list", ["type", "A"]]
        return ["list", ps[0]] if all(p == ps[0] for p in ps) else ["tuple", ps]
    raise AssertionError(a)


class PathBuilder:
    """builds the expression of a chain; collects the type definitions its resolvable containers need"""

    def __init__(self, rng=None, leaf_bound="C"):
        self.rng, self.boxes = rng, []
        self.leaf = ["opaque", PATH_EXT, "T", [], leaf_bound]
        self.leaf_def = {"name": "T", "descr": "", "params": [], "bound": ["E", leaf_bound]}

    def pad_tys(self):
        if self.rng is None or self.rng.random() < 0.4:
            return []
        return [self.rng.choice([["unit", 2], ["usize"], ["qubit"], ["opaque", "nowhere", "U", [], "C"], self.leaf])
                for _ in range(self.rng.randint(1, 2))]

    def pad_args(self):
        if self.rng is None or self.rng.random() < 0.4:
            return []
        return [self.rng.choice([["nat", 3], ["str", "s"], ["seq", []], ["seq", [["nat", 0]]], ["type", ["qubit"]],
                                 ["exts", ["ext.a"]], ["type", self.leaf]])
                for _ in range(self.rng.randint(1, 2))]

    def place(self, x, pad):
        l = list(pad)
        l.insert(self.rng.randrange(len(l) + 1) if self.rng is not None else 0, x)
        return l

    def ty(self, steps):
        if not steps:
            return self.leaf
        s, rest = steps[0], steps[1:]
        if s in ("opqR", "opqU"):
            args = self.place(self.arg(rest), self.pad_args())
            if s == "opqU":
                return ["opaque", "nowhere", "U", args, "A" if self.rng is None else self.rng.choice("CA")]
            params = [param_of(a) for a in args]
            tidx = [i for i, a in enumerate(args) if a[0] == "type"]
            if tidx and (self.rng is None or self.rng.random() < 0.5):
                bound = ["P", tidx if self.rng is None or self.rng.random() < 0.7 else tidx[:1]]
            else:
                bound = ["E", "A" if self.rng is None else self.rng.choice("CA")]
            td = {"name": "B%d" % len(self.boxes), "descr": "", "params": params, "bound": bound}
            self.boxes.append(td)
            return ["opaque", PATH_BOX_EXT, td["name"], args, def_bound(td, args)]
        child = self.ty(rest)
        if s == "sum":
            rows = [self.place(child, self.pad_tys())]
            if self.rng is not None and self.rng.random() < 0.5:
                rows.insert(self.rng.randrange(2), self.pad_tys())
            elif self.rng is None:
                rows.insert(0, [])       # two variants: stays a general sum after a round trip
            return ["sum", rows]
        if s == "tuple":
            return ["tuple", self.place(child, self.pad_tys())]
        reqs = [] if self.rng is None else self.rng.sample(GEN_EXTS, self.rng.randint(0, 1))
        if s == "fin":
            return ["func", self.place(child, self.pad_tys()), self.pad_tys(), reqs]
        if s == "fout":
            return ["func", self.pad_tys(), self.place(child, self.pad_tys()), reqs]
        raise AssertionError(s)

    def arg(self, steps):
        s, rest = steps[0], steps[1:]
        if s == "type":
            return ["type", self.ty(rest)]
        if s == "seq":
            return ["seq", self.place(self.arg(rest), self.pad_args())]
        raise AssertionError(s)

    def registry(self, mode):
        """complete | leaf-only (the containers' definitions missing: they stay opaque, the leaf inside them is
        resolved) | boxes-only (the leaf stays opaque at every depth) | empty; the operation is always defined"""
        reg = [{"name": PATH_OP_EXT, "types": [], "ops": [{"name": "Id", "descr": "identity", "sig": "poly"}]}]
        if mode in ("complete", "leaf-only"):
            reg.append({"name": PATH_EXT, "types": [self.leaf_def], "ops": []})
        if mode in ("complete", "boxes-only") and self.boxes:
            reg.append({"name": PATH_BOX_EXT, "types": json.loads(json.dumps(self.boxes)), "ops": []})
        return [] if mode == "empty" else reg


def path_case(sort, steps, where, mode, rng=None):
    """where: "bare" (the expression itself), "op-arg" / "op-sig" (a custom node of a loaded HUGR)"""
    pb = PathBuilder(rng, "C" if rng is None else rng.choice("CA"))
    x = pb.ty(steps) if sort == "ty" else pb.arg(steps)
    tag = {"path": "/".join(steps), "mode": "path:" + mode, "where": where}
    reg = pb.registry(mode)
    if rng is not None:
        rng.shuffle(reg)
    if where == "bare":
        if sort == "ty":
            return {"kind": "ty", "via": "loaded", "reg": reg, "t": x, **tag}
        return {"kind": "arg", "via": "loaded", "reg": reg, "a": x, **tag}
    node = {"op": "custom", "ext": PATH_OP_EXT, "name": "Id", "descr": "identity",
            "sig": {"in": [], "out": [], "reqs": [PATH_OP_EXT]}, "args": []}
    if where == "op-arg":
        assert sort == "arg"
        node["args"] = pb.place(x, pb.pad_args())
    else:
        assert sort == "ty"
        pos = "in" if rng is None or rng.random() < 0.5 else "out"
        node["sig"][pos] = pb.place(x, pb.pad_tys())
    nodes = [node]
    if rng is not None and rng.random() < 0.3:
        nodes.insert(rng.randrange(2), {"op": "std", "which": rng.choice(STD_OPS), "ty": ["qubit"]})
    return {"kind": "hugr", "via": "loaded", "reg": reg, "nodes": nodes, **tag}


def path_stream(rng, tier):
    quick = tier == "quick"
    # deterministic: every chain up to length 3 (quick) / 5 (thorough), complete registry, no padding; chains through
    # a resolvable container also against the registry without the containers' definitions
    for n in range(1, 4 if quick else 6):
        for sort in ("ty", "arg"):
            for p in paths(sort, n):
                yield path_case(sort, p, "bare", "complete")
                if "opqR" in p and n <= 3:
                    yield path_case(sort, p, "bare", "leaf-only")
    # ... and as type argument / signature of a custom node of a loaded HUGR
    for n in range(1, 4 if quick else 5):
        for p in paths("arg", n):
            yield path_case("arg", p, "op-arg", "complete")
    for n in range(0, 3 if quick else 4):
        for p in paths("ty", n):
            yield path_case("ty", p, "op-sig", "complete")
    # sampled: longer chains, padded containers (the chain is one element among others, at a random position), every
    # registry mode
    for _ in range(120 if quick else 2400):
        sort = rng.choice(["ty", "arg"])
        p = rand_path(rng, sort, rng.choice([2, 3, 4, 4, 5, 6]))
        where = rng.choice(["bare", "bare", "op-arg" if sort == "arg" else "op-sig"])
        mode = rng.choice(["complete", "complete", "leaf-only", "leaf-only", "boxes-only", "empty"])
        yield path_case(sort, p, where, mode, rng)


STD_OPS = ["noop", "not", "divmod", "maketuple", "tag", "dfg", "iadd", "fadd", "list_push"]


def build_std_op(which, reg, gen_ty):
    from hugr import ops, tys
    if which == "noop":
        return ops.Noop(gen_ty)
    if which == "not":
        from hugr.std.logic import Not
        return Not
    if which == "divmod":
        from hugr.std.int import DivMod
        return DivMod
    if which == "maketuple":
        return ops.MakeTuple([tys.Bool, gen_ty])
    if which == "tag":
        return ops.Tag(0, tys.Sum([[gen_ty], []]))
    if which == "dfg":
        return ops.DFG([gen_ty], [gen_ty])
    if which == "iadd":
        from hugr.std.int import INT_OPS_EXTENSION, int_t
        return INT_OPS_EXTENSION.get_op("iadd").instantiate([tys.BoundedNatArg(4)], tys.FunctionType([int_t(4), int_t(4)], [int_t(4)]))
    if which == "fadd":
        from hugr.std.float import FLOAT_OPS_EXTENSION, FLOAT_T
        return FLOAT_OPS_EXTENSION.get_op("fadd").instantiate([], tys.FunctionType([FLOAT_T, FLOAT_T], [FLOAT_T]))
    if which == "list_push":
        from hugr.std.collections.list import EXTENSION, List
        lt = List(gen_ty)
        return EXTENSION.get_op("push").instantiate([tys.TypeTypeArg(gen_ty)], tys.FunctionType([lt, gen_ty], [lt]))
    raise AssertionError(which)


# ------------------------------------------------------------------------------------------------ respelled rows
# Type equality in hugr-py is coarser than the wire format: a unit sum `UnitSum(n)` and the general sum of n empty rows
# compare equal but serialise differently.  Resolution must treat every position of an expression on its own; the
# respell stream builds function types (bare, nested, and as signatures of defined custom operations) whose input and
# output rows are equal element by element under `==` but spelled differently at one or more positions, at any depth.
def respell(t, rng, force=True):
    """t with some unit sums respelled (compact <-> general with empty rows); at least one when force and possible"""
    sites = []

    def walk(x, path):
        if isinstance(x, list):
            if x and x[0] == "unit" and x[1] <= 3:
                sites.append(path)
            elif x and x[0] == "sum" and all(r == [] for r in x[1]) and len(x[1]) <= 3:
                sites.append(path)
            for i, y in enumerate(x):
                walk(y, path + [i])
        elif isinstance(x, dict):
            for k2, y in x.items():
                walk(y, path + [k2])
    walk(t, [])
    if not sites:
        return t
    chosen = [p for p in sites if rng.random() < 0.5]
    if force and not chosen:
        chosen = [rng.choice(sites)]
    out = json.loads(json.dumps(t))
    for p in sorted(chosen, key=len, reverse=True):
        cur = out
        for k2 in p[:-1]:
            cur = cur[k2]
        x = cur[p[-1]] if p else out
        y = ["sum", [[] for _ in range(x[1])]] if x[0] == "unit" else ["unit", len(x[1])]
        if p:
            cur[p[-1]] = y
        else:
            out = y
    return out


RESPELL_TY_PLACES = ["func-io", "func-io-row", "func-in-in", "sum-variants", "row-elems", "tuple-elems",
                     "opaque-args", "seq-elems", "nested-func-io"]
RESPELL_NODE_PLACES = ["sig-io", "sig-args", "args", "siblings", "siblings-whole", "nested-vs-outer"]
RESPELL_WRAPS = ["bare", "sum", "tuple", "func-in", "func-out", "opaque-arg", "seq-arg"]


def respell_wrap(x, how):
    """x one container deeper (the unit sum is then respelled at depth)"""
    if how == "bare":
        return x
    if how == "sum":
        return ["sum", [[["qubit"]], [x, ["usize"]]]]
    if how == "tuple":
        return ["tuple", [x]]
    if how == "func-in":
        return ["func", [x], [], []]
    if how == "func-out":
        return ["func", [["usize"]], [x], []]
    if how == "opaque-arg":
        return ["opaque", "nowhere", "U", [["type", x]], "C"]
    if how == "seq-arg":
        return ["opaque", "nowhere", "U", [["seq", [["nat", 1], ["type", x]]]], "C"]
    raise AssertionError(how)


def respell_case(place, n, wrap, reg_mode, rng, via="loaded"):
    """two expressions equal under `==` and spelled differently (a unit sum of size n, compact vs general, under the
    container `wrap`), put at two positions of one expression / one node / two nodes that an implementation sharing
    results between equal sub-expressions would merge"""
    ext_a = {"name": "ext.a", "types": [{"name": "T", "descr": "", "params": [], "bound": ["E", "C"]}],
             "ops": [{"name": "Op", "descr": "a definition", "sig": "plain"}]}
    ext_ops = {"name": "ext.ops", "types": [], "ops": [{"name": "Id", "descr": "identity", "sig": "poly"}]}
    t_in = ["opaque", "ext.a", "T", [], "C"]
    x = respell_wrap(["unit", n], wrap)
    y = respell_wrap(["sum", [[] for _ in range(n)]], wrap)
    if rng.random() < 0.5:
        x, y = y, x
    reg = {"complete": [ext_a, ext_ops], "ops-only": [ext_ops], "empty": []}[reg_mode]
    base = {"via": via, "reg": reg, "mode": "respell", "respell": place + ":" + wrap}
    if place in RESPELL_TY_PLACES:
        t = {"func-io": ["func", [x], [y], []],
             "func-io-row": ["func", [t_in, x, ["qubit"]], [t_in, y, ["qubit"]], ["ext.a"]],
             "func-in-in": ["func", [x, y], [t_in], []],
             "sum-variants": ["sum", [[x], [y], [t_in]]],
             "row-elems": ["sum", [[x, y, t_in]]],
             "tuple-elems": ["tuple", [x, y]],
             "opaque-args": ["opaque", rng.choice(["nowhere", "ext.a"]), "U", [["type", x], ["type", y], ["type", t_in]], "C"],
             "seq-elems": ["opaque", "nowhere", "U", [["seq", [["type", x], ["type", y]]]], "C"],
             "nested-func-io": ["sum", [[["func", [["func", [x], [y], []]], [["func", [x], [y], []]], []]]]]}[place]
        if place == "seq-elems" and rng.random() < 0.5:
            return {**base, "kind": "arg", "a": ["seq", [["type", x], ["type", y]]]}
        return {**base, "kind": "ty", "t": t}

    def ident(sig_in, sig_out, args, descr="identity"):
        return {"op": "custom", "ext": "ext.ops", "name": "Id", "descr": descr,
                "sig": {"in": sig_in, "out": sig_out, "reqs": []}, "args": args}
    if place == "sig-io":
        nodes = [ident([x, t_in], [y, t_in], [["type", t_in]])]
    elif place == "sig-args":
        nodes = [ident([x], [x], [["type", y]])]
    elif place == "args":
        nodes = [ident([t_in], [t_in], [["type", x], ["type", y], ["seq", [["type", x], ["type", y]]]])]
    else:
        nodes = [ident([x], [x], [["type", x]]), ident([y], [y], [["type", y]])]
        if rng.random() < 0.5:
            nodes.append(ident([x], [x], [["type", x]]))
    if place == "siblings-whole":
        return {**base, "kind": "whole", "body": {"nodes": nodes}}
    if place == "nested-vs-outer":
        return {**base, "kind": "whole",
                "body": {"nodes": [nodes[0], {"op": "const", "val": ["tuple", [["fn", {"nodes": nodes[1:]}]]]}]}}
    return {**base, "kind": "hugr", "nodes": nodes}


def respell_stream(rng, tier):
    """every place x every unit size 0..3 (wrap and registry drawn), then sampled combinations; thorough: the full
    product place x size x wrap, and generated expressions respelled at random positions"""
    places = RESPELL_TY_PLACES + RESPELL_NODE_PLACES
    if tier == "quick":
        for place in places:
            for n in range(4):
                yield respell_case(place, n, rng.choice(RESPELL_WRAPS), rng.choice(["complete", "complete", "ops-only"]), rng)
        for _ in range(30):
            yield respell_case(rng.choice(places), rng.choice([1, 2, 2, 3]), rng.choice(RESPELL_WRAPS),
                               rng.choice(["complete", "ops-only", "empty"]), rng, via=rng.choice(["loaded", "loaded", "built"]))
    else:
        for place in places:
            for n in range(4):
                for wrap in RESPELL_WRAPS:
                    yield respell_case(place, n, wrap, rng.choice(["complete", "complete", "ops-only", "empty"]), rng,
                                       via=rng.choice(["loaded", "loaded", "built"]))
    # generated expressions with unit sums respelled at random positions, as input / output rows
    for _ in range(25 if tier == "quick" else 500):
        universe = rand_universe(rng)
        g = Gen(rng, universe, [])
        reg = [json.loads(json.dumps(e)) for e in universe] if rng.random() < 0.8 else cut_registry(rng, universe, [])[0]
        row = []
        for _ in range(rng.randint(1, 2)):
            u = ["unit", rng.choice([0, 1, 2, 2, 3])]
            row.append(rng.choice([lambda: u, lambda: ["sum", [[g.ty(1), u], [u]]], lambda: ["tuple", [u, g.ty(1)]],
                                   lambda: ["func", [u], [g.ty(0)], []],
                                   lambda: ["opaque", "nowhere", "U", [["type", u], ["seq", [["type", u]]]], "C"]])())
        row2 = [respell(t, rng, force=(i == 0)) for i, t in enumerate(row)]
        if rng.random() < 0.5:
            row, row2 = row2, row
        ft = ["func", row, row2, rng.sample(GEN_EXTS, rng.randint(0, 1))]
        r = rng.random()
        if r < 0.4:
            yield {"kind": "ty", "via": "loaded", "reg": reg, "mode": "respell", "respell": "generated", "t": ft}
        elif r < 0.5:
            yield {"kind": "arg", "via": "loaded", "reg": reg, "mode": "respell", "respell": "generated",
                   "a": ["seq", [["type", ft], ["nat", 1]]]}
        else:
            ops_ = [(e["name"], d["name"]) for e in reg if "std" not in e for d in e["ops"]]
            if not ops_:
                reg = reg + [{"name": "ext.ops", "types": [], "ops": [{"name": "Id", "descr": "identity", "sig": "poly"}]}]
                ops_ = [("ext.ops", "Id")]
            e, n = rng.choice(ops_)
            node = {"op": "custom", "ext": e, "name": n, "descr": rng.choice(["", "orig"]),
                    "sig": {"in": row, "out": row2, "reqs": []}, "args": [["type", ft]] if rng.random() < 0.4 else []}
            yield {"kind": "hugr", "via": "loaded", "reg": reg, "mode": "respell", "respell": "generated", "nodes": [node]}


# ------------------------------------------------------------------------------------------------ whole HUGRs
# Second pass: `Hugr.resolve_extensions` observed on the whole HUGR (harness/hobs.py dump: root, node table with holes,
# parent / children / metadata / port counts, links), with the HUGRs of function-valued constants dumped recursively,
# the `to_json` document parsed into the same nested shape, and `Hugr.port_type` of every out port.
VERIF_OPS = ["drop", "alloc", "make", "lin1", "lin2", "measure", "f0", "f1", "f2", "f3", "g0", "g1", "g2", "g3", "g4", "mut.op"]


def verif_ext(ops, types=("lin", "cop")):
    """the extension harness/progs.py takes its opaque operations and types from, as a registry spec"""
    tds = [{"name": "lin", "descr": "linear", "params": [], "bound": ["E", "A"]},
           {"name": "cop", "descr": "", "params": [["nat", None]], "bound": ["E", "C"]}]
    return {"name": "verif.ext", "types": [t for t in tds if t["name"] in types],
            "ops": [{"name": n, "descr": "defined " + n, "sig": "plain"} for n in ops]}


def build_val(v, reg):
    from hugr import tys, val
    k = v[0]
    if k == "fn":
        return val.Function(build_body(v[1], reg))
    if k == "tuple":
        return val.Tuple(*[build_val(x, reg) for x in v[1]])
    if k == "some":
        return val.Some(*[build_val(x, reg) for x in v[1]])
    if k == "left":
        return val.Left([build_val(x, reg) for x in v[1]], [tys.Bool])
    if k == "int":
        from hugr.std.int import IntVal
        return IntVal(v[1], 5)
    if k == "true":
        return val.TRUE
    raise AssertionError(v)


def build_body(body, reg):
    """a Dfg holding the nodes of the spec in order: custom / std operations (chained by value links where both ends
    have a port, and by order links), constants (function values hold a body of their own), metadata"""
    from hugr import ops
    from hugr.build.dfg import Dfg
    from hugr.hugr.node_port import InPort, OutPort
    d = Dfg()
    h = d.hugr
    made = []
    for n in body["nodes"]:
        if n["op"] == "custom":
            f = n["sig"]
            op = ops.Custom(op_name=n["name"], extension=n["ext"], description=n["descr"],
                            signature=build_ty(["func", f["in"], f["out"], f["reqs"]], reg),
                            args=[build_arg(a, reg) for a in n["args"]])
            node = h.add_node(op, d.parent_node, len(f["out"]) + n.get("extra_outs", 0))
            io = (len(f["in"]), len(f["out"]))
        elif n["op"] == "std":
            node = h.add_node(build_std_op(n["which"], reg, build_ty(n["ty"], reg)), d.parent_node, 1)
            io = (1, 1)
        else:
            node = h.add_const(build_val(n["val"], reg), d.parent_node)
            io = None
        if n.get("md"):
            h[node].metadata.update(n["md"])
        made.append((node, io))
    flow = [(node, io) for node, io in made if io is not None]
    for (a, ia), (b, ib) in zip(flow, flow[1:]):
        if ia[1] > 0 and ib[0] > 0:
            h.add_link(OutPort(a, 0), InPort(b, 0))
        if body.get("order", True):
            h.add_order_link(a, b)
    d.set_outputs()
    return h


def build_whole(case, reg):
    from hugr.hugr import Hugr
    from hugr import ops, tys
    if "seed" in case:
        import progs
        prog = progs.gen_program(random.Random(case["seed"]), size=case.get("size", 4))
        h = progs.run(prog).hugr
    else:
        h = build_body(case["body"], reg)
    h = Hugr.load_json(h.to_json())
    for k in case.get("holes", []):
        cand = [n for n in h if n != h.root and not h.children(n)]
        if cand:
            h.delete_node(cand[k % len(cand)])
    for _ in range(case.get("refill", 0)):          # index reuse: a fresh opaque operation in a freed slot
        h.add_node(ops.Custom("f0", tys.FunctionType([tys.Qubit], [tys.Qubit]), "refilled", "verif.ext"), h.root, 1)
    return h


def resolved_hugr(h, ret):
    """the HUGR to look at after `ret = h.resolve_extensions(registry)`: the returned HUGR when one is returned (today: h
    itself), else h (resolved in place)"""
    from hugr.hugr import Hugr
    return ret if isinstance(ret, Hugr) else h


def other_json(op):
    from hugr.hugr.node_port import Node
    s = op._to_serial(Node(0)).model_dump(mode="json")
    s.pop("parent", None)
    return json.dumps(s, sort_keys=True)


def print_cval(v):
    from hugr import val
    if isinstance(v, val.Function):
        return ["fn", dump_whole(v.body)]
    if isinstance(v, val.Tuple):
        return ["sum", json.dumps({"v": "Tuple"}), [print_cval(x) for x in v.vals]]
    if isinstance(v, val.Sum):
        key = {"v": "Sum", "tag": v.tag, "typ": json.loads(v.typ._to_serial().model_dump_json())}
        return ["sum", json.dumps(key, sort_keys=True), [print_cval(x) for x in v.vals]]
    return ["leaf", json.dumps(v._to_serial().model_dump(mode="json"), sort_keys=True)]


def out_types(h, n):
    from hugr.hugr.node_port import OutPort
    out = []
    nout = h.num_out_ports(n)
    for k in range(nout if isinstance(nout, int) and 0 <= nout < 4000 else 0):
        t = guard(lambda k=k: h.port_type(OutPort(n, k)))
        out.append(None if t is None or raised(t) else print_ty(t))
    return out


def print_custom_or_ext(op):
    """an opaque operation / a definition-backed operation through the public accessors (op_def, type_args,
    outer_signature), or None for any other operation (also for a definition-backed operation without a signature or
    over types the printers do not know)"""
    from hugr import ops
    if isinstance(op, ops.Custom):
        return ["custom", {"ext": op.extension, "name": op.op_name, "sig": print_ft(op.signature),
                           "descr": op.description, "args": [print_arg(a) for a in op.args]}]
    if isinstance(op, ops.ExtOp):
        try:
            if op.cached_signature() is None:       # only operations carrying their own signature are modelled
                return None
            return ["extop", {"def": print_opdef(op.op_def()), "sig": print_ft(op.outer_signature()),
                              "args": [print_arg(a) for a in op.type_args()], "descr": extop_descr(op)}]
        except Unprintable:
            return None
    return None


def num_dataflow_ports(op, direction):
    """the offset an operation's order port is serialised with (what the model's hop_ndp mirrors): hugr-py's own helper
    when it is there, else the same count from the public classes"""
    from hugr import ops
    from hugr.hugr.node_port import Direction
    f = getattr(ops, "_num_dataflow_ports", None)
    if f is not None:
        return f(op, direction)
    try:
        if isinstance(op, ops.Call):
            sig, static = op.instantiation, 1
        elif isinstance(op, (ops.LoadConst, ops.LoadFunc)):
            sig, static = op.outer_signature(), 1
        elif isinstance(op, ops.Tag) and not 0 <= op.tag < len(op.sum_ty.variant_rows):
            return None
        elif isinstance(op, ops.DataflowOp):
            sig, static = op.outer_signature(), 0
        else:
            return None
    except ops.IncompleteOp:
        return None
    return len(sig.input) + static if direction == Direction.INCOMING else len(sig.output)


def print_hop(h, n):
    from hugr import ops
    from hugr.hugr.node_port import Direction
    op = h[n].op
    x = print_custom_or_ext(op)
    if x is not None:
        return ["op", x]
    if isinstance(op, ops.Const):
        return ["const", print_cval(op.val)]
    ndp = [guard(lambda d=d: num_dataflow_ports(op, d)) for d in (Direction.INCOMING, Direction.OUTGOING)]
    return ["other", other_json(op), [None if raised(x) else x for x in ndp], out_types(h, n)]


def dump_whole(h):
    import hobs
    d = hobs.dump(h, with_ops=False)
    for nd, n in zip(d["nodes"], list(h)):
        assert nd["idx"] == n.idx
        nd["hop"] = print_hop(h, n)
        for key in ("nin", "nout"):      # a recorded port count that is no count at all: a sentinel no model produces
            if not (isinstance(nd[key], int) and not isinstance(nd[key], bool) and 0 <= nd[key] < 4000):
                nd[key] = 4999
        del nd["op"], nd["kind"], nd["name"]
    del d["order_out"], d["order_in"]          # the order links are part of links() with offset -1
    return d


def parse_sval(v):
    k = v["v"]
    if k == "Function":
        return ["fn", parse_doc(v["hugr"])]
    if k in ("Tuple", "Sum"):
        key = {x: y for x, y in v.items() if x != "vs"}
        return ["sum", json.dumps(key, sort_keys=True), [parse_sval(x) for x in v["vs"]]]
    return ["leaf", json.dumps(v, sort_keys=True)]


def parse_sop(n):
    s = {k: v for k, v in n.items() if k != "parent"}
    if s["op"] == "Extension":
        if set(s) != {"op", "extension", "name", "signature", "description", "args"}:
            raise Unprintable(repr(s))
        f = s["signature"]
        return ["op", ["custom", {"ext": s["extension"], "name": s["name"], "descr": s["description"],
                                  "sig": {"in": [ser_ty(x) for x in f["input"]], "out": [ser_ty(x) for x in f["output"]],
                                          "reqs": list(f["runtime_reqs"])},
                                  "args": [ser_arg(a) for a in s["args"]]}]]
    if s["op"] == "Const":
        if set(s) != {"op", "v"}:
            raise Unprintable(repr(s))
        return ["const", parse_sval(s["v"])]
    return ["other", json.dumps(s, sort_keys=True)]


def parse_doc(doc):
    """a serialised HUGR (parsed JSON) as nodes [(serial operation, parent)], edges, metadata; header fields dropped"""
    if not set(doc) <= {"version", "encoder", "nodes", "edges", "metadata"}:
        raise Unprintable(repr(sorted(doc)))
    return {"nodes": [[parse_sop(n), n["parent"]] for n in doc["nodes"]],
            "edges": [[list(a), list(b)] for a, b in doc["edges"]], "metadata": doc.get("metadata")}


def whole_pts(h):
    return [out_types(h, n) for n in h]


def hop_walk(d, f, depth=0):
    """f(hop tree, nesting depth) for every node operation of a dump, function bodies included"""
    def val(v, depth):
        if v[0] == "fn":
            hop_walk(v[1], f, depth + 1)
        elif v[0] == "sum":
            for x in v[2]:
                val(x, depth)
    for n in d["nodes"]:
        f(n["hop"], depth)
        if n["hop"][0] == "const":
            val(n["hop"][1], depth)


def gen_body(rng, g, depth, fn_prob=0.35):
    nodes = []
    for _ in range(rng.randint(1, 4)):
        r = rng.random()
        if r < 0.55:
            n = g.custom(rng.choice([0, 1, 1, 2]))
            if rng.random() < 0.15:
                n["extra_outs"] = 1
        elif r < 0.7:
            n = {"op": "std", "which": rng.choice(STD_OPS), "ty": g.ty(1)}
        else:
            n = {"op": "const", "val": gen_val(rng, g, depth, fn_prob)}
        if rng.random() < 0.25:
            n["md"] = rng.choice([{"k": 1}, {"name": "x", "n": [1, {"a": None}]}, {"": ""}])
        nodes.append(n)
    return {"nodes": nodes, "order": rng.random() < 0.7}


def gen_val(rng, g, depth, fn_prob):
    r = rng.random()
    if depth > 0 and r < fn_prob:
        return ["fn", gen_body(rng, g, depth - 1, fn_prob)]
    if depth > 0 and r < fn_prob + 0.35:
        return [rng.choice(["tuple", "some", "left"]), [gen_val(rng, g, depth - (rng.random() < 0.5), fn_prob + 0.2)
                                                         for _ in range(rng.randint(1, 2))]]
    return rng.choice([["int", rng.randint(0, 9)], ["true"]])


def whole_body_case(rng, allstd):
    universe = rand_universe(rng)
    std_names = rng.sample(allstd, rng.choice([0, 1, 2]))
    g = Gen(rng, universe, std_names)
    reg, mode = cut_registry(rng, universe, std_names)
    body = gen_body(rng, g, 2)
    if rng.random() < 0.6 and not any(n["op"] == "const" and '"fn"' in json.dumps(n["val"]) for n in body["nodes"]):
        body["nodes"].insert(rng.randrange(len(body["nodes"]) + 1),
                             {"op": "const", "val": rng.choice([lambda b: ["fn", b], lambda b: ["tuple", [["true"], ["fn", b]]],
                                                                lambda b: ["some", [["left", [["fn", b]]]]]])(gen_body(rng, g, 1))})
    c = {"kind": "whole", "via": "loaded", "reg": reg, "mode": mode, "body": body}
    if rng.random() < 0.4:
        c["holes"] = [rng.randrange(50) for _ in range(rng.randint(1, 3))]
        if rng.random() < 0.4:
            c["refill"] = 1
    return c


def whole_prog_case(rng, allstd, seed):
    import progs
    r = rng.random()
    ops = rng.sample(VERIF_OPS, rng.randint(0, len(VERIF_OPS)))
    if r < 0.3:
        reg, mode = [{"std": s} for s in allstd] + [verif_ext(VERIF_OPS)], "complete"
    elif r < 0.4:
        reg, mode = [], "empty"
    elif r < 0.55:
        reg, mode = [{"std": s} for s in allstd], "std-only"
    elif r < 0.7:
        reg, mode = [verif_ext(ops, rng.choice([("lin", "cop"), ("lin",), ()]))], "drop-ext"
    else:
        reg = [{"std": s} for s in allstd if rng.random() < 0.7] + [verif_ext(ops, rng.choice([("lin", "cop"), ("cop",)]))]
        rng.shuffle(reg)
        mode = "mixed"
    c = {"kind": "whole", "via": "loaded", "reg": reg, "mode": mode, "seed": seed, "size": 4}
    if rng.random() < 0.35:
        c["holes"] = [rng.randrange(50) for _ in range(rng.randint(1, 3))]
        if rng.random() < 0.4:
            c["refill"] = 1
    return c


def whole_stream(rng, tier):
    import progs
    allstd = sorted(std_exts())
    nb, npg = (70, 50) if tier == "quick" else (900, 500)
    for _ in range(nb):
        yield whole_body_case(rng, allstd)
    made, seed = 0, rng.randrange(10 ** 6)
    while made < npg:
        seed += 1
        try:
            h = progs.run(progs.gen_program(random.Random(seed), size=4)).hugr
        except Exception:  # noqa: BLE001  (the generator occasionally emits a program its interpreter cannot run)
            continue
        n = len(list(h))
        if n > (45 if tier == "quick" else 90) or (n < 6 and rng.random() < 0.8):
            continue
        yield whole_prog_case(rng, allstd, seed)
        made += 1


def whole_pairs(obs):
    """(operation before, operation after, function-value nesting depth) for every node, function bodies included;
    [] when the two dumps do not have the same shape"""
    l0, l1 = [], []
    hop_walk(obs["h0"], lambda o, d: l0.append((o, d)))
    hop_walk(obs["h1"], lambda o, d: l1.append((o, d)))
    if len(l0) != len(l1):
        return []
    return [(a, b, d) for (a, d), (b, _) in zip(l0, l1)]


def whole_skeleton(d):
    """a dump with its Custom / ExtOp operations blanked, function bodies included"""
    def val(v):
        if v[0] == "fn":
            return ["fn", whole_skeleton(v[1])]
        if v[0] == "sum":
            return ["sum", v[1], [val(x) for x in v[2]]]
        return v

    def hop(o):
        if o[0] == "op":
            return ["op"]
        if o[0] == "const":
            return ["const", val(o[1])]
        return o
    return {**d, "nodes": [{**n, "hop": hop(n["hop"])} for n in d["nodes"]]}


def smaller_vals(v):
    if v[0] == "fn":
        for b in smaller_bodies(v[1]):
            yield ["fn", b]
    elif v[0] in ("tuple", "some", "left"):
        for i, x in enumerate(v[1]):
            yield x
            if len(v[1]) > 1:
                yield [v[0], v[1][:i] + v[1][i + 1:]]
            for y in smaller_vals(x):
                yield [v[0], v[1][:i] + [y] + v[1][i + 1:]]


def smaller_bodies(b):
    ns = b["nodes"]
    for i in range(len(ns)):
        if len(ns) > 1:
            yield {**b, "nodes": ns[:i] + ns[i + 1:]}
    if b.get("order", True):
        yield {**b, "order": False}
    for i, n in enumerate(ns):
        if n.get("md"):
            yield {**b, "nodes": ns[:i] + [{k: v for k, v in n.items() if k != "md"}] + ns[i + 1:]}
        if n.get("extra_outs"):
            yield {**b, "nodes": ns[:i] + [{k: v for k, v in n.items() if k != "extra_outs"}] + ns[i + 1:]}
        if n["op"] == "const":
            for v in smaller_vals(n["val"]):
                yield {**b, "nodes": ns[:i] + [{**n, "val": v}] + ns[i + 1:]}
        elif n["op"] == "custom":
            f = n["sig"]
            for pos in ("in", "out"):
                for j in range(len(f[pos])):
                    yield {**b, "nodes": ns[:i] + [{**n, "sig": {**f, pos: f[pos][:j] + f[pos][j + 1:]}}] + ns[i + 1:]}
            for j in range(len(n["args"])):
                yield {**b, "nodes": ns[:i] + [{**n, "args": n["args"][:j] + n["args"][j + 1:]}] + ns[i + 1:]}


# ------------------------------------------------------------------------------------------------ the property
def nest_depth(t):
    if isinstance(t, list):
        return (1 if t and t[0] in ("opaque", "extty", "ext") else 0) + max([nest_depth(x) for x in t] + [0])
    if isinstance(t, dict):
        return max([nest_depth(x) for x in t.values()] + [0])
    return 0


def subtrees(t):
    """immediate sub-expressions of a type tree that are type trees"""
    k = t[0]
    out = []
    if k == "sum":
        out = [x for row in t[1] for x in row]
    elif k == "tuple":
        out = list(t[1])
    elif k == "func":
        out = t[1] + t[2]
    elif k == "poly":
        out = t[2] + t[3]
    elif k in ("opaque", "ext"):
        def args(l):
            r = []
            for a in l:
                if a[0] == "type":
                    r.append(a[1])
                elif a[0] == "seq":
                    r += args(a[1])
            return r
        out = args(t[3])
    return out


def smaller_trees(t):
    """variants of a type tree with one part removed or replaced by a leaf"""
    k = t[0]
    for s in subtrees(t):
        yield s
    if k == "sum":
        for i in range(len(t[1])):
            yield ["sum", t[1][:i] + t[1][i + 1:]]
            for j in range(len(t[1][i])):
                yield ["sum", t[1][:i] + [t[1][i][:j] + t[1][i][j + 1:]] + t[1][i + 1:]]
                for s in smaller_trees(t[1][i][j]):
                    yield ["sum", t[1][:i] + [t[1][i][:j] + [s] + t[1][i][j + 1:]] + t[1][i + 1:]]
    elif k in ("func",):
        for pos in (1, 2):
            for j in range(len(t[pos])):
                u = list(t)
                u[pos] = t[pos][:j] + t[pos][j + 1:]
                yield u
                for s in smaller_trees(t[pos][j]):
                    u = list(t)
                    u[pos] = t[pos][:j] + [s] + t[pos][j + 1:]
                    yield u
    elif k == "opaque":
        for j in range(len(t[3])):
            for a in smaller_args(t[3][j]):
                yield ["opaque", t[1], t[2], t[3][:j] + [a] + t[3][j + 1:], t[4]]


def smaller_args(a):
    if a[0] == "type":
        yield ["type", ["unit", 2]]
        for s in smaller_trees(a[1]):
            yield ["type", s]
    elif a[0] == "seq":
        for j in range(len(a[1])):
            yield ["seq", a[1][:j] + a[1][j + 1:]]
            for s in smaller_args(a[1][j]):
                yield ["seq", a[1][:j] + [s] + a[1][j + 1:]]


# ------------------------------------------------------------------------------------------------ registries with a history
# observe - change - observe on one registry object (seeded C11-j: a cache of failed lookups that outlives
# `Extension.add_type_def`).  Any expression of the other streams, its registry brought to its final contents in stages
# with the same expression resolved in between (build_registry_hist).
def rand_hist(rng, spec):
    K = rng.choice([2, 2, 2, 3])
    h = {"k": K, "ext": {}, "types": {}, "ops": {}, "old": []}
    for e in spec:
        nm = e["std"] if "std" in e else e["name"]
        h["ext"][nm] = rng.choice([0, 0, 0] + list(range(K)))          # mostly registered from the start
        if "std" in e:
            continue
        for key, tag in (("types", "t:"), ("ops", "o:")):
            for d in e.get(key, []):
                b = rng.randrange(K)
                h[key][nm + "/" + d["name"]] = b
                if b > 0 and rng.random() < 0.25:
                    h["old"].append(tag + nm + "/" + d["name"])
    r = rng.random()
    if r < 0.12:
        h["pre"] = "full"
    elif r < 0.2:
        h["pre"] = "empty"
    return h


def hist_in_place(case):
    """(extension, name, "types" | "ops", redefined) of the definitions added in place to a registered extension"""
    h = case["hist"]
    K = min(max(int(h.get("k", 2)), 1), 4)
    out = []
    for e in case["reg"]:
        if "std" in e:
            continue
        be = min(max(int(h.get("ext", {}).get(e["name"], 0)), 0), K - 1)
        for key, tag in (("types", "t:"), ("ops", "o:")):
            for d in e.get(key, []):
                k2 = e["name"] + "/" + d["name"]
                if min(max(int(h.get(key, {}).get(k2, 0)), 0), K - 1) > be:
                    out.append((e["name"], d["name"], key, tag + k2 in h.get("old", [])))
    return out


def hist_sweep():
    """one late item at a time, under every kind of expression"""
    ext_a = {"name": "ext.a", "types": [{"name": "T", "descr": "", "params": [], "bound": ["E", "C"]},
                                         {"name": "List", "descr": "", "params": [["type", "A"]], "bound": ["P", [0]]}],
             "ops": [{"name": "Op", "descr": "a definition", "sig": "plain"}]}
    ext_ops = {"name": "ext.ops", "types": [], "ops": [{"name": "Id", "descr": "identity", "sig": "poly"}]}
    t_in = ["opaque", "ext.a", "T", [], "C"]
    lst = ["opaque", "ext.a", "List", [["type", t_in]], "C"]
    nodes = [{"op": "custom", "ext": "ext.a", "name": "Op", "descr": "orig",
              "sig": {"in": [t_in], "out": [lst], "reqs": []}, "args": []},
             {"op": "custom", "ext": "ext.ops", "name": "Id", "descr": "identity",
              "sig": {"in": [t_in], "out": [t_in], "reqs": ["ext.ops"]}, "args": [["type", t_in]]}]
    exprs = [{"kind": "ty", "t": ["sum", [[t_in], [["func", [lst], [], []]]]]},
             {"kind": "arg", "a": ["seq", [["type", t_in], ["seq", [["type", lst]]]]]},
             {"kind": "hugr", "nodes": nodes},
             {"kind": "whole", "body": {"nodes": nodes}}]
    hists = [("type-in-place", {"k": 2, "types": {"ext.a/T": 1}}),
             ("op-in-place", {"k": 2, "ops": {"ext.a/Op": 1, "ext.ops/Id": 1}}),
             ("extension-late", {"k": 2, "ext": {"ext.a": 1}}),
             ("all-in-place", {"k": 2, "types": {"ext.a/T": 1, "ext.a/List": 1}, "ops": {"ext.a/Op": 1, "ext.ops/Id": 1}}),
             ("type-redefined", {"k": 2, "types": {"ext.a/T": 1}, "old": ["t:ext.a/T"]}),
             ("op-redefined", {"k": 2, "ops": {"ext.a/Op": 1}, "old": ["o:ext.a/Op"]}),
             ("other-registry-full", {"k": 1, "pre": "full"}),
             ("other-registry-empty", {"k": 1, "pre": "empty"}),
             ("three-stages", {"k": 3, "ext": {"ext.a": 1}, "types": {"ext.a/T": 2}, "ops": {"ext.a/Op": 2}})]
    for x in exprs:
        for name, h in hists:
            yield {**x, "via": "loaded", "reg": [ext_a, ext_ops], "mode": "hist-sweep:" + name, "hist": h}


def history_stream(rng, tier):
    allstd = sorted(std_exts())
    for c in hist_sweep():
        yield c
    for _ in range(150 if tier == "quick" else 1800):
        r = rng.random()
        if r < 0.5:
            universe = rand_universe(rng)
            std_names = rng.sample(allstd, rng.choice([0, 0, 1, 2]))
            g = Gen(rng, universe, std_names)
            if rng.random() < 0.6:
                reg = [json.loads(json.dumps(e)) for e in universe]
                reg += [{"std": n} for n in std_names if n not in {e["name"] for e in reg}]
                rng.shuffle(reg)
                mode = "complete"
            else:
                reg, mode = cut_registry(rng, universe, std_names)
            rr = rng.random()
            if rr < 0.4:
                c = {"kind": "ty", "t": g.ty(rng.choice([1, 2, 2, 3]))}
            elif rr < 0.5:
                c = {"kind": "arg", "a": g.arg(2)}
            elif rr < 0.85:
                c = {"kind": "hugr", "nodes": [g.custom(rng.choice([0, 1, 2])) for _ in range(rng.randint(1, 3))]}
            else:
                c = {"kind": "whole", "body": gen_body(rng, g, 2)}
            c.update({"via": "loaded", "reg": reg, "mode": mode})
        elif r < 0.75:
            sort = rng.choice(["ty", "arg"])
            p = rand_path(rng, sort, rng.choice([1, 2, 3, 4]))
            where = rng.choice(["bare", "bare", "op-arg" if sort == "arg" else "op-sig"])
            c = path_case(sort, p, where, rng.choice(["complete", "complete", "complete", "leaf-only", "boxes-only"]), rng)
        elif r < 0.9:
            c = sibling_case(rng, allstd)
        else:
            c = whole_body_case(rng, allstd)
        c["hist"] = rand_hist(rng, c["reg"])
        yield c


class C11(fw.Prop):
    id = "C11"
    props_file = "props/C11.v"
    run_file = "run/C11Run.v"
    run_module = "run.C11Run"
    shard = 150
    rule = ("type expressions, type arguments and small HUGRs (custom operations with generated signatures and "
            "arguments, std operations serialised and reloaded as opaque operations, non-custom nodes) over a universe "
            "of generated extensions (explicit and from-params bounds, 0-3 parameters of every kind) and the std "
            "extensions; registries cut from the universe: empty, complete, extension missing, definition missing, "
            "definition filed under another extension, std only, mixed; opaque types nested inside sums, tuples, "
            "function types, type arguments, sequence arguments and arguments of (resolvable and unresolvable) opaque "
            "types; a deterministic sweep over every type and operation definition of every std extension; an edge "
            "stream with inconsistent recorded bounds, wrong argument counts, directly built definition-backed types "
            "and polymorphic function types; a sibling stream: HUGRs of 2-4 custom nodes that are one-point variations of "
            "one base node (same operation, differing in the extension of one or all same-named opaque types in "
            "signature / type arguments, in the description, or in one component at any depth, plus exact duplicates) "
            "over twin extensions defining the same type names, with registries knowing exactly one twin, both, "
            "neither, or a twin without its types; a path stream: every chain of containers (sum, tuple, function type "
            "input / output, argument of a resolvable / unresolvable opaque type, type argument, sequence argument, in "
            "every order, so also a sequence directly inside a sequence) of length <= 3 (thorough: <= 5) down to a "
            "resolvable opaque type, as a bare type / type argument and as signature / type argument of a custom node of a "
            "loaded HUGR, plus sampled chains of length <= 7 with padded containers against complete / containers-missing "
            "/ leaf-missing / empty registries; a whole-HUGR stream (second pass): HUGRs loaded from JSON, observed through "
            "the public-API dump before / after / after a second resolve_extensions together with the parsed to_json "
            "documents and Hugr.port_type of every out port - generated bodies (1-4 custom / std / constant nodes chained by "
            "value and order links, metadata, nodes with more out ports than their signature, constants holding function "
            "values directly or inside tuple / option / sum values with bodies of their own to depth 2, registries cut from "
            "the universe) and HUGRs of random builder programs of harness/progs.py (hierarchy, control flow, calls, order "
            "edges, function-valued constants; std and verif.ext registries: complete, empty, std only, partial), both "
            "with holes in the node table (delete_node) and reused indices, plus 60 (thorough 900) of the small HUGRs of the "
            "older streams rebuilt as whole HUGRs; a respell stream: a unit sum spelled "
            "compactly and as a general sum of empty rows (equal under ==, different on the wire), sizes 0-3, under every "
            "container, placed at every pair of positions a result-sharing implementation would merge (function-type "
            "input/output, two inputs, sum variants, row elements, arguments of an opaque type, sequence elements, "
            "signature vs type arguments, sibling nodes, nested body vs outer HUGR); a registry-history stream: "
            "expressions of the other streams (random types / type arguments / small and whole HUGRs, container chains, "
            "sibling nodes) against ONE registry object brought to its final contents in 2-3 stages - extensions "
            "registered late (add_extension), type and operation definitions added in place to an already registered "
            "extension (Extension.add_type_def / add_op_def), optionally replacing an older definition of the same name, "
            "optionally after a resolution against another registry object (complete / empty) - with the same expression "
            "resolved after every stage; the observation reported is the one against the final state, compared with the "
            "model and the specification evaluated on the final registry; a deterministic sweep (one late item at a time x "
            "type / type argument / small HUGR / whole HUGR) comes first.  non-trivial = resolution changed "
            "the object and at least one opaque type or operation stayed opaque, or opaque types are nested at depth >= 2, "
            "or the case is a chain of >= 2 containers; for a whole HUGR: a node's operation changed and (a custom operation "
            "of a node stayed opaque, or a function value holds an opaque operation the registry defines - which must "
            "be left alone)")
    trusted = ["printers of harness/props/c11.py: hugr objects / pydantic dumps / hugr.model dataclass trees -> Gallina "
               "literals; model symbols are split into (extension, id) against the pairs occurring in the case",
               "hugr.model string/bytes forms need the absent native module: model export is compared as dataclass trees",
               "type expressions pass through hugr._serialization.tys (model_dump_json / model_validate_json), HUGRs "
               "through Hugr.to_json / Hugr.load_json",
               "whole HUGRs: harness/hobs.py dump plus the printers dump_whole / print_hop / print_cval / parse_doc "
               "(operations other than Custom / ExtOp / Const are interned by their serial JSON; their dataflow port "
               "counts are read from hugr.ops._num_dataflow_ports, the function the model's hop_ndp mirrors, or counted "
               "from the public operation classes when that helper is absent; the values "
               "of constants are walked through the public attributes val.Function.body / val.Sum.vals)",
               "the description of a definition-backed operation (x_descr) is the `description` field of its serialised "
               "form; the model's oracle (does a resolved operation keep the loaded description or take its "
               "definition's) is read off that observation in run/C11Run.v (chose_keep)"]
    assumptions = ["registries are well formed (RegWF): dictionaries keyed by the objects' own names, every definition "
                   "attached to the extension it is filed in, extension names non-empty",
                   "Consistent: the bound recorded in an opaque type is the one its definition computes (needed for the "
                   "serial-form and bound clauses only)",
                   "every-depth clause: the expression holds no directly built definition-backed type (true of everything "
                   "loaded from serialised form)"]

    # ---- cases
    def corpus(self, ctx):
        ext_a = {"name": "ext.a", "types": [{"name": "T", "descr": "", "params": [], "bound": ["E", "C"]},
                                             {"name": "List", "descr": "", "params": [["type", "A"]], "bound": ["P", [0]]}],
                 "ops": [{"name": "Op", "descr": "a definition", "sig": "plain"}]}
        t_in = ["opaque", "ext.a", "T", [], "C"]
        t_other = ["opaque", "ext.b", "T", [], "C"]
        ext_ops = {"name": "ext.ops", "types": [], "ops": [{"name": "Id", "descr": "identity", "sig": "poly"}]}

        def ident(t):
            return {"op": "custom", "ext": "ext.ops", "name": "Id", "descr": "identity",
                    "sig": {"in": [t], "out": [t], "reqs": ["ext.ops"]}, "args": [["type", t]]}
        op_a = {"op": "custom", "ext": "ext.a", "name": "Op", "descr": "orig",
                "sig": {"in": [t_in], "out": [t_in], "reqs": []}, "args": []}
        inner = {"nodes": [op_a]}
        return [
            # D15: argument of an unresolvable opaque type stays unresolved
            {"kind": "ty", "via": "loaded", "reg": [ext_a], "t": ["opaque", "nowhere", "U", [["type", t_in]], "C"]},
            # D15: argument of a resolvable opaque type is passed through unresolved
            {"kind": "ty", "via": "loaded", "reg": [ext_a], "t": ["opaque", "ext.a", "List", [["type", t_in]], "C"]},
            {"kind": "arg", "via": "loaded", "reg": [ext_a], "a": ["seq", [["type", ["opaque", "ext.a", "List", [["type", t_in]], "C"]]]]},
            # D16: model export name of an opaque type lacks the extension
            {"kind": "ty", "via": "loaded", "reg": [ext_a], "t": t_in},
            {"kind": "ty", "via": "loaded", "reg": [{"std": "arithmetic.int.types"}],
             "t": ["sum", [[["opaque", "arithmetic.int.types", "int", [["nat", 5]], "C"]]]]},
            # D17: description emptied by to_custom_op
            {"kind": "hugr", "via": "built", "reg": [ext_a],
             "nodes": [{"op": "custom", "ext": "ext.a", "name": "Op", "descr": "orig",
                        "sig": {"in": [["qubit"]], "out": [["qubit"]], "reqs": []}, "args": []}]},
            {"kind": "hugr", "via": "loaded", "reg": [ext_a],
             "nodes": [{"op": "custom", "ext": "ext.a", "name": "Op", "descr": "orig",
                        "sig": {"in": [t_in], "out": [["opaque", "nowhere", "U", [["type", t_in]], "A"]], "reqs": ["ext.a"]},
                        "args": [["type", t_in]]},
                       {"op": "std", "which": "dfg", "ty": t_in}]},
            # seeded C11-b (resolution of one node leaking into another): the same operation applied to same-named
            # opaque types of two extensions, registry knows the operation and only one of the two extensions
            {"kind": "hugr", "via": "loaded", "reg": [ext_a, ext_ops], "nodes": [ident(t_in), ident(t_other)]},
            {"kind": "hugr", "via": "loaded", "reg": [ext_a, ext_ops], "nodes": [ident(t_other), ident(t_in), ident(t_in)]},
            # ... and two unresolvable nodes that differ only in their description
            {"kind": "hugr", "via": "loaded", "reg": [ext_a],
             "nodes": [ident(t_in), {**ident(t_in), "descr": "other"}]},
            # seeded C11-c (a container that resolves only some kinds of element): a sequence directly inside a
            # sequence, bare / as argument of an unresolvable opaque type / as type argument of a custom node
            {"kind": "arg", "via": "loaded", "reg": [ext_a], "a": ["seq", [["seq", [["type", t_in]]]]]},
            {"kind": "ty", "via": "loaded", "reg": [ext_a],
             "t": ["opaque", "nowhere", "U", [["seq", [["nat", 3], ["seq", [["type", t_in]]]]]], "A"]},
            {"kind": "hugr", "via": "loaded", "reg": [ext_a, ext_ops],
             "nodes": [{**ident(t_in), "args": [["seq", [["seq", [["type", t_in]]], ["seq", []]]]]}]},
            # function-valued constants are part of the frame: the opaque operations inside the HUGR of a function value
            # (directly in the constant; inside a tuple / option / sum value; a function value inside a function value)
            # are not operations of the HUGR being resolved and must be left exactly as they are, although the
            # registry defines them (hugr-core descends into them; "D30" considered and rejected as out of scope)
            {"kind": "whole", "via": "loaded", "reg": [ext_a], "body": {"nodes": [{"op": "const", "val": ["fn", inner]}]}},
            {"kind": "whole", "via": "loaded", "reg": [ext_a],
             "body": {"nodes": [op_a, {"op": "const", "val": ["tuple", [["true"], ["some", [["fn", inner]]]]]}]}},
            {"kind": "whole", "via": "loaded", "reg": [ext_a, ext_ops],
             "body": {"nodes": [{"op": "const", "val": ["fn", {"nodes": [ident(t_in), {"op": "const", "val": ["left", [["fn", inner]]]}]}]}]}},
            # seeded C11-f (results shared between positions that compare equal): Bool -> Bool with the output spelled
            # as a general sum of two empty rows, bare and as the signature of a defined operation
            {"kind": "ty", "via": "loaded", "reg": [ext_a], "t": ["func", [["unit", 2], t_in], [["sum", [[], []]], t_in], []]},
            {"kind": "hugr", "via": "loaded", "reg": [ext_a],
             "nodes": [{**op_a, "sig": {"in": [["sum", [[], []]]], "out": [["unit", 2]], "reqs": []}}]},
            # the frame: holes in the node table, a reused index, metadata, order links, a node with more out ports
            # than its signature
            {"kind": "whole", "via": "loaded", "reg": [ext_a, ext_ops], "holes": [0, 3], "refill": 1,
             "body": {"nodes": [{**op_a, "md": {"k": 1}}, {"op": "std", "which": "noop", "ty": t_in},
                                {**ident(t_other), "extra_outs": 1}, {"op": "const", "val": ["int", 3]},
                                {**ident(t_in), "md": {"name": "x"}}]}},
            # seeded C11-j (a cache of failed lookups that outlives Extension.add_type_def): one registry object; ext.a
            # registered without T / without Op; the expression resolved; the definition added in place; resolved again
            {"kind": "ty", "via": "loaded", "reg": [ext_a], "t": t_in, "hist": {"k": 2, "types": {"ext.a/T": 1}}},
            {"kind": "hugr", "via": "loaded", "reg": [ext_a], "nodes": [op_a],
             "hist": {"k": 2, "types": {"ext.a/T": 1}, "ops": {"ext.a/Op": 1}}},
            {"kind": "whole", "via": "loaded", "reg": [ext_a, ext_ops], "body": {"nodes": [op_a, ident(t_in)]},
             "hist": {"k": 3, "ext": {"ext.a": 1}, "types": {"ext.a/T": 2}, "ops": {"ext.ops/Id": 1}}},
        ]

    def generate(self, rng, tier, ctx):
        k = 1 if tier == "quick" else 24
        cases = list(self.std_sweep())
        allstd = sorted(std_exts())
        for n in range(330 * k):
            universe = rand_universe(rng)
            std_names = rng.sample(allstd, rng.choice([0, 0, 1, 2, 4]))
            g = Gen(rng, universe, std_names)
            reg, mode = cut_registry(rng, universe, std_names)
            r = rng.random()
            if r < 0.5:
                cases.append({"kind": "ty", "via": "loaded", "reg": reg, "mode": mode, "t": g.ty(rng.choice([1, 2, 2, 3]))})
            elif r < 0.62:
                cases.append({"kind": "arg", "via": "loaded", "reg": reg, "mode": mode,
                              "a": rng.choice([["type", g.ty(2)], ["seq", [g.arg(2) for _ in range(rng.randint(0, 3))]], g.arg(2)])})
            else:
                nodes = []
                for _ in range(rng.randint(1, 4)):
                    if rng.random() < 0.7:
                        nodes.append(g.custom(rng.choice([0, 1, 2])))
                    else:
                        nodes.append({"op": "std", "which": rng.choice(STD_OPS), "ty": g.ty(1)})
                cases.append({"kind": "hugr", "via": rng.choice(["loaded", "loaded", "built"]), "reg": reg, "mode": mode,
                              "nodes": nodes})
        # sibling stream: several near-identical custom nodes in one HUGR, registry partial in what tells them apart
        for n in range(140 * (1 if tier == "quick" else 12)):
            cases.append(sibling_case(rng, allstd))
        # edge stream: inconsistent bounds, definition-backed types built directly, polymorphic function types
        for n in range(70 * k):
            universe = rand_universe(rng)
            std_names = rng.sample(allstd, rng.choice([0, 1, 2]))
            reg, mode = cut_registry(rng, universe, std_names)
            r = rng.random()
            if r < 0.4:
                g = Gen(rng, universe, std_names, consistent=False)
                cases.append({"kind": "ty", "via": "loaded", "reg": reg, "mode": mode, "t": g.ty(2)})
            elif r < 0.6:
                g = Gen(rng, universe, std_names)
                cases.append({"kind": "ty", "via": "loaded", "reg": reg, "mode": mode,
                              "t": ["poly", [rand_param(rng) for _ in range(rng.randint(0, 2))], [g.ty(1)], [g.ty(2)], []]})
            else:
                # directly built ExtType (resolve is the identity on it), needs its definition in the registry used to build
                g = Gen(rng, universe, std_names)
                full = [json.loads(json.dumps(e)) for e in universe]
                tds = [(e["name"], d) for e in full for d in e["types"]]
                if not tds:
                    continue
                e, d = rng.choice(tds)
                inner = ["ext", e, d["name"], [g.arg_for(p, 1) for p in d["params"]]]
                t = rng.choice([inner, ["sum", [[inner, g.ty(1)]]], ["func", [inner], [g.ty(1)], []]])
                cases.append({"kind": "ty", "via": "built", "reg": full, "mode": "complete", "t": t})
        # path stream: every chain of containers down to an opaque type (after the older streams: their draws are unchanged)
        cases += list(path_stream(rng, tier))
        # whole-HUGR stream (second pass), after the older streams
        cases += list(whole_stream(rng, tier))
        # rows equal under `==` but spelled differently on the wire (seeded C11-f)
        cases += list(respell_stream(rng, tier))
        # the small HUGRs of the older streams (std sweep, random, sibling, path) once more as whole HUGRs: the same
        # nodes, chained by value and order links, compared in Coq as dump / document / port types
        small = [c for c in cases if c["kind"] == "hugr" and c["via"] == "loaded"]
        for c in rng.sample(small, min(len(small), 60 if tier == "quick" else 900)):
            twin = {"kind": "whole", "via": "loaded", "reg": c["reg"], "mode": c.get("mode", "twin"), "twin_of": c.get("mode", "?"),
                    "body": {"nodes": c["nodes"], "order": rng.random() < 0.5}}
            if rng.random() < 0.3:
                twin["holes"] = [rng.randrange(50)]
            cases.append(twin)
        # registries with a history (after everything else: the draws of the older streams are unchanged)
        cases += list(history_stream(rng, tier))
        return cases

    def std_sweep(self):
        """every type definition and (up to 12 per extension) operation definition of the std extensions, against the
        complete std registry, the registry without that extension, and the empty registry"""
        allstd = sorted(std_exts())
        rng = random.Random(11)
        for name in allstd:
            x = std_exts()[name]
            g = Gen(rng, [], allstd)
            for regspec in ([{"std": s} for s in allstd], [{"std": s} for s in allstd if s != name], []):
                for tn, d in x.types.items():
                    td = print_typedef(d)
                    args = [g.arg_for(p, 1) for p in td["params"]]
                    b = def_bound(td, args) or "A"
                    o = ["opaque", name, tn, args, b]
                    yield {"kind": "ty", "via": "loaded", "reg": regspec, "mode": "std-sweep",
                           "t": ["sum", [[o], [["func", [o], [], []]]]]}
                nodes = [{"op": "custom", "ext": name, "name": on, "descr": "", "sig": g.ft(1), "args": [g.arg(1)]}
                         for on in list(x.operations)[:12]]
                if nodes:
                    yield {"kind": "hugr", "via": "loaded", "reg": regspec, "mode": "std-sweep", "nodes": nodes}

    # ---- observation
    def observe(self, case, ctx):
        if "hist" in case:
            # one registry object brought to its final contents in stages, the case's expression resolved against it
            # after every stage; what is reported is the observation against the final state (see build_registry_hist)
            plain = {k: v for k, v in case.items() if k != "hist"}

            def warm(r):
                try:
                    self.observe_on(plain, r, ctx)
                except Exception:  # noqa: BLE001  (an intermediate state is not the subject of the case)
                    pass
            reg = build_registry_hist(case["reg"], case["hist"], warm)
        else:
            reg = build_registry(case["reg"])
        return self.observe_on(case, reg, ctx)

    def observe_on(self, case, reg, ctx):
        import hugr._serialization.tys as stys
        from hugr import tys
        out = {"reg": print_registry(reg)}
        k = case["kind"]
        if k in ("ty", "arg"):
            if k == "ty":
                t = build_ty(case["t"], reg)
                if case["via"] == "loaded":
                    if isinstance(t, tys.PolyFuncType):
                        t = stys.PolyFuncType.model_validate_json(t._to_serial().model_dump_json()).deserialize()
                    else:
                        t = stys.Type.model_validate_json(t._to_serial_root().model_dump_json()).deserialize()
                pr, ser = print_ty, ser_ty
            else:
                t = build_arg(case["a"], reg)
                if case["via"] == "loaded":
                    t = stys.TypeArg.model_validate_json(t._to_serial_root().model_dump_json()).deserialize()
                pr, ser = print_arg, ser_arg
            out["input"] = pr(t)
            pairs = sorted(pairs_of(out["input"], set()))
            out["ser0"] = guard(lambda: ser(t._to_serial().model_dump(mode="json")))
            out["mod0"] = guard(lambda: term_tree(t.to_model(), pairs))
            if k == "ty":
                out["b0"] = guard(lambda: bname(t.type_bound()))
            # resolution never raises by its contract; if it does, the case carries a sentinel result that no
            # input is related to, so that the monitor reports the case itself
            sentinel = ["rowvar", 4999, "A"] if k == "ty" else ["var", 4999, ["exts"]]
            r = guard(lambda: t.resolve(reg))
            if raised(r):
                out.update({"res": sentinel, "res2": sentinel, "ser1": r, "mod1": r, "resolve_raised": r["raised"]})
                if k == "ty":
                    out["b1"] = r
                return out
            out["res"] = pr(r)
            out["ser1"] = guard(lambda: ser(r._to_serial().model_dump(mode="json")))
            out["mod1"] = guard(lambda: term_tree(r.to_model(), pairs))
            if k == "ty":
                out["b1"] = guard(lambda: bname(r.type_bound()))
            r2 = guard(lambda: r.resolve(reg))
            out["res2"] = sentinel if raised(r2) else pr(r2)
            return out
        if k == "whole":
            return self.observe_whole(case, reg, out)
        return self.observe_hugr(case, reg, out)

    def observe_whole(self, case, reg, out):
        h = build_whole(case, reg)
        nodes0 = list(h)
        out["h0"] = dump_whole(h)
        out["doc0"] = guard(lambda: parse_doc(json.loads(h.to_json())))
        out["pt0"] = whole_pts(h)
        ret = guard(lambda: h.resolve_extensions(reg))
        h = resolved_hugr(h, ret)
        out["h1"] = dump_whole(h)
        out["doc1"] = guard(lambda: parse_doc(json.loads(h.to_json())))
        out["pt1"] = whole_pts(h)
        # the call completed and the HUGR has the same nodes in the same iteration order (the property does not say what
        # the call returns: the HUGR itself, nothing, or the resolved HUGR)
        out["self"] = bool(not raised(ret) and list(h) == nodes0)
        if raised(ret):
            out["resolve_raised"] = ret["raised"]
        h = resolved_hugr(h, guard(lambda: h.resolve_extensions(reg)))
        out["h2"] = dump_whole(h)
        return out

    def observe_hugr(self, case, reg, out):
        from hugr import ops
        from hugr.build.dfg import Dfg
        from hugr.hugr import Hugr
        from hugr.hugr.node_port import InPort, Node, OutPort
        from hugr.model.export import ModelExport
        d = Dfg()
        for n in case["nodes"]:
            if n["op"] == "custom":
                f = n["sig"]
                op = ops.Custom(op_name=n["name"], extension=n["ext"], description=n["descr"],
                                signature=build_ty(["func", f["in"], f["out"], f["reqs"]], reg),
                                args=[build_arg(a, reg) for a in n["args"]])
                d.hugr.add_node(op, d.parent_node, len(f["out"]))
            else:
                d.hugr.add_node(build_std_op(n["which"], reg, build_ty(n["ty"], reg)), d.parent_node, 1)
        d.set_outputs()
        h = d.hugr
        if case["via"] == "loaded":
            h = Hugr.load_json(h.to_json())

        def print_op(op):
            x = print_custom_or_ext(op)
            if x is not None:
                return x
            return ["other", json.dumps(ser_dict(op), sort_keys=True)]

        def ser_dict(op):
            s = op._to_serial(Node(0)).model_dump(mode="json")
            s.pop("parent", None)
            return s

        def opaque_like(op):
            return print_op(op)[0] != "other"

        def ser_op(op):
            if not opaque_like(op):
                return ["other", json.dumps(ser_dict(op), sort_keys=True)]
            s = ser_dict(op)
            if set(s) != {"op", "extension", "name", "signature", "description", "args"} or s["op"] != "Extension":
                raise Unprintable(repr(s))
            f = s["signature"]
            return ["custom", {"ext": s["extension"], "name": s["name"], "descr": s["description"],
                               "sig": {"in": [ser_ty(x) for x in f["input"]], "out": [ser_ty(x) for x in f["output"]],
                                       "reqs": list(f["runtime_reqs"])},
                               "args": [ser_arg(a) for a in s["args"]]}]

        def export(hh, node, pairs):
            op = hh[node].op
            if not opaque_like(op):
                return {"raised": "not-exported"}
            m = ModelExport(hh).export_node(node)
            ap = m.operation.operation
            a = term_tree(ap, pairs)
            return [a[1], a[2], term_tree(m.signature, pairs)]

        def ports(hh, node):
            op = hh[node].op
            if not opaque_like(op):
                return [], []
            sig = op.outer_signature()
            ps = [InPort(node, i) for i in range(len(sig.input))] + [OutPort(node, i) for i in range(len(sig.output))]
            tl = [hh.port_type(p) for p in ps]
            return [print_ty(t) for t in tl], [guard(lambda t=t: bname(t.type_bound())) for t in tl]

        def rest(hh):
            doc = json.loads(hh.to_json())
            doc["nodes"] = [({"op": "Extension", "parent": n["parent"]} if n.get("op") == "Extension" else n) for n in doc["nodes"]]
            return doc

        nodes = list(h)
        obs = []
        before = [h[n].op for n in nodes]
        pairs_l = []
        for n in nodes:
            o = {"op": print_op(h[n].op)}
            pairs = sorted(pairs_of(o["op"], set()))
            pairs_l.append(pairs)
            o["ser0"] = guard(lambda: ser_op(h[n].op))
            o["exp0"] = guard(lambda: export(h, n, pairs))
            o["pt0"], o["pb0"] = ports(h, n)
            obs.append(o)
        rest0 = guard(lambda: rest(h))
        ret = guard(lambda: h.resolve_extensions(reg))
        if raised(ret):                  # never expected: every node reports a sentinel operation
            for o in obs:
                o.update({"res": ["other", "resolve raised " + ret["raised"]], "res2": ["other", "resolve raised"],
                          "ser1": ret, "exp1": ret, "pt1": [], "pb1": []})
            out["nodes"], out["rest_same"], out["resolve_raised"] = obs, False, ret["raised"]
            return out
        h = resolved_hugr(h, ret)
        for n, o, pairs in zip(nodes, obs, pairs_l):
            o["res"] = print_op(h[n].op)
            o["ser1"] = guard(lambda: ser_op(h[n].op))
            o["exp1"] = guard(lambda: export(h, n, pairs))
            o["pt1"], o["pb1"] = ports(h, n)
        rest1 = guard(lambda: rest(h))
        same_nodes = list(h) == nodes
        h = resolved_hugr(h, guard(lambda: h.resolve_extensions(reg)))
        for n, o in zip(nodes, obs):
            o["res2"] = print_op(h[n].op)
        out["nodes"] = obs
        out["rest_same"] = bool(rest0 == rest1 and not raised(rest0) and same_nodes)
        return out

    # ---- literal
    def literal(self, case, obs, ctx):
        L = Lit()
        reg = L.registry(obs["reg"])
        k = case["kind"]
        if k == "ty":
            o = gapp("Build_ty_obs", L.ty(obs["res"]), L.ty(obs["res2"]), L.opt(obs["ser0"], L.ty), L.opt(obs["ser1"], L.ty),
                     L.opt(obs["mod0"], L.term), L.opt(obs["mod1"], L.term), L.opt(obs["b0"], L.bound), L.opt(obs["b1"], L.bound))
            return gapp("CTy", reg, L.ty(obs["input"]), o)
        if k == "arg":
            o = gapp("Build_arg_obs", L.arg(obs["res"]), L.arg(obs["res2"]), L.opt(obs["ser0"], L.arg), L.opt(obs["ser1"], L.arg),
                     L.opt(obs["mod0"], L.term), L.opt(obs["mod1"], L.term))
            return gapp("CArg", reg, L.arg(obs["input"]), o)
        if k == "whole":
            pts = lambda l: glist(glist(L.oty(t) for t in row) for row in l)
            w = gapp("Wo", L.hugr(obs["h0"]), L.hugr(obs["h1"]), L.hugr(obs["h2"]),
                     L.opt(obs["doc0"], L.serial), L.opt(obs["doc1"], L.serial), pts(obs["pt0"]), pts(obs["pt1"]),
                     gbool(obs["self"]))
            return gapp("CWhole", reg, w)
        nodes = []
        for o in obs["nodes"]:
            nodes.append(gapp("Build_node_obs", L.op(o["op"]), L.op(o["res"]), L.op(o["res2"]),
                              L.opt(o["ser0"], L.op), L.opt(o["ser1"], L.op),
                              L.opt(o["exp0"], L.export), L.opt(o["exp1"], L.export),
                              glist(L.ty(t) for t in o["pt0"]), glist(L.ty(t) for t in o["pt1"]),
                              glist(L.opt(b, L.bound) for b in o["pb0"]), glist(L.opt(b, L.bound) for b in o["pb1"])))
        return gapp("CHugr", reg, glist(nodes), gbool(obs["rest_same"]))

    # ---- reporting
    def nontrivial(self, case, obs):
        if case.get("path", "").count("/") >= 1:      # a chain of >= 2 containers
            return True
        if case["kind"] == "whole":
            pairs = whole_pairs(obs)
            defined = {(e, n) for e, x in obs["reg"] for n, _ in x["ops"]}
            changed = [1 for a, b, d in pairs if a != b and d == 0]
            kept = [1 for a, b, d in pairs if a[0] == "op" and a[1][0] == "custom" and a == b and d == 0]
            nested = [1 for a, b, d in pairs if d > 0 and a[0] == "op" and a[1][0] == "custom"
                      and (a[1][1]["ext"], a[1][1]["name"]) in defined]
            return bool(changed) and bool(nested or kept)
        if case["kind"] == "hugr":
            changed = [o for o in obs["nodes"] if o["res"] != o["op"]]
            kept = [o for o in obs["nodes"] if o["op"][0] == "custom" and o["res"][0] == "custom"]
            return bool(changed) and (bool(kept) or nest_depth([o["op"] for o in obs["nodes"]]) >= 2)
        changed = obs["res"] != obs["input"]
        return nest_depth(obs["input"]) >= 2 or (changed and '"opaque"' in json.dumps(obs["res"]))

    def describe(self, case, obs):
        return {"input": case, "observed": obs}

    def signature(self, case, obs, ctx):
        k = case["kind"]
        parts = []
        if k == "whole":
            defined = {(e, n) for e, x in obs["reg"] for n, _ in x["ops"]}
            if not obs["self"]:
                parts.append("raised" if "resolve_raised" in obs else "not-self")
            if whole_skeleton(obs["h0"]) != whole_skeleton(obs["h1"]):
                parts.append("frame")
            else:
                for a, b, d in whole_pairs(obs):
                    is_def = a[0] == "op" and a[1][0] == "custom" and (a[1][1]["ext"], a[1][1]["name"]) in defined
                    if d > 0:
                        if a != b:                  # inside the HUGR of a function value: part of the frame
                            parts.append("function-value-changed")
                    elif is_def and b[0] == "op" and b[1][0] == "custom":
                        parts.append("unresolved")
                    elif not is_def and a[0] != "const" and a != b:
                        parts.append("touched")
            if obs["h2"] != obs["h1"]:
                parts.append("idempotent")
            if obs["doc0"] != obs["doc1"]:
                blank = lambda x: json.loads(re.sub(r'"descr": "(?:[^"\\]|\\.)*"', '"descr": ""', json.dumps(x)))
                if blank(obs["doc0"]) != blank(obs["doc1"]):      # more than descriptions differ
                    parts.append("document")
            if [[t is None for t in r] for r in obs["pt0"]] != [[t is None for t in r] for r in obs["pt1"]]:
                parts.append("port-types")
            return "resolve:whole:" + ("+".join(sorted(set(parts))) or "structure")
        if k == "hugr":
            for o in obs["nodes"]:
                if o["res2"] != o["res"]:
                    parts.append("idempotent")
                if o["exp0"] != o["exp1"]:
                    parts.append("model-export")
                if o["ser0"] != o["ser1"]:
                    a, b = o["ser0"], o["ser1"]
                    if (not raised(a) and not raised(b) and a[0] == b[0] == "custom"
                            and {**a[1], "descr": ""} == {**b[1], "descr": ""}):
                        # only the description differs: allowed iff it became the definition's
                        defs = [d["descr"] for k, x in obs["reg"] if k == a[1]["ext"] for n, d in x["ops"] if n == a[1]["name"]]
                        if b[1]["descr"] not in defs:
                            parts.append("description")
                    else:
                        parts.append("serial")
                if o["pb0"] != o["pb1"]:
                    parts.append("bounds")
            if not obs["rest_same"]:
                parts.append("document")
        else:
            if obs["res2"] != obs["res"]:
                parts.append("idempotent")
            if obs["mod0"] != obs["mod1"]:
                parts.append("model-export")
            if obs["ser0"] != obs["ser1"]:
                parts.append("serial")
            if obs.get("b0") != obs.get("b1"):
                parts.append("bounds")
        return "resolve:" + k + ":" + ("+".join(sorted(set(parts))) or "structure")

    def shrink(self, case):
        # the labels of the path stream describe the generated expression, not its shrunk variants
        for c in self._shrink({k: v for k, v in case.items() if k not in ("path", "where", "respell", "twin_of")}):
            yield c

    def _shrink(self, case):
        reg = case["reg"]
        if "hist" in case:
            h = case["hist"]
            yield {k2: v for k2, v in case.items() if k2 != "hist"}
            if "pre" in h:
                yield {**case, "hist": {k2: v for k2, v in h.items() if k2 != "pre"}}
            if h.get("old"):
                yield {**case, "hist": {**h, "old": []}}
                for i in range(len(h["old"])):
                    yield {**case, "hist": {**h, "old": h["old"][:i] + h["old"][i + 1:]}}
            if int(h.get("k", 2)) > 1:
                yield {**case, "hist": {**h, "k": int(h.get("k", 2)) - 1}}
            for key in ("ext", "types", "ops"):
                for k2, b in h.get(key, {}).items():
                    if b:
                        yield {**case, "hist": {**h, key: {k3: v for k3, v in h[key].items() if k3 != k2}}}
        for i in range(len(reg)):
            yield {**case, "reg": reg[:i] + reg[i + 1:]}
        for i, e in enumerate(reg):
            if "std" in e:
                continue
            for key in ("types", "ops"):
                for j in range(len(e[key])):
                    yield {**case, "reg": reg[:i] + [{**e, key: e[key][:j] + e[key][j + 1:]}] + reg[i + 1:]}
        k = case["kind"]
        if k == "ty":
            for s in smaller_trees(case["t"]):
                yield {**case, "t": s}
        elif k == "arg":
            for s in smaller_args(case["a"]):
                yield {**case, "a": s}
            if case["a"][0] == "type":
                yield {**case, "kind": "ty", "t": case["a"][1]}
        elif k == "whole":
            if case.get("refill"):
                yield {k2: v for k2, v in case.items() if k2 != "refill"}
            hs = case.get("holes", [])
            for i in range(len(hs)):
                yield {**case, "holes": hs[:i] + hs[i + 1:]}
            if "body" in case:
                for b in smaller_bodies(case["body"]):
                    yield {**case, "body": b}
        else:
            ns = case["nodes"]
            for i in range(len(ns)):
                if len(ns) > 1:
                    yield {**case, "nodes": ns[:i] + ns[i + 1:]}
            for i, n in enumerate(ns):
                if n["op"] != "custom":
                    continue
                f = n["sig"]
                for pos in ("in", "out"):
                    for j in range(len(f[pos])):
                        yield {**case, "nodes": ns[:i] + [{**n, "sig": {**f, pos: f[pos][:j] + f[pos][j + 1:]}}] + ns[i + 1:]}
                        for s in smaller_trees(f[pos][j]):
                            yield {**case, "nodes": ns[:i] + [{**n, "sig": {**f, pos: f[pos][:j] + [s] + f[pos][j + 1:]}}] + ns[i + 1:]}
                for j in range(len(n["args"])):
                    yield {**case, "nodes": ns[:i] + [{**n, "args": n["args"][:j] + n["args"][j + 1:]}] + ns[i + 1:]}
                    for s in smaller_args(n["args"][j]):
                        yield {**case, "nodes": ns[:i] + [{**n, "args": n["args"][:j] + [s] + n["args"][j + 1:]}] + ns[i + 1:]}

    def neighbours(self, case, rng):
        """same registry, fresh expressions over the same universe; and the sub-expressions of the case"""
        if "hist" in case:                  # the same neighbourhood, every neighbour with the case's history
            plain = {k: v for k, v in case.items() if k != "hist"}
            return [{**c, "hist": case["hist"]} for c in self.neighbours(plain, rng)]
        out = []
        universe = [e for e in case["reg"] if "std" not in e]
        std_names = [e["std"] for e in case["reg"] if "std" in e]
        if case["kind"] == "whole":
            allstd = sorted(std_exts())
            for _ in range(150):
                out.append({**whole_body_case(rng, allstd), "reg": case["reg"]})
            return out
        if case["kind"] == "ty":
            out += [{**case, "t": s} for s in subtrees(case["t"])]
        for _ in range(600):
            g = Gen(rng, universe + rand_universe(rng), std_names)
            r = rng.random()
            if r < 0.5:
                out.append({"kind": "ty", "via": "loaded", "reg": case["reg"], "t": g.ty(2)})
            elif r < 0.6:
                out.append({"kind": "arg", "via": "loaded", "reg": case["reg"], "a": g.arg(2)})
            else:
                out.append({"kind": "hugr", "via": rng.choice(["loaded", "built"]), "reg": case["reg"],
                            "nodes": [g.custom(1) for _ in range(rng.randint(1, 2))]})
        return out

    def distribution(self, cases, observations):
        d = {"kind": {}, "registry_mode": {}, "via": {}, "opaque_nesting_depth": {}, "changed": 0, "raised": 0}
        for c, o in zip(cases, observations):
            d["kind"][c["kind"]] = d["kind"].get(c["kind"], 0) + 1
            if "respell" in c:
                rp = d.setdefault("respelled_pair_placed_at", {})
                key = c["respell"].split(":")[0]
                rp[key] = rp.get(key, 0) + 1
            m = c.get("mode", "corpus")
            d["registry_mode"][m] = d["registry_mode"].get(m, 0) + 1
            if "hist" in c:
                hd = d.setdefault("registry_history", {"cases": 0, "stages": {}, "other_registry_first": 0, "late_extensions": 0,
                                                       "definitions_added_in_place": {"types": 0, "ops": 0},
                                                       "definitions_replaced_in_place": 0,
                                                       "cases_mentioning_a_definition_added_in_place": 0})
                hd["cases"] += 1
                ks = str(c["hist"].get("k", 2))
                hd["stages"][ks] = hd["stages"].get(ks, 0) + 1
                hd["other_registry_first"] += "pre" in c["hist"]
                hd["late_extensions"] += sum(1 for b in c["hist"].get("ext", {}).values() if b)
                txt = json.dumps({k2: v for k2, v in c.items() if k2 not in ("reg", "hist")})
                hit = False
                for e, n, key, redef in hist_in_place(c):
                    hd["definitions_added_in_place"][key] += 1
                    hd["definitions_replaced_in_place"] += redef
                    hit = hit or (json.dumps(["opaque", e, n])[:-1] in txt if key == "types"
                                  else json.dumps({"ext": e, "name": n})[1:-1] in txt)
                hd["cases_mentioning_a_definition_added_in_place"] += hit
            d["via"][c["via"]] = d["via"].get(c["via"], 0) + 1
            if c["kind"] == "whole":
                pairs = whole_pairs(o)
                w = d.setdefault("whole", {"source": {}, "nodes": 0, "holes": 0, "function_value_depth": {}, "links": 0,
                                           "order_links": 0, "changed_inside_function_values": 0, "resolved_top": 0, "with_metadata": 0})
                src = "builder-program" if "seed" in c else "small-hugr-of-older-streams" if "twin_of" in c else "generated-body"
                w["source"][src] = w["source"].get(src, 0) + 1
                w["nodes"] += len(o["h0"]["nodes"])
                w["holes"] += max([n["idx"] for n in o["h0"]["nodes"]] + [-1]) + 1 - len(o["h0"]["nodes"])
                w["links"] += len(o["h0"]["links"])
                w["order_links"] += sum(1 for l in o["h0"]["links"] if l[1] == -1)
                w["with_metadata"] += sum(1 for n in o["h0"]["nodes"] if n["md"])
                fd = str(max([dd for _, _, dd in pairs] + [0]))
                w["function_value_depth"][fd] = w["function_value_depth"].get(fd, 0) + 1
                defined = {(e, n) for e, x in o["reg"] for n, _ in x["ops"]}
                w["changed_inside_function_values"] += sum(1 for a, b, dd in pairs if a != b and dd > 0)     # expected 0: frame
                w["defined_ops_inside_function_values"] = w.get("defined_ops_inside_function_values", 0) + sum(
                    1 for a, b, dd in pairs if dd > 0 and a[0] == "op" and a[1][0] == "custom"
                    and (a[1][1]["ext"], a[1][1]["name"]) in defined)
                w["resolved_top"] += sum(1 for a, b, dd in pairs if a != b and dd == 0 and a[0] == "op")
                d["changed"] += o["h0"] != o["h1"]
                nd = str(nest_depth([a for a, _, _ in pairs]))
                d["opaque_nesting_depth"][nd] = d["opaque_nesting_depth"].get(nd, 0) + 1
                continue
            inp = o["input"] if c["kind"] != "hugr" else [n["op"] for n in o["nodes"]]
            for t in c.get("sib", []):
                t = t.split(":")[0] + (":" + t.split(":")[-1] if ":" in t else "")
                d.setdefault("sibling_variants", {})
                d["sibling_variants"][t] = d["sibling_variants"].get(t, 0) + 1
            if "path" in c:
                steps = c["path"].split("/") if c["path"] else []
                pl = d.setdefault("container_path_length", {})
                pl[str(len(steps))] = pl.get(str(len(steps)), 0) + 1
                pw = d.setdefault("container_path_where", {})
                pw[c["where"]] = pw.get(c["where"], 0) + 1
                pp = d.setdefault("container_directly_inside_container", {})
                for a, b in zip(steps, steps[1:]):
                    pp[b + " in " + a] = pp.get(b + " in " + a, 0) + 1
            nd = str(nest_depth(inp))
            d["opaque_nesting_depth"][nd] = d["opaque_nesting_depth"].get(nd, 0) + 1
            if c["kind"] == "hugr":
                d["changed"] += any(n["res"] != n["op"] for n in o["nodes"])
            else:
                d["changed"] += o["res"] != o["input"]
                d["raised"] += any(raised(o.get(k)) for k in ("ser0", "ser1", "mod0", "mod1", "b0", "b1"))
        return d


PROP = C11()
