"""C16 — Node handles enumerate exactly their value outputs (model: coq/model/NodeIndex.v)."""
import itertools

import fw
from fw import gZ, glist, gopt, gpair, gapp, gbool


def gres(r):
    if r[0] == "ok":
        return gapp("Ok", glist(gpair(gZ(i), gZ(o)) for i, o in r[1]))
    return gapp("Err", {"IndexError": "IndexError", "ValueError": "ValueError"}.get(r[1], "OtherError"))


def goz(x):
    return gopt(None if x is None else gZ(x))


def gquery(q):
    k = q[0]
    if k == "int":
        return gapp("QInt", gZ(q[1]))
    if k == "slice":
        return gapp("QSlice", goz(q[1]), goz(q[2]), goz(q[3]))
    if k == "tuple":
        return gapp("QTuple", glist(gZ(x) for x in q[1]))
    return {"iter": "QIter", "outputs": "QIter", "wire": "QWire"}[k]


def run_query(node, q):
    """Evaluates a query on a real handle; ports come back as (node idx, offset)."""
    try:
        k = q[0]
        if k == "int":
            ps = [node[q[1]]]
        elif k == "slice":
            ps = list(node[q[1]:q[2]:q[3]])
        elif k == "tuple":
            ps = list(node[tuple(q[1])])
        elif k == "iter":
            ps = list(node)
        elif k == "outputs":
            ps = list(node.outputs())
        elif k == "wire":
            ps = [node.out_port()]
        from hugr.hugr.node_port import OutPort
        assert all(type(p) is OutPort for p in ps)
        return ["ok", [[p.node.idx, p.offset] for p in ps]]
    except (IndexError, ValueError) as e:
        return ["err", type(e).__name__]
    except Exception as e:
        return ["err", "Other:" + type(e).__name__]


# ---------------------------------------------------------------------------------------------------
# operation shapes: a harness-side description of an operation whose outputs are determined.  The real
# operation is built from it (build_shape), the Gallina literal from the same description (gshape), and the
# expected count is computed by the Coq spec (value_outputs) -- never read from the implementation.
#   ["sig", api, op, nin, nout]     op in custom|callind|callind_infer, api in add_op|add|extend
#   ["unpack", api, k, given]       UnpackTuple of a k-tuple, types given or inferred
#   ["pack", api, op, k]            op in maketuple|tag
#   ["unary", op]                   noop_add_op|noop_add|load
#   ["call", fn, params, body_in, body_out, arglens]
#        fn in declare|define; params: list of "T"|"R"; rows: lists of "t" | ["v", i] | ["r", i];
#        arglens[i]: None for a type parameter, the length of the sequence argument for a row parameter
#   ["dfg"|"cfg"|"cond", how, k]    how in add|insert; outputs set to k wires
#   ["loop", how, jout, rest]
def inst_row(row, arglens):
    """Number of types of `row` after substituting the type arguments (harness-side; Coq recomputes it)."""
    return sum(1 if (it == "t" or it[0] == "v") else arglens[it[1]] for it in row)


def gshape(sh):
    k = sh[0]
    if k == "sig":
        return gapp("SSig", gZ(sh[3]), gZ(sh[4]))
    if k == "unpack":
        return gapp("SUnpack", gZ(sh[2]))
    if k == "pack":
        return gapp("SPack", gZ(sh[3]))
    if k == "unary":
        return "SUnary"
    if k == "call":
        def it(x):
            return "RTy" if x == "t" else gapp("RVar" if x[0] == "v" else "RRow", fw.gnat(x[1]))
        args = ["ATy" if p == "T" else gapp("ASeq", fw.gnat(l)) for p, l in zip(sh[2], sh[5])]
        return gapp("SCall", glist(it(x) for x in sh[4]), glist(args), gZ(inst_row(sh[4], sh[5])))
    if k in ("dfg", "cfg", "cond"):
        return gapp("SDfg", gZ(sh[2]))
    if k == "loop":
        return gapp("SLoop", gZ(sh[2]), gZ(sh[3]))
    raise AssertionError(sh)


def build_shape(sh):
    """Builds the operation with hugr-py's builders; returns the handle the builder hands out."""
    from hugr import ops, tys, val
    from hugr.build.dfg import Dfg
    from hugr.build.cfg import Cfg
    from hugr.build.cond_loop import Conditional, TailLoop
    from hugr.build.function import Module
    B = tys.Bool
    k = sh[0]

    def via(d, api, op, wires):
        if api == "add_op":
            return d.add_op(op, *wires)
        if api == "add":
            return d.add(op(*wires))
        return d.extend(ops.Noop()(d.inputs()[0]), op(*wires))[1]

    if k == "sig":
        _, api, which, nin, nout = sh
        ft = tys.FunctionType([B] * nin, [B] * nout)
        if which == "custom":
            d = Dfg(B)
            return via(d, api, ops.Custom("c16.op", ft, extension="c16"), [d.inputs()[0]] * nin)
        d = Dfg(ft, B)
        op = ops.CallIndirect(ft) if which == "callind" else ops.CallIndirect()
        return via(d, api, op, [d.inputs()[0]] + [d.inputs()[1]] * nin)
    if k == "unpack":
        _, api, n, given = sh
        d = Dfg(tys.Tuple(*[B] * n))
        return via(d, api, ops.UnpackTuple([B] * n) if given else ops.UnpackTuple(), [d.inputs()[0]])
    if k == "pack":
        _, api, which, n = sh
        d = Dfg(B)
        op = ops.MakeTuple() if which == "maketuple" else ops.Tag(0, tys.Sum([[B] * n]))
        return via(d, api, op, [d.inputs()[0]] * n)
    if k == "unary":
        d = Dfg(B)
        if sh[1] == "load":
            return d.load(val.TRUE)
        return via(d, "add_op" if sh[1] == "noop_add_op" else "add", ops.Noop(), [d.inputs()[0]])
    if k == "call":
        _, fn, params, body_in, body_out, arglens = sh
        any_ = tys.TypeBound.Any

        def ty(it):
            if it == "t":
                return B
            return tys.Variable(it[1], any_) if it[0] == "v" else tys.RowVariable(it[1], any_)
        tparams = [tys.TypeTypeParam(any_) if p == "T" else tys.ListParam(tys.TypeTypeParam(any_)) for p in params]
        body = tys.FunctionType([ty(x) for x in body_in], [ty(x) for x in body_out])
        m = Module()
        if fn == "declare":
            f = m.declare_function("f", tys.PolyFuncType(tparams, body))
        else:
            f = m.define_function("f", body.input, body.output, tparams)
        g = m.define_function("g", [B])
        n_in = inst_row(body_in, arglens)
        wires = [g.inputs()[0]] * n_in
        if not params:
            return g.call(f, *wires)
        inst = tys.FunctionType([B] * n_in, [B] * inst_row(body_out, arglens))
        targs = [B.type_arg() if p == "T" else tys.SequenceArg([B.type_arg()] * l) for p, l in zip(params, arglens)]
        return g.call(f, *wires, instantiation=inst, type_args=targs)
    how, n = sh[1], sh[2]
    if k == "dfg":
        d = Dfg(B)
        if how == "add":
            inner = d.add_nested(d.inputs()[0])
            inner.set_outputs(*[inner.inputs()[0]] * n)
            return inner.parent_node
        inner = Dfg(B)
        inner.set_outputs(*[inner.inputs()[0]] * n)
        return d.insert_nested(inner, d.inputs()[0])
    if k == "cfg":
        d = Dfg(B)
        cfg = d.add_cfg(d.inputs()[0]) if how == "add" else Cfg(B)
        with cfg.add_entry() as e:
            e.set_single_succ_outputs(*[e.inputs()[0]] * n)
        cfg.branch_exit(e[0])
        return cfg.parent_node if how == "add" else d.insert_cfg(cfg, d.inputs()[0])
    if k == "cond":
        d = Dfg(B, B)
        c = d.add_conditional(*d.inputs()) if how == "add" else Conditional(B, [B])
        for i in (0, 1):
            with c.add_case(i) as ci:
                ci.set_outputs(*[ci.inputs()[0]] * n)
        return c.parent_node if how == "add" else d.insert_conditional(c, *d.inputs())
    if k == "loop":
        _, how, jout, rest = sh
        d = Dfg(B, B)
        i0, i1 = d.inputs()
        tl = d.add_tail_loop([i0], [i1] * rest) if how == "add" else TailLoop([B], [B] * rest)
        sum_v = val.Sum(1, tys.Sum([[B], [B] * jout]), [val.TRUE] * jout)
        tl.set_loop_outputs(tl.load(sum_v), *tl.inputs()[1:])
        return tl.parent_node if how == "add" else d.insert_tail_loop(tl, [i0], [i1] * rest)
    raise AssertionError(sh)


def gen_shape(rng):
    cnt = lambda: rng.choice([0, 0, 1, 1, 2, 3, 4, 5, rng.randint(6, 12)])
    api = lambda: rng.choice(["add_op", "add", "extend"])
    how = lambda: rng.choice(["add", "insert"])
    r = rng.random()
    if r < 0.45:
        params = [rng.choice("TR") for _ in range(rng.choice([0, 1, 1, 1, 2, 2, 3]))]
        arglens = [None if p == "T" else rng.choice([0, 0, 1, 2, 3, 5]) for p in params]

        def row():
            items = ["t"] + [["v" if p == "T" else "r", i] for i, p in enumerate(params)]
            rows = [x for x in items if x != "t" and x[0] == "r"]
            out = []
            for _ in range(rng.choice([0, 1, 1, 2, 2, 3, 4])):
                out.append(rng.choice(rows) if rows and rng.random() < 0.5 else rng.choice(items))
            return out
        return ["call", rng.choice(["declare", "define"]), params, row(), row(), arglens]
    if r < 0.57:
        return ["sig", api(), rng.choice(["custom", "callind", "callind_infer"]), rng.randint(0, 3), cnt()]
    if r < 0.65:
        return ["unpack", api(), cnt(), rng.random() < 0.5]
    if r < 0.71:
        return ["pack", api(), rng.choice(["maketuple", "tag"]), rng.randint(0, 4)]
    if r < 0.75:
        return ["unary", rng.choice(["noop_add_op", "noop_add", "load"])]
    if r < 0.93:
        return [rng.choice(["dfg", "cfg", "cond"]), how(), cnt()]
    return ["loop", how(), rng.randint(0, 4), rng.randint(0, 4)]


def shape_count(sh):
    """Harness-side count, used only to aim queries at the interesting offsets and for statistics."""
    k = sh[0]
    return {"sig": lambda: sh[4], "unpack": lambda: sh[2], "pack": lambda: 1, "unary": lambda: 1,
            "call": lambda: inst_row(sh[4], sh[5]), "dfg": lambda: sh[2], "cfg": lambda: sh[2],
            "cond": lambda: sh[2], "loop": lambda: sh[2] + sh[3]}[k]()


def gen_query(rng, n):
    r = rng.random()
    if r < 0.3:
        return ["iter"]
    if r < 0.6:
        return ["int", rng.choice([n - 1, n, -n, -n - 1, -1, 0, rng.randint(-n - 2, n + 2)])]
    if r < 0.8:
        b = lambda: rng.choice([None, rng.randint(-n - 2, n + 3)])
        return ["slice", b(), b(), rng.choice([None, 1, 2, 3])]
    if r < 0.9:
        return ["outputs"]
    return ["tuple", [rng.randint(-n - 1, n + 1) for _ in range(rng.randint(0, 3))]]


# ---------------------------------------------------------------------------------------------------
# reused operation objects (seeded round 3, C16-i): ONE operation object is handed to add_op / add / extend
# several times, each time wired to inputs of another shape; the handle of every use must carry the count the
# operation has AFTER that use's inputs were wired (partial operations are re-typed by the wiring).
#   {"kind": "reuse", "op": kind, "pre": pre, "mode": "one"|"each"|"fn", "uses": [[api, wiring], ...], "j": j, "q": q}
#   kind / pre (state of the object before its first use):
#     unpack  None | k0      ops.UnpackTuple() / ops.UnpackTuple([Bool]*k0)
#     callind None | [a0,b0] ops.CallIndirect() / ops.CallIndirect(FunctionType([Bool]*a0, [Bool]*b0))
#     make    None | k0      ops.MakeTuple() / ops.MakeTuple([Bool]*k0)
#     noop    False | True   ops.Noop() / ops.Noop(Bool)
#     custom  [nin, nout]    ops.Custom with that signature (not partial: wiring does not re-type it)
#     tag     k              ops.Tag(0, Sum([[Bool]*k]))   (not partial)
#   wiring: the types of the wires of one use, each "v" (Bool) | ["t", k] (k-tuple) | ["f", a, b] (function value)
#   mode: all uses in one Dfg / a fresh Dfg per use (a module-level constant op) / one function body;
#   consecutive "extend" uses in one graph go into ONE extend call.  j = the use whose handle is observed.
def gwty(w):
    if w == "v":
        return "WVal"
    return gapp("WTup", gZ(w[1])) if w[0] == "t" else gapp("WFn", gZ(w[1]), gZ(w[2]))


def gobj(kind, pre):
    if kind == "unpack":
        return gapp("OUnpack", goz(pre))
    if kind == "callind":
        return gapp("OCallInd", goz(None if pre is None else pre[1]))
    if kind == "make":
        return gapp("OMake", goz(pre))
    if kind == "noop":
        return gapp("ONoop", gbool(bool(pre)))
    if kind == "custom":
        return gapp("OFixed", gZ(pre[1]))
    if kind == "tag":
        return gapp("OFixed", gZ(1))
    raise AssertionError(kind)


def reuse_count(case, j=None):
    """Harness-side count of use j (only to aim queries and for statistics; Coq recomputes it from the case)."""
    kind, w = case["op"], case["uses"][case["j"] if j is None else j][1]
    if kind == "unpack":
        return w[0][1]
    if kind == "callind":
        return w[0][2]
    return case["pre"][1] if kind == "custom" else 1


def build_reuse(case):
    """Runs the uses of the one operation object through hugr-py's builders; returns all handles."""
    from hugr import ops, tys
    from hugr.build.dfg import Dfg
    from hugr.build.function import Module
    B = tys.Bool
    kind, pre = case["op"], case["pre"]
    if kind == "unpack":
        op = ops.UnpackTuple() if pre is None else ops.UnpackTuple([B] * pre)
    elif kind == "callind":
        op = ops.CallIndirect() if pre is None else ops.CallIndirect(tys.FunctionType([B] * pre[0], [B] * pre[1]))
    elif kind == "make":
        op = ops.MakeTuple() if pre is None else ops.MakeTuple([B] * pre)
    elif kind == "noop":
        op = ops.Noop(B) if pre else ops.Noop()
    elif kind == "custom":
        op = ops.Custom("c16.op", tys.FunctionType([B] * pre[0], [B] * pre[1]), extension="c16")
    else:
        op = ops.Tag(0, tys.Sum([[B] * pre]))

    def wt(w):
        if w == "v":
            return B
        return tys.Tuple(*[B] * w[1]) if w[0] == "t" else tys.FunctionType([B] * w[1], [B] * w[2])

    def run(d, uses, wires):
        """uses in the graph d; wires[i] = the wires of use i"""
        out, i = [], 0
        while i < len(uses):
            api = uses[i][0]
            if api == "add_op":
                out.append(d.add_op(op, *wires[i]))
            elif api == "add":
                out.append(d.add(op(*wires[i])))
            else:
                k = i
                while k + 1 < len(uses) and uses[k + 1][0] == "extend":
                    k += 1
                out.extend(d.extend(*[op(*wires[m]) for m in range(i, k + 1)]))
                i = k
            i += 1
        return out

    uses = case["uses"]
    if case["mode"] == "each":
        hs = []
        for u in uses:
            d = Dfg(*[wt(w) for w in u[1]])
            hs.extend(run(d, [u], [d.inputs()]))
        return hs
    alltys = [wt(w) for u in uses for w in u[1]]
    d = Dfg(*alltys) if case["mode"] == "one" else Module().define_function("g", alltys)
    ins, wires, pos = d.inputs(), [], 0
    for u in uses:
        wires.append(ins[pos:pos + len(u[1])])
        pos += len(u[1])
    return run(d, uses, wires)


def gen_reuse(rng):
    cnt = lambda: rng.choice([0, 1, 1, 2, 2, 3, 3, 4, 5, rng.randint(6, 12)])
    anyw = lambda: rng.choice(["v", "v", ["t", rng.randint(0, 3)], ["f", rng.randint(0, 2), rng.randint(0, 3)]])
    kind = rng.choice(["unpack"] * 7 + ["callind"] * 6 + ["make"] * 2 + ["noop"] * 2 + ["custom"] * 2 + ["tag"])
    if kind == "unpack":
        pre = rng.choice([None, None, cnt()])
        wiring = lambda: [["t", cnt()]]
    elif kind == "callind":
        pre = rng.choice([None, None, [rng.randint(0, 2), cnt()]])

        def wiring():
            a = rng.randint(0, 2)
            return [["f", a, cnt()]] + ["v"] * a
    elif kind == "make":
        pre = rng.choice([None, rng.randint(0, 3)])
        wiring = lambda: [anyw() for _ in range(rng.randint(0, 4))]
    elif kind == "noop":
        pre = rng.random() < 0.5
        wiring = lambda: [anyw()]
    elif kind == "custom":
        pre = [rng.randint(0, 3), cnt()]
        wiring = lambda: ["v"] * pre[0]
    else:
        pre = rng.randint(0, 3)
        wiring = lambda: ["v"] * pre
    uses = [[rng.choice(["add_op", "add", "extend", "extend"]), wiring()] for _ in range(rng.choice([1, 2, 2, 2, 3, 3, 4]))]
    j = len(uses) - 1 if rng.random() < 0.6 else rng.randrange(len(uses))
    case = {"kind": "reuse", "op": kind, "pre": pre, "mode": rng.choice(["one", "one", "each", "fn"]), "uses": uses, "j": j}
    case["q"] = gen_query(rng, reuse_count(case))
    return case


class C16(fw.Prop):
    id = "C16"
    props_file = "props/C16.v"
    run_file = "run/C16Run.v"
    run_module = "run.C16Run"
    shard = 1500
    rule = ("queries (int / slice / tuple index, iteration, outputs(), out_port) on real Node handles: "
            "exhaustive n<=5, bounds in -8..8 or None, step in None,0,1,2,3; random large values; handles "
            "returned by add_node with/without explicit count inside add/delete histories (index reuse), and "
            "by Dfg builder calls (add_op/add/extend/load/call/load_function/add_nested/insert_nested/"
            "add_cfg/insert_cfg/add_conditional/insert_conditional/add_tail_loop/insert_tail_loop), with n "
            "declared by the scenario; generated operation shapes (Custom / CallIndirect with random signatures, "
            "UnpackTuple / MakeTuple / Tag of k values, Noop, load, call of declared / defined functions that are "
            "monomorphic, polymorphic in types and polymorphic in rows with sequence arguments of length 0..5 -- the "
            "instantiation has more or fewer outputs than the body's row --, nested Dfg / Cfg / Conditional / "
            "TailLoop added or inserted with 0..12 outputs) through add_op / add / extend / call / load / "
            "insert_*, where the expected count is computed by the Coq spec (value_outputs) from the shape and "
            "never read from the implementation; ONE operation object (UnpackTuple / CallIndirect / MakeTuple / "
            "Noop fresh or constructed with types, Custom, Tag) reused for 1..4 nodes through add_op / add / extend "
            "(consecutive extend uses in one call) in one Dfg, a fresh Dfg per use or a function body, each use wired "
            "to a tuple of another width / a function value with another number of results / other wire types, the "
            "handle of a chosen use queried, the expected count being that of the operation AFTER that use's wiring "
            "(spec use_outputs); port equality/hash pairs. non-trivial = query with a negative, "
            "overflowing or below -n bound, step>1, an unknown count, or a handle produced by a builder/history")
    trusted = ["builder handles: the harness builds the real operation and the Gallina shape from one description "
               "(harness/props/c16.py build_shape / gshape); the expected count comes from the shape (spec "
               "value_outputs; for the fixed scenarios a literal; for reused operation objects use_outputs of the "
               "wiring), not from op.num_out"]

    def corpus(self, ctx):
        # seeded round 2 (C16-d): `call` of a function polymorphic over a row of types, where the
        # instantiation has more / fewer outputs than the polymorphic body's output row
        rot = lambda fn, l: ["call", fn, ["R"], ["t", ["r", 0]], [["r", 0], "t"], [l]]
        return [
            {"kind": "bop", "shape": ["call", "declare", ["R"], [], [["r", 0]], [2]], "q": ["iter"]},
            {"kind": "bop", "shape": rot("declare", 3), "q": ["iter"]},
            {"kind": "bop", "shape": rot("declare", 3), "q": ["int", -1]},
            {"kind": "bop", "shape": rot("declare", 3), "q": ["slice", 1, 99, 2]},
            {"kind": "bop", "shape": rot("define", 0), "q": ["int", 1]},
            {"kind": "bop", "shape": rot("define", 0), "q": ["iter"]},
            {"kind": "bop", "shape": ["call", "declare", ["T", "R"], [["v", 0]], [["v", 0], ["r", 1], ["r", 1]], [None, 2]],
             "q": ["outputs"]},
            # seeded round 3 (C16-i): one partial operation object used for a second node with another shape
            # (a module-level `UNPACK = ops.UnpackTuple()`; extend(unpack(pair), unpack(triple)); a CallIndirect
            # whose function value changes; an op constructed with types that the wiring overrides)
            {"kind": "reuse", "op": "unpack", "pre": None, "mode": "each", "j": 1, "q": ["iter"],
             "uses": [["add_op", [["t", 2]]], ["add_op", [["t", 3]]]]},
            {"kind": "reuse", "op": "unpack", "pre": None, "mode": "one", "j": 1, "q": ["int", -1],
             "uses": [["extend", [["t", 2]]], ["extend", [["t", 3]]]]},
            {"kind": "reuse", "op": "unpack", "pre": None, "mode": "fn", "j": 1, "q": ["int", 1],
             "uses": [["add", [["t", 3]]], ["add", [["t", 1]]]]},
            {"kind": "reuse", "op": "unpack", "pre": 2, "mode": "one", "j": 0, "q": ["slice", None, None, None],
             "uses": [["add_op", [["t", 3]]]]},
            {"kind": "reuse", "op": "callind", "pre": None, "mode": "one", "j": 1, "q": ["outputs"],
             "uses": [["add", [["f", 1, 1], "v"]], ["add", [["f", 1, 2], "v"]]]},
            {"kind": "reuse", "op": "callind", "pre": [0, 2], "mode": "each", "j": 0, "q": ["iter"],
             "uses": [["add_op", [["f", 0, 0]]]]},
        ]

    def generate(self, rng, tier, ctx):
        cases = []
        B = [None] + list(range(-8, 9))
        nmax = 5 if tier == "quick" else 7
        for n in list(range(0, nmax + 1)) + [None]:
            for i in range(-10, 11):
                cases.append({"kind": "direct", "n": n, "q": ["int", i]})
            for a, b, s in itertools.product(B, B, [None, 0, 1, 2, 3]):
                if tier == "quick" and n is not None and n >= 4 and rng.random() < 0.5:
                    continue
                cases.append({"kind": "direct", "n": n, "q": ["slice", a, b, s]})
            cases.append({"kind": "direct", "n": n, "q": ["iter"]})
            cases.append({"kind": "direct", "n": n, "q": ["outputs"]})
            cases.append({"kind": "direct", "n": n, "q": ["wire"]})
            for _ in range(20):
                cases.append({"kind": "direct", "n": n,
                              "q": ["tuple", [rng.randint(-nmax - 1, nmax + 1) for _ in range(rng.randint(0, 4))]]})
        for _ in range(400 if tier == "quick" else 6000):
            n = rng.choice([None, rng.randint(0, 40), rng.randint(0, 10 ** 12)])
            big = lambda: rng.choice([None, rng.randint(-50, 50), rng.randint(-10 ** 13, 10 ** 13)])
            q = rng.choice([["int", big() or 0], ["slice", big(), big(), rng.choice([None, 1, 2, 7, 10 ** 6])]])
            if q[0] == "slice":
                # keep the enumerated range small
                if n is None:
                    q = ["slice", rng.choice([None, rng.randint(-3, 30)]), rng.choice([None, rng.randint(-3, 60)]), q[3]]
                elif n > 1000:
                    q[3] = max(1, n // 7)
            cases.append({"kind": "direct", "n": n, "q": q})
        # add/delete histories on a real Hugr: handle counts must not leak across index reuse
        for _ in range(150 if tier == "quick" else 2000):
            steps = []
            for _ in range(rng.randint(2, 10)):
                r = rng.random()
                if r < 0.3:
                    steps.append(["del", rng.randint(0, 5)])
                elif r < 0.65:
                    steps.append(["add", rng.randint(0, 4)])
                elif r < 0.8:
                    steps.append(["addconst"])
                else:
                    steps.append(["add", None])
            cases.append({"kind": "history", "steps": steps,
                          "q": rng.choice([["iter"], ["int", rng.randint(-3, 5)], ["slice", None, None, None],
                                           ["slice", rng.randint(-3, 3), None, 2]])})
        for k in range(len(BUILDER_SCENARIOS)):
            for q in (["iter"], ["int", -1], ["int", 0], ["slice", 1, None, None], ["outputs"]):
                cases.append({"kind": "builder", "scenario": k, "q": q})
        for _ in range(200 if tier == "quick" else 2000):
            a = [rng.randint(0, 3), rng.randint(-1, 2), rng.random() < 0.5]
            b = rng.choice([list(a), [rng.randint(0, 3), rng.randint(-1, 2), rng.random() < 0.5]])
            cases.append({"kind": "porteq", "a": a, "b": b, "va": rng.randint(0, 3), "vb": rng.randint(0, 3)})
        # generated operation shapes through every builder entry point; the expected count is computed by the
        # spec from the shape (drawn last: the streams above stay as they were)
        for _ in range(600 if tier == "quick" else 6000):
            sh = gen_shape(rng)
            cases.append({"kind": "bop", "shape": sh, "q": gen_query(rng, shape_count(sh))})
        # one operation object reused with other wire shapes (drawn after everything else)
        for _ in range(500 if tier == "quick" else 5000):
            cases.append(gen_reuse(rng))
        return cases

    def observe(self, case, ctx):
        from hugr.hugr import Hugr
        from hugr.hugr.node_port import Node, InPort, OutPort
        from hugr import ops, tys, val
        k = case["kind"]
        if k == "direct":
            n = case["n"]
            if n is None:
                h = Hugr()
                node = h.add_node(ops.Noop(tys.Bool))          # no explicit count
                if case["q"][0] in ("int",) and case["q"][1] % 2:
                    node = Node(7)                               # bare handle
            elif n <= 40:
                h = Hugr()
                node = h.add_node(ops.Noop(tys.Bool), num_outs=n)
            else:
                node = Node(3, _num_out_ports=n)
            return {"idx": node.idx, "n": n, "r": run_query(node, case["q"])}
        if k == "history":
            h = Hugr()
            live, last, last_n = [], None, None
            for st in case["steps"]:
                if st[0] == "del":
                    if live:
                        nd = live.pop(st[1] % len(live))
                        h.delete_node(nd)
                elif st[0] == "addconst":
                    last, last_n = h.add_const(val.TRUE), None
                    live.append(last)
                else:
                    last = h.add_node(ops.Noop(tys.Bool), num_outs=st[1])
                    last_n = st[1]
                    live.append(last)
            if last is None:
                last, last_n = h.add_node(ops.Noop(tys.Bool), num_outs=2), 2
            return {"idx": last.idx, "n": last_n, "r": run_query(last, case["q"])}
        if k == "builder":
            node, n = BUILDER_SCENARIOS[case["scenario"]]()
            return {"idx": node.idx, "n": n, "r": run_query(node, case["q"])}
        if k == "bop":
            node = build_shape(case["shape"])
            return {"idx": node.idx, "r": run_query(node, case["q"])}
        if k == "reuse":
            node = build_reuse(case)[case["j"]]
            return {"idx": node.idx, "r": run_query(node, case["q"])}
        if k == "porteq":
            def mk(p, variant):
                idx, off, inc = p
                node = [Node(idx), Node(idx, {"m": 1}), Node(idx, _num_out_ports=5), Node(idx, {"x": []}, 0)][variant]
                return InPort(node, off) if inc else OutPort(node, off)
            a, b = mk(case["a"], case["va"]), mk(case["b"], case["vb"])
            return {"eq": bool(a == b), "hash_eq": hash(a) == hash(b)}
        raise AssertionError(k)

    def literal(self, case, obs, ctx):
        if case["kind"] == "porteq":
            gp = lambda p: gpair(gZ(p[0]), gZ(p[1]), gbool(p[2]))
            return gapp("CPortEq", gp(case["a"]), gp(case["b"]), gbool(obs["eq"]), gbool(obs["hash_eq"]))
        if case["kind"] == "bop":
            return gapp("CBuilder", gZ(obs["idx"]), gshape(case["shape"]), gquery(case["q"]), gres(obs["r"]))
        if case["kind"] == "reuse":
            return gapp("CReuse", gZ(obs["idx"]), gobj(case["op"], case["pre"]),
                        glist(glist(gwty(w) for w in u[1]) for u in case["uses"]), fw.gnat(case["j"]),
                        gquery(case["q"]), gres(obs["r"]))
        return gapp("CIndex", gZ(obs["idx"]), goz(obs["n"]), gquery(case["q"]), gres(obs["r"]))

    def nontrivial(self, case, obs):
        if case["kind"] in ("history", "builder", "bop", "reuse"):
            return True
        if case["kind"] == "porteq":
            return case["a"] != case["b"] or case["va"] != case["vb"]
        n, q = case["n"], case["q"]
        if n is None:
            return True
        if q[0] == "int":
            return q[1] < 0 or q[1] >= n
        if q[0] == "slice":
            return any(x is not None and (x < 0 or x > n) for x in q[1:3]) or (q[3] or 1) > 1
        return q[0] == "tuple"

    def describe(self, case, obs):
        return {"input": case, "observed": obs}

    def signature(self, case, obs, ctx):
        kind = case["kind"] + ("-" + case["shape"][0] if case["kind"] == "bop" else "")
        if case["kind"] == "reuse":
            kind += "-" + case["op"]
        return "nodeindex:" + kind + ":" + (case.get("q") or ["eq"])[0]

    def shrink(self, case):
        if case["kind"] == "history":
            for i in range(len(case["steps"])):
                yield {**case, "steps": case["steps"][:i] + case["steps"][i + 1:]}
        if case["kind"] == "bop":
            sh = case["shape"]
            if sh[0] == "call":
                _, fn, params, bi, bo, al = sh
                if fn != "declare":
                    yield {**case, "shape": ["call", "declare", params, bi, bo, al]}
                for i in range(len(bi)):
                    yield {**case, "shape": ["call", fn, params, bi[:i] + bi[i + 1:], bo, al]}
                for i in range(len(bo)):
                    yield {**case, "shape": ["call", fn, params, bi, bo[:i] + bo[i + 1:], al]}
                for i, l in enumerate(al):
                    if l:
                        yield {**case, "shape": ["call", fn, params, bi, bo, al[:i] + [l - 1] + al[i + 1:]]}
            else:
                for i in range(2, len(sh)):
                    if isinstance(sh[i], int) and not isinstance(sh[i], bool) and sh[i] > 0:
                        yield {**case, "shape": sh[:i] + [sh[i] - 1] + sh[i + 1:]}
            if case["q"] != ["iter"]:
                yield {**case, "q": ["iter"]}
        if case["kind"] == "reuse":
            uses, j = case["uses"], case["j"]
            for i in range(len(uses)):
                if i != j:
                    yield {**case, "uses": uses[:i] + uses[i + 1:], "j": j - (1 if i < j else 0)}
            if case["mode"] != "one":
                yield {**case, "mode": "one"}
            if case["op"] in ("unpack", "callind", "make") and case["pre"] is not None:
                yield {**case, "pre": None}
            for i, (api, w) in enumerate(uses):
                if api != "add_op":
                    yield {**case, "uses": uses[:i] + [["add_op", w]] + uses[i + 1:]}
                if case["op"] in ("unpack", "callind"):
                    # narrower tuple / fewer results / fewer arguments
                    f = w[0]
                    if f[-1] > 0:
                        yield {**case, "uses": uses[:i] + [[api, [f[:-1] + [f[-1] - 1]] + w[1:]]] + uses[i + 1:]}
                    if f[0] == "f" and f[1] > 0:
                        yield {**case, "uses": uses[:i] + [[api, [["f", f[1] - 1, f[2]]] + w[2:]]] + uses[i + 1:]}
                elif case["op"] in ("make", "noop"):
                    if case["op"] == "make" and w:
                        yield {**case, "uses": uses[:i] + [[api, w[:-1]]] + uses[i + 1:]}
                    for m, x in enumerate(w):
                        if x != "v":
                            yield {**case, "uses": uses[:i] + [[api, w[:m] + ["v"] + w[m + 1:]]] + uses[i + 1:]}
            if case["q"] != ["iter"]:
                yield {**case, "q": ["iter"]}

    def neighbours(self, case, rng):
        if case["kind"] == "reuse":
            n = reuse_count(case)
            for q in (["iter"], ["outputs"], ["int", -1], ["int", n - 1], ["int", n], ["slice", None, None, None]):
                yield {**case, "q": q}
            for _ in range(30):
                yield {**case, "q": gen_query(rng, n)}
        if case["kind"] == "bop":
            n = shape_count(case["shape"])
            for q in (["iter"], ["outputs"], ["int", -1], ["int", n - 1], ["int", n], ["slice", None, None, None]):
                yield {**case, "q": q}
            for _ in range(30):
                yield {**case, "q": gen_query(rng, n)}

    def distribution(self, cases, observations):
        d = {}
        for c, o in zip(cases, observations):
            sub = "-" + c["shape"][0] if c["kind"] == "bop" else "-" + c["op"] if c["kind"] == "reuse" else ""
            key = c["kind"] + sub + ":" + (c.get("q") or ["eq"])[0]
            d.setdefault(key, {"n": 0, "errors": 0})
            d[key]["n"] += 1
            if "r" in o and o["r"][0] == "err":
                d[key]["errors"] += 1
        return d


def _scenarios():
    from hugr import ops, tys, val
    from hugr.build.dfg import Dfg
    from hugr.build.cfg import Cfg
    from hugr.build.cond_loop import Conditional, TailLoop
    from hugr.build.function import Module
    from hugr.std.int import DivMod, INT_T
    from hugr.std.logic import Not

    def num_out(h, n, declared):
        # the expected count is what the scenario itself declares (Not: 1 value output, DivMod: 2, ...),
        # never the implementation's op.num_out
        return declared

    S = []

    def sc(f):
        S.append(f)
        return f

    @sc
    def add_op_not():
        d = Dfg(tys.Bool)
        n = d.add_op(Not, d.inputs()[0])
        return n, num_out(d, n, 1)

    @sc
    def add_divmod():
        d = Dfg(INT_T, INT_T)
        n = d.add(DivMod(*d.inputs()))
        return n, num_out(d, n, 2)

    @sc
    def extend_two():
        d = Dfg(tys.Bool, tys.Qubit)
        ns = d.extend(ops.Noop()(d.inputs()[0]), ops.MakeTuple()(*d.inputs()))
        return ns[1], num_out(d, ns[1], 1)

    @sc
    def unpack():
        d = Dfg(tys.Tuple(tys.Bool, tys.Qubit, tys.Bool))
        n = d.add(ops.UnpackTuple()(d.inputs()[0]))
        return n, num_out(d, n, 3)

    @sc
    def unpack_empty():
        d = Dfg(tys.Tuple())
        n = d.add(ops.UnpackTuple()(d.inputs()[0]))
        return n, num_out(d, n, 0)

    @sc
    def load_const():
        d = Dfg()
        n = d.load(val.TRUE)
        return n, num_out(d, n, 1)

    @sc
    def call_mono():
        m = Module()
        f = m.define_function("f", [tys.Bool], [tys.Bool, tys.Bool])
        f.set_outputs(f.inputs()[0], f.inputs()[0])
        g = m.define_function("g", [tys.Bool])
        n = g.call(f, g.inputs()[0])
        return n, num_out(g, n, 2)

    @sc
    def call_zero_out():
        m = Module()
        f = m.define_function("f", [tys.Bool], [])
        f.set_outputs()
        g = m.define_function("g", [tys.Bool])
        n = g.call(f, g.inputs()[0])
        return n, num_out(g, n, 0)

    @sc
    def load_func():
        m = Module()
        f = m.define_function("f", [tys.Bool], [tys.Bool])
        f.set_outputs(f.inputs()[0])
        g = m.define_function("g", [])
        n = g.load_function(f)
        return n, None if n._num_out_ports is None else num_out(g, n, 1)

    @sc
    def nested_add():
        d = Dfg(tys.Bool, tys.Bool)
        inner = d.add_nested(*d.inputs())
        inner.set_outputs(inner.inputs()[1], inner.inputs()[0], inner.inputs()[0])
        return inner.parent_node, 3

    @sc
    def nested_empty():
        d = Dfg(tys.Bool)
        inner = d.add_nested()
        inner.set_outputs()
        return inner.parent_node, 0

    @sc
    def nested_insert():
        d = Dfg(tys.Bool)
        inner = Dfg(tys.Bool)
        inner.set_outputs(inner.inputs()[0], inner.inputs()[0])
        n = d.insert_nested(inner, d.inputs()[0])
        return n, 2

    @sc
    def cfg_add():
        d = Dfg(tys.Bool)
        cfg = d.add_cfg(d.inputs()[0])
        with cfg.add_entry() as e:
            e.set_single_succ_outputs(e.inputs()[0], e.inputs()[0])
        cfg.branch_exit(e[0])
        return cfg.parent_node, 2

    @sc
    def cfg_insert():
        d = Dfg(tys.Bool)
        cfg = Cfg(tys.Bool)
        with cfg.add_entry() as e:
            e.set_single_succ_outputs(e.inputs()[0])
        cfg.branch_exit(e[0])
        n = d.insert_cfg(cfg, d.inputs()[0])
        return n, 1

    @sc
    def cond_add():
        d = Dfg(tys.Bool, tys.Qubit)
        c = d.add_conditional(*d.inputs())
        with c.add_case(0) as c0:
            c0.set_outputs(c0.inputs()[0], c0.load(val.TRUE))
        with c.add_case(1) as c1:
            c1.set_outputs(c1.inputs()[0], c1.load(val.FALSE))
        return c.parent_node, 2

    @sc
    def cond_insert():
        d = Dfg(tys.Bool)
        c = Conditional(tys.Bool, [])
        with c.add_case(0) as c0:
            c0.set_outputs()
        with c.add_case(1) as c1:
            c1.set_outputs()
        n = d.insert_conditional(c, d.inputs()[0])
        return n, 0

    @sc
    def loop_add():
        d = Dfg(tys.Bool, tys.Qubit)
        tl = d.add_tail_loop([d.inputs()[0]], [d.inputs()[1]])
        tl.set_loop_outputs(tl.load(val.Sum(1, tys.Sum([[tys.Bool], [tys.Bool, tys.Bool]]), [val.TRUE, val.FALSE])), tl.inputs()[1])
        return tl.parent_node, 3

    @sc
    def loop_insert():
        d = Dfg(tys.Qubit)
        tl = TailLoop([], [tys.Qubit])
        tl.set_loop_outputs(tl.load(val.UnitSum(1, 2)), tl.inputs()[0])
        n = d.insert_tail_loop(tl, [], [d.inputs()[0]])
        return n, 1

    return S


class _Lazy(list):
    def _fill(self):
        if not list.__len__(self):
            self.extend(_scenarios())

    def __len__(self):
        self._fill()
        return list.__len__(self)

    def __getitem__(self, i):
        self._fill()
        return list.__getitem__(self, i)


BUILDER_SCENARIOS = _Lazy()
PROP = C16()
