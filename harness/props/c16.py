"""C16 — Node handles enumerate exactly their value outputs (model: coq/model/NodeIndex.v)."""
import itertools

import fw
from fw import gZ, glist, gopt, gpair, gapp, gbool


def gres(r):
    if r[0] == "ok":
        return gapp("Ok", glist(gpair(gZ(i), gZ(o)) for i, o in r[1]))
    return gapp("Err", {"IndexError": "IndexError", "ValueError": "ValueError"}.get(r[1], "OtherError"))


def goz(x):
    return gopt(None if x is None else gZ(x))


def gquery(q):
    k = q[0]
    if k == "int":
        return gapp("QInt", gZ(q[1]))
    if k == "slice":
        return gapp("QSlice", goz(q[1]), goz(q[2]), goz(q[3]))
    if k == "tuple":
        return gapp("QTuple", glist(gZ(x) for x in q[1]))
    return {"iter": "QIter", "outputs": "QIter", "wire": "QWire"}[k]


def run_query(node, q):
    """Evaluates a query on a real handle; ports come back as (node idx, offset)."""
    try:
        k = q[0]
        if k == "int":
            ps = [node[q[1]]]
        elif k == "slice":
            ps = list(node[q[1]:q[2]:q[3]])
        elif k == "tuple":
            ps = list(node[tuple(q[1])])
        elif k == "iter":
            ps = list(node)
        elif k == "outputs":
            ps = list(node.outputs())
        elif k == "wire":
            ps = [node.out_port()]
        from hugr.hugr.node_port import OutPort
        assert all(type(p) is OutPort for p in ps)
        return ["ok", [[p.node.idx, p.offset] for p in ps]]
    except (IndexError, ValueError) as e:
        return ["err", type(e).__name__]
    except Exception as e:
        return ["err", "Other:" + type(e).__name__]


class C16(fw.Prop):
    id = "C16"
    props_file = "props/C16.v"
    run_file = "run/C16Run.v"
    run_module = "run.C16Run"
    shard = 1500
    rule = ("queries (int / slice / tuple index, iteration, outputs(), out_port) on real Node handles: "
            "exhaustive n<=5, bounds in -8..8 or None, step in None,0,1,2,3; random large values; handles "
            "returned by add_node with/without explicit count inside add/delete histories (index reuse), and "
            "by Dfg builder calls (add_op/add/extend/load/call/load_function/add_nested/insert_nested/"
            "add_cfg/insert_cfg/add_conditional/insert_conditional/add_tail_loop/insert_tail_loop), with n "
            "taken as the operation's num_out; port equality/hash pairs. non-trivial = query with a negative, "
            "overflowing or below -n bound, step>1, an unknown count, or a handle produced by a builder/history")
    trusted = ["for builder handles the expected count is read from the implementation's own op.num_out "
               "(C06 decides whether num_out itself is right); where num_out is not an int the number of outputs "
               "of outer_signature() is used"]

    def generate(self, rng, tier, ctx):
        cases = []
        B = [None] + list(range(-8, 9))
        nmax = 5 if tier == "quick" else 7
        for n in list(range(0, nmax + 1)) + [None]:
            for i in range(-10, 11):
                cases.append({"kind": "direct", "n": n, "q": ["int", i]})
            for a, b, s in itertools.product(B, B, [None, 0, 1, 2, 3]):
                if tier == "quick" and n is not None and n >= 4 and rng.random() < 0.5:
                    continue
                cases.append({"kind": "direct", "n": n, "q": ["slice", a, b, s]})
            cases.append({"kind": "direct", "n": n, "q": ["iter"]})
            cases.append({"kind": "direct", "n": n, "q": ["outputs"]})
            cases.append({"kind": "direct", "n": n, "q": ["wire"]})
            for _ in range(20):
                cases.append({"kind": "direct", "n": n,
                              "q": ["tuple", [rng.randint(-nmax - 1, nmax + 1) for _ in range(rng.randint(0, 4))]]})
        for _ in range(400 if tier == "quick" else 6000):
            n = rng.choice([None, rng.randint(0, 40), rng.randint(0, 10 ** 12)])
            big = lambda: rng.choice([None, rng.randint(-50, 50), rng.randint(-10 ** 13, 10 ** 13)])
            q = rng.choice([["int", big() or 0], ["slice", big(), big(), rng.choice([None, 1, 2, 7, 10 ** 6])]])
            if q[0] == "slice":
                # keep the enumerated range small
                if n is None:
                    q = ["slice", rng.choice([None, rng.randint(-3, 30)]), rng.choice([None, rng.randint(-3, 60)]), q[3]]
                elif n > 1000:
                    q[3] = max(1, n // 7)
            cases.append({"kind": "direct", "n": n, "q": q})
        # add/delete histories on a real Hugr: handle counts must not leak across index reuse
        for _ in range(150 if tier == "quick" else 2000):
            steps = []
            for _ in range(rng.randint(2, 10)):
                r = rng.random()
                if r < 0.3:
                    steps.append(["del", rng.randint(0, 5)])
                elif r < 0.65:
                    steps.append(["add", rng.randint(0, 4)])
                elif r < 0.8:
                    steps.append(["addconst"])
                else:
                    steps.append(["add", None])
            cases.append({"kind": "history", "steps": steps,
                          "q": rng.choice([["iter"], ["int", rng.randint(-3, 5)], ["slice", None, None, None],
                                           ["slice", rng.randint(-3, 3), None, 2]])})
        for k in range(len(BUILDER_SCENARIOS)):
            for q in (["iter"], ["int", -1], ["int", 0], ["slice", 1, None, None], ["outputs"]):
                cases.append({"kind": "builder", "scenario": k, "q": q})
        for _ in range(200 if tier == "quick" else 2000):
            a = [rng.randint(0, 3), rng.randint(-1, 2), rng.random() < 0.5]
            b = rng.choice([list(a), [rng.randint(0, 3), rng.randint(-1, 2), rng.random() < 0.5]])
            cases.append({"kind": "porteq", "a": a, "b": b, "va": rng.randint(0, 3), "vb": rng.randint(0, 3)})
        return cases

    def observe(self, case, ctx):
        from hugr.hugr import Hugr
        from hugr.hugr.node_port import Node, InPort, OutPort
        from hugr import ops, tys, val
        k = case["kind"]
        if k == "direct":
            n = case["n"]
            if n is None:
                h = Hugr()
                node = h.add_node(ops.Noop(tys.Bool))          # no explicit count
                if case["q"][0] in ("int",) and case["q"][1] % 2:
                    node = Node(7)                               # bare handle
            elif n <= 40:
                h = Hugr()
                node = h.add_node(ops.Noop(tys.Bool), num_outs=n)
            else:
                node = Node(3, _num_out_ports=n)
            return {"idx": node.idx, "n": n, "r": run_query(node, case["q"])}
        if k == "history":
            h = Hugr()
            live, last, last_n = [], None, None
            for st in case["steps"]:
                if st[0] == "del":
                    if live:
                        nd = live.pop(st[1] % len(live))
                        h.delete_node(nd)
                elif st[0] == "addconst":
                    last, last_n = h.add_const(val.TRUE), None
                    live.append(last)
                else:
                    last = h.add_node(ops.Noop(tys.Bool), num_outs=st[1])
                    last_n = st[1]
                    live.append(last)
            if last is None:
                last, last_n = h.add_node(ops.Noop(tys.Bool), num_outs=2), 2
            return {"idx": last.idx, "n": last_n, "r": run_query(last, case["q"])}
        if k == "builder":
            node, n = BUILDER_SCENARIOS[case["scenario"]]()
            return {"idx": node.idx, "n": n, "r": run_query(node, case["q"])}
        if k == "porteq":
            def mk(p, variant):
                idx, off, inc = p
                node = [Node(idx), Node(idx, {"m": 1}), Node(idx, _num_out_ports=5), Node(idx, {"x": []}, 0)][variant]
                return InPort(node, off) if inc else OutPort(node, off)
            a, b = mk(case["a"], case["va"]), mk(case["b"], case["vb"])
            return {"eq": bool(a == b), "hash_eq": hash(a) == hash(b)}
        raise AssertionError(k)

    def literal(self, case, obs, ctx):
        if case["kind"] == "porteq":
            gp = lambda p: gpair(gZ(p[0]), gZ(p[1]), gbool(p[2]))
            return gapp("CPortEq", gp(case["a"]), gp(case["b"]), gbool(obs["eq"]), gbool(obs["hash_eq"]))
        return gapp("CIndex", gZ(obs["idx"]), goz(obs["n"]), gquery(case["q"]), gres(obs["r"]))

    def nontrivial(self, case, obs):
        if case["kind"] in ("history", "builder"):
            return True
        if case["kind"] == "porteq":
            return case["a"] != case["b"] or case["va"] != case["vb"]
        n, q = case["n"], case["q"]
        if n is None:
            return True
        if q[0] == "int":
            return q[1] < 0 or q[1] >= n
        if q[0] == "slice":
            return any(x is not None and (x < 0 or x > n) for x in q[1:3]) or (q[3] or 1) > 1
        return q[0] == "tuple"

    def describe(self, case, obs):
        return {"input": case, "observed": obs}

    def signature(self, case, obs, ctx):
        return "nodeindex:" + case["kind"] + ":" + (case.get("q") or ["eq"])[0]

    def shrink(self, case):
        if case["kind"] == "history":
            for i in range(len(case["steps"])):
                yield {**case, "steps": case["steps"][:i] + case["steps"][i + 1:]}

    def distribution(self, cases, observations):
        d = {}
        for c, o in zip(cases, observations):
            key = c["kind"] + ":" + (c.get("q") or ["eq"])[0]
            d.setdefault(key, {"n": 0, "errors": 0})
            d[key]["n"] += 1
            if "r" in o and o["r"][0] == "err":
                d[key]["errors"] += 1
        return d


def _scenarios():
    from hugr import ops, tys, val
    from hugr.build.dfg import Dfg
    from hugr.build.cfg import Cfg
    from hugr.build.cond_loop import Conditional, TailLoop
    from hugr.build.function import Module
    from hugr.std.int import DivMod, INT_T
    from hugr.std.logic import Not

    def num_out(h, n):
        op = h.hugr[n].op
        v = op.num_out
        # LoadFunc.num_out is a dataclasses.Field on the original tree (C06's concern); the count the
        # handle must know is the number of value outputs of the operation's signature
        return v if isinstance(v, int) else len(op.outer_signature().output)

    S = []

    def sc(f):
        S.append(f)
        return f

    @sc
    def add_op_not():
        d = Dfg(tys.Bool)
        n = d.add_op(Not, d.inputs()[0])
        return n, num_out(d, n)

    @sc
    def add_divmod():
        d = Dfg(INT_T, INT_T)
        n = d.add(DivMod(*d.inputs()))
        return n, num_out(d, n)

    @sc
    def extend_two():
        d = Dfg(tys.Bool, tys.Qubit)
        ns = d.extend(ops.Noop()(d.inputs()[0]), ops.MakeTuple()(*d.inputs()))
        return ns[1], num_out(d, ns[1])

    @sc
    def unpack():
        d = Dfg(tys.Tuple(tys.Bool, tys.Qubit, tys.Bool))
        n = d.add(ops.UnpackTuple()(d.inputs()[0]))
        return n, num_out(d, n)

    @sc
    def unpack_empty():
        d = Dfg(tys.Tuple())
        n = d.add(ops.UnpackTuple()(d.inputs()[0]))
        return n, num_out(d, n)

    @sc
    def load_const():
        d = Dfg()
        n = d.load(val.TRUE)
        return n, num_out(d, n)

    @sc
    def call_mono():
        m = Module()
        f = m.define_function("f", [tys.Bool], [tys.Bool, tys.Bool])
        f.set_outputs(f.inputs()[0], f.inputs()[0])
        g = m.define_function("g", [tys.Bool])
        n = g.call(f, g.inputs()[0])
        return n, num_out(g, n)

    @sc
    def call_zero_out():
        m = Module()
        f = m.define_function("f", [tys.Bool], [])
        f.set_outputs()
        g = m.define_function("g", [tys.Bool])
        n = g.call(f, g.inputs()[0])
        return n, num_out(g, n)

    @sc
    def load_func():
        m = Module()
        f = m.define_function("f", [tys.Bool], [tys.Bool])
        f.set_outputs(f.inputs()[0])
        g = m.define_function("g", [])
        n = g.load_function(f)
        return n, None if n._num_out_ports is None else num_out(g, n)

    @sc
    def nested_add():
        d = Dfg(tys.Bool, tys.Bool)
        inner = d.add_nested(*d.inputs())
        inner.set_outputs(inner.inputs()[1], inner.inputs()[0], inner.inputs()[0])
        return inner.parent_node, 3

    @sc
    def nested_empty():
        d = Dfg(tys.Bool)
        inner = d.add_nested()
        inner.set_outputs()
        return inner.parent_node, 0

    @sc
    def nested_insert():
        d = Dfg(tys.Bool)
        inner = Dfg(tys.Bool)
        inner.set_outputs(inner.inputs()[0], inner.inputs()[0])
        n = d.insert_nested(inner, d.inputs()[0])
        return n, 2

    @sc
    def cfg_add():
        d = Dfg(tys.Bool)
        cfg = d.add_cfg(d.inputs()[0])
        with cfg.add_entry() as e:
            e.set_single_succ_outputs(e.inputs()[0], e.inputs()[0])
        cfg.branch_exit(e[0])
        return cfg.parent_node, 2

    @sc
    def cfg_insert():
        d = Dfg(tys.Bool)
        cfg = Cfg(tys.Bool)
        with cfg.add_entry() as e:
            e.set_single_succ_outputs(e.inputs()[0])
        cfg.branch_exit(e[0])
        n = d.insert_cfg(cfg, d.inputs()[0])
        return n, 1

    @sc
    def cond_add():
        d = Dfg(tys.Bool, tys.Qubit)
        c = d.add_conditional(*d.inputs())
        with c.add_case(0) as c0:
            c0.set_outputs(c0.inputs()[0], c0.load(val.TRUE))
        with c.add_case(1) as c1:
            c1.set_outputs(c1.inputs()[0], c1.load(val.FALSE))
        return c.parent_node, 2

    @sc
    def cond_insert():
        d = Dfg(tys.Bool)
        c = Conditional(tys.Bool, [])
        with c.add_case(0) as c0:
            c0.set_outputs()
        with c.add_case(1) as c1:
            c1.set_outputs()
        n = d.insert_conditional(c, d.inputs()[0])
        return n, 0

    @sc
    def loop_add():
        d = Dfg(tys.Bool, tys.Qubit)
        tl = d.add_tail_loop([d.inputs()[0]], [d.inputs()[1]])
        tl.set_loop_outputs(tl.load(val.Sum(1, tys.Sum([[tys.Bool], [tys.Bool, tys.Bool]]), [val.TRUE, val.FALSE])), tl.inputs()[1])
        return tl.parent_node, 3

    @sc
    def loop_insert():
        d = Dfg(tys.Qubit)
        tl = TailLoop([], [tys.Qubit])
        tl.set_loop_outputs(tl.load(val.UnitSum(1, 2)), tl.inputs()[0])
        n = d.insert_tail_loop(tl, [], [d.inputs()[0]])
        return n, 1

    return S


class _Lazy(list):
    def _fill(self):
        if not list.__len__(self):
            self.extend(_scenarios())

    def __len__(self):
        self._fill()
        return list.__len__(self)

    def __getitem__(self, i):
        self._fill()
        return list.__getitem__(self, i)


BUILDER_SCENARIOS = _Lazy()
PROP = C16()
