"""C15 — tracked wiring equals explicit wiring (model: coq/model/Tracked.v, spec: coq/spec/TrackedS.v).

A case is a TrackedDfg program.  Nodes are named by creation order (0 = Input, 1 = Output, k+2 = k-th
added node), wires are [node name, out offset], integer arguments are tracked indices.  observe() runs
the program on a real TrackedDfg, derives the explicit program (every integer replaced by the wire the
abstract binding history holds at that moment; the monitor re-derives it in Coq and compares) and runs
that on a real plain Dfg; both HUGRs are read back through the public API."""
import json

import fw
from fw import gZ, gN, glist, gopt, gpair, gapp, gbool

ERRS = {"IndexError": "(RErr EIndex)", "KeyError": "(RErr EKey)", "IncompleteOp": "(RErr EIncomplete)",
        "ValueError": "(RErr EValue)"}


# ------------------------------------------------------------------ program helpers (pure Python)

def op_out(spec):
    k = spec[0]
    if k == "custom":
        return spec[2]
    if k == "unpack":
        return spec[1]
    return 1


def is_int(a):
    return isinstance(a, int) and not isinstance(a, bool)


class Abs:
    """The abstract binding history of the specification, re-implemented for the harness: used by the
    generator (to produce mostly valid programs) and to derive the explicit program that is run."""

    def __init__(self, tys, track):
        self.tys = list(tys)
        self.table = []          # index -> wire or None
        self.cnt = 0             # nodes added
        self.nout = {0: len(tys)}
        self.wty = {(0, i): t for i, t in enumerate(tys)}   # wire -> type descriptor (generator only)
        if track:
            self.track_inputs()

    def track(self, w):
        self.table.append(tuple(w))

    def track_inputs(self):
        for i in range(len(self.tys)):
            self.track((0, i))

    def denotes(self, i):
        if i < 0 or i >= len(self.table):
            return None
        return self.table[i]

    def resolve(self, args):
        out = []
        for a in args:
            w = self.denotes(a) if is_int(a) else tuple(a)
            if w is None:
                return None
            out.append(w)
        return out

    def added(self, spec, args, ws):
        n = 2 + self.cnt
        self.cnt += 1
        self.nout[n] = op_out(spec)
        tys_in = [self.wty.get(w, "Q") for w in ws]
        if spec[0] == "custom":
            outs = ["Q"] * spec[2]
        elif spec[0] == "noop":
            outs = [tys_in[0] if tys_in else "Q"]
        elif spec[0] == "maketuple":
            outs = [["T", tys_in]]
        else:
            t = tys_in[0] if tys_in else "Q"
            outs = list(t[1]) if isinstance(t, list) else ["Q"] * spec[1]
        for j, t in enumerate(outs):
            self.wty[(n, j)] = t
        for j, a in enumerate(args):
            if is_int(a):
                self.table[a] = (n, j)
        return n

    def live(self):
        return [w for w in self.table if w is not None]

    def good(self, w):
        return w is not None and w[0] in self.nout and w[0] != 1 and w[1] < self.nout[w[0]]


def explicit(case):
    """Returns (plain program, complete?) — mirrors TrackedS.explicit_from (checked in Coq by mon)."""
    st = Abs(case["tys"], case["track"])
    q = []
    for c in case["prog"]:
        k = c[0]
        if k == "track_wire":
            st.track(c[1])
        elif k == "track_wires":
            for w in c[1]:
                st.track(w)
        elif k == "track_inputs":
            st.track_inputs()
        elif k == "untrack":
            if st.denotes(c[1]) is None:
                return q, False
            st.table[c[1]] = None
        elif k == "add":
            ws = st.resolve(c[3])
            if ws is None:
                return q, False
            q.append(["add", c[1], c[2], [list(w) for w in ws]])
            st.added(c[1], c[3], ws)
        elif k == "extend":
            for spec, args in c[1]:
                ws = st.resolve(args)
                if ws is None:
                    return q, False
                q.append(["add", spec, None, [list(w) for w in ws]])
                st.added(spec, args, ws)
        elif k == "set_indexed_outputs":
            ws = st.resolve(c[1])
            if ws is None:
                return q, False
            q.append(["set_outputs", [list(w) for w in ws]])
        elif k == "set_tracked_outputs":
            q.append(["set_outputs", [list(w) for w in st.live()]])
        else:
            raise AssertionError(k)
    return q, True


def expected_rets(case):
    """The values the calls hand back according to the abstract history (mirrors TrackedRetS.expected_rets; used for
    the signature of a failure only - the monitor computes them in Coq)."""
    st = Abs(case["tys"], case["track"])
    out = []
    for c in case["prog"]:
        k = c[0]
        if k == "track_wire":
            out.append(["idx", len(st.table)])
            st.track(c[1])
        elif k in ("track_wires", "track_inputs"):
            ws = c[1] if k == "track_wires" else [(0, i) for i in range(len(st.tys))]
            out.append(["idxs", list(range(len(st.table), len(st.table) + len(ws)))])
            for w in ws:
                st.track(w)
        elif k == "untrack":
            w = st.denotes(c[1])
            if w is None:
                break
            out.append(["wire", list(w)])
            st.table[c[1]] = None
        elif k == "add":
            ws = st.resolve(c[3])
            if ws is None:
                break
            out.append(["node", st.added(c[1], c[3], ws)])
        elif k == "extend":
            ns = []
            for spec, args in c[1]:
                ws = st.resolve(args)
                if ws is None:
                    return out
                ns.append(st.added(spec, args, ws))
            out.append(["nodes", ns])
        elif k == "set_indexed_outputs":
            if st.resolve(c[1]) is None:
                break
            out.append(["none"])
        else:
            out.append(["none"])
    return out


# ------------------------------------------------------------------ running the real builders

def mk_type(t):
    from hugr import tys
    if t == "Q":
        return tys.Qubit
    if t == "B":
        return tys.Bool
    if t == "U":
        return tys.Unit
    return tys.Tuple(*[mk_type(x) for x in t[1]])


def mk_op(spec):
    from hugr import ops, tys
    k = spec[0]
    if k == "custom":
        return ops.Custom(spec[3], tys.FunctionType([tys.Qubit] * spec[1], [tys.Qubit] * spec[2]), extension="verif.c15")
    if k == "noop":
        return ops.Noop()
    if k == "maketuple":
        return ops.MakeTuple()
    if k == "unpack":
        return ops.UnpackTuple()
    raise AssertionError(k)


ALIAS_FLAGS = ["com", "op", "inc", "meta", "iter", "again"]


class Pool:
    """The caller's Python objects of one case.  The property speaks about commands as values; the real
    builders receive objects, so how the harness shares them is part of the input (`case["alias"]`):
      com   - commands with the same operation and arguments are ONE Command object, added again and again
              (`c = Not(0); add(c); add(c)`, `extend(*[Not(1)] * 2)`)
      op    - commands with the same operation description share one operation object
      inc   - commands with the same argument list share one `incoming` list (Command(op, shared_list))
      meta  - equal metadata is one dict object handed to several adds
      iter  - track_wires receives a one-shot iterator instead of a list
      again - the whole tracked program is run a second time on a fresh TrackedDfg with the very same
              Command / metadata objects, position by position (objects handed to two builders)
    One Pool per side (tracked / plain): the two sides never share objects, they share the pattern.  The
    plain side follows the operation-sharing pattern of the tracked side position by position (`opplan`):
    a partial operation (Noop, MakeTuple, UnpackTuple) is completed in place by the builder, so one
    operation object in two nodes shows the types of its last use in both — in a plain Dfg just as in a
    TrackedDfg; the explicit program is "the same wires passed explicitly", with the same operations."""

    def __init__(self, alias, opplan=None, partial_ok=True):
        self.alias = frozenset(alias or ())
        # A shared partial operation is retyped by every use.  Types decide nothing in these programs except
        # for UnpackTuple (number of outputs, assertion on the input type), and the generator / the model
        # name outputs statically; so in a program with an UnpackTuple command the partial operations (and
        # the commands holding them) are fresh objects, Custom operations and their commands are shared.
        self.partial_ok = partial_ok
        self.coms, self.ops, self.incs, self.metas = {}, {}, {}, {}
        self.opids = {}
        self.made = []        # Command objects in the order the program asked for them
        self.made_ops = []    # per position: which operation object (ordinal of first appearance)
        self.opord = {}
        self.given = []       # metadata objects in the order the program gave them
        self.opplan = opplan  # plain side: made_ops of the tracked side
        self.planops = {}


class Runner:
    def __init__(self, builder, ctxi, pool=None, replay=False):
        self.d = builder
        self.handles = []
        self.pool = pool if pool is not None else Pool(None)
        self.opids = self.pool.opids
        self.I = ctxi
        self.replay = replay  # second builder: hand out the objects of the first run, position by position
        self.kc = 0
        self.km = 0
        self.rets = []        # (kind, raw value) of every call that returned, in program order
        self.ki = 0           # track_wires calls so far (the form of the one-shot iterator varies with it)

    def wire(self, w):
        from hugr.hugr.node_port import Node
        n, o = w
        if n == 0:
            return self.d.input_node.out(o)
        if n == 1:
            return self.d.output_node.out(o)
        if n - 2 < len(self.handles):
            return self.handles[n - 2].out(o)
        return Node(100000 + n).out(o)

    def arg(self, a):
        return a if is_int(a) else self.wire(a)

    def com(self, spec, args):
        P = self.pool
        if self.replay and self.kc < len(P.made):
            c = P.made[self.kc]
            self.kc += 1
            return c
        c = self._com(spec, args)
        P.made.append(c)
        P.made_ops.append(P.opord.setdefault(id(c.op), len(P.opord)))
        return c

    def _com(self, spec, args):
        from hugr.ops import Command
        P = self.pool
        key = json.dumps([spec, args])
        okey = json.dumps(spec)
        k = len(P.made)
        if P.opplan is not None:
            # plain side: no Command is shared (the explicit commands differ), operations as on the other side
            o = P.opplan[k] if k < len(P.opplan) else ("own", k)
            if o not in P.planops:
                P.planops[o] = mk_op(spec)
                self.opids[id(P.planops[o])] = (P.planops[o], self.I(("op", okey)))
            op = P.planops[o]
        elif "com" in P.alias and key in P.coms and (spec[0] == "custom" or P.partial_ok):
            return P.coms[key]
        elif "op" in P.alias and okey in P.ops and (spec[0] == "custom" or P.partial_ok):
            op = P.ops[okey]
        else:
            op = mk_op(spec)
            P.ops[okey] = op
            self.opids[id(op)] = (op, self.I(("op", okey)))
        if "inc" in P.alias:
            ikey = json.dumps(args)
            if ikey not in P.incs:
                P.incs[ikey] = [self.arg(a) for a in args]
            c = Command(op, P.incs[ikey])     # what op(*args) builds, with the caller's own list
        else:
            c = op(*[self.arg(a) for a in args])
        P.coms[key] = c
        return c

    def meta(self, m):
        P = self.pool
        if self.replay and self.km < len(P.given):
            m = P.given[self.km]
            self.km += 1
            return m
        if m is not None and "meta" in P.alias:
            m = P.metas.setdefault(json.dumps(m, sort_keys=True), m)
        P.given.append(m)
        return m

    def wires_arg(self, names):
        """The `wires: Iterable[Wire]` argument of track_wires.  Without the `iter` flag a list; with it a ONE-SHOT
        iterator (can be walked once), in the forms callers really write: `node.outputs()` / `iter(node)` when the
        wires are all the outputs of one added node in order, a node slice `node[a:b]` when they are consecutive
        outputs of one node, otherwise a generator expression or iter(list), alternating."""
        ws = [self.wire(w) for w in names]
        if "iter" not in self.pool.alias:
            return ws
        self.ki += 1
        if names and all(w[0] == names[0][0] for w in names) and 2 <= names[0][0] < 2 + len(self.handles) \
                and [w[1] for w in names] == list(range(names[0][1], names[0][1] + len(names))):
            n = self.handles[names[0][0] - 2]
            a, b = names[0][1], names[0][1] + len(names)
            want = [(x.out_port().node.idx, x.out_port().offset) for x in ws]

            def same(it):
                # the public Node API must give exactly these wires (otherwise it is not the call the case describes)
                try:
                    return [(x.node.idx, x.offset) for x in it] == want
                except Exception:
                    return False
            if a == 0 and same(n.outputs()):
                return n.outputs() if self.ki % 2 else iter(n)
            if same(n[a:b]):
                return n[a:b]
        return (w for w in ws) if self.ki % 2 else iter(ws)

    def canon_ret(self, kind, v, names):
        """A returned value as the property can speak about it (indices, node / wire names); None = of another shape."""
        def isint(x):
            return isinstance(x, int) and not isinstance(x, bool)

        def node(x):
            return names.get(x.idx, 99999) if hasattr(x, "idx") and isint(x.idx) else None
        try:
            if kind == "none":
                return ["none"] if v is None else None
            if kind == "idx":
                return ["idx", v] if isint(v) else None
            if kind == "idxs":
                return ["idxs", list(v)] if isinstance(v, (list, tuple)) and all(isint(x) for x in v) else None
            if kind == "wire":
                p = v.out_port()
                return ["wire", [names.get(p.node.idx, 99999), p.offset]] if isint(p.offset) and p.offset >= 0 else None
            if kind == "node":
                n = node(v)
                return None if n is None else ["node", n]
            if kind == "nodes":
                ns = [node(x) for x in v] if isinstance(v, (list, tuple)) else [None]
                return None if any(n is None for n in ns) else ["nodes", ns]
        except Exception:
            return None
        raise AssertionError(kind)

    def observe(self, res, tracked):
        from hugr.hugr.node_port import Node
        d, h = self.d, self.d.hugr
        nodes = list(h)
        extra = 0
        names = {}
        if len(nodes) < 3 or nodes[0].idx != d.parent_node.idx or nodes[1].idx != d.input_node.idx \
                or nodes[2].idx != d.output_node.idx:
            extra += 1
        names[d.input_node.idx] = 0
        names[d.output_node.idx] = 1
        rest = [n for n in nodes if n.idx not in (d.parent_node.idx, d.input_node.idx, d.output_node.idx)]
        for k, n in enumerate(rest):
            names[n.idx] = k + 2

        def ser(n):
            data = h[n]
            try:
                s = data.op._to_serial(Node(0)).model_dump_json()
            except Exception as e:  # incomplete operation etc.
                s = "EXC:" + type(e).__name__
            return self.I(("ser", s, data._num_inps, data._num_outs,
                           h.num_in_ports(n), h.num_out_ports(n), names.get(data.parent.idx, -1) if data.parent else -2))

        io = [ser(n) for n in nodes[:3]]
        onodes = []
        for n in rest:
            data = h[n]
            ent = self.opids.get(id(data.op))
            oid = ent[1] if ent is not None and ent[0] is data.op else self.I(("unknown-op", repr(data.op)))
            meta = sorted((self.I(("k", k)), self.I(("v", json.dumps(v, sort_keys=True, default=repr))))
                          for k, v in data.metadata.items())
            onodes.append([oid, ser(n), [list(m) for m in meta]])
        links = []
        for src, dst in h.links():
            if src.offset < 0 or dst.offset < 0 or src.node.idx not in names or dst.node.idx not in names:
                extra += 1
                continue
            links.append([[names[src.node.idx], src.offset], [names[dst.node.idx], dst.offset]])
        tr = None
        if tracked:
            tr = []
            for i, w in enumerate(d.tracked):
                if w is None:
                    tr.append(None)
                else:
                    p = w.out_port()
                    tr.append([names.get(p.node.idx, 99999), p.offset])
                # the public reader of one index agrees with the list: the wire, or IndexError for a hole
                try:
                    got = d.tracked_wire(i)
                except IndexError:
                    got = None
                if (got is None) != (w is None) or (w is not None and got != w):
                    extra += 1
        rets = [self.canon_ret(k, v, names) for k, v in self.rets]
        return {"io": io, "nodes": onodes, "links": sorted(links), "tracked": tr, "res": res, "extra": extra,
                "rets": rets}


def run_tracked(case, I, pool=None, replay=False):
    from hugr.build.tracked_dfg import TrackedDfg
    d = TrackedDfg(*[mk_type(t) for t in case["tys"]], track_inputs=case["track"])
    r = Runner(d, I, pool, replay)
    res = "ok"
    try:
        for c in case["prog"]:
            k = c[0]
            # every value a call hands back is kept: the indices returned by track_wire(s) / track_inputs ARE the
            # integers later commands use
            if k == "track_wire":
                r.rets.append(("idx", d.track_wire(r.wire(c[1]))))
            elif k == "track_wires":
                r.rets.append(("idxs", d.track_wires(r.wires_arg(c[1]))))
            elif k == "track_inputs":
                r.rets.append(("idxs", d.track_inputs()))
            elif k == "untrack":
                r.rets.append(("wire", d.untrack_wire(c[1])))
            elif k == "add":
                n = d.add(r.com(c[1], c[3]), metadata=r.meta(c[2]))
                r.handles.append(n)
                r.rets.append(("node", n))
            elif k == "extend":
                ns = d.extend(*[r.com(spec, args) for spec, args in c[1]])
                r.handles.extend(ns)
                r.rets.append(("nodes", ns))
            elif k == "set_indexed_outputs":
                r.rets.append(("none", d.set_indexed_outputs(*[r.arg(a) for a in c[1]])))
            elif k == "set_tracked_outputs":
                r.rets.append(("none", d.set_tracked_outputs()))
            else:
                raise AssertionError(k)
    except Exception as e:
        res = type(e).__name__
    return r.observe(res, True)


def run_plain(case, q, I, opplan=None):
    from hugr.build.dfg import Dfg
    d = Dfg(*[mk_type(t) for t in case["tys"]])
    r = Runner(d, I, Pool([f for f in case.get("alias") or () if f != "again"], opplan or []))
    res = "ok"
    try:
        for c in q:
            if c[0] == "add":
                n = d.add(r.com(c[1], c[3]), metadata=r.meta(c[2]))
                r.handles.append(n)
            else:
                d.set_outputs(*[r.wire(w) for w in c[1]])
    except Exception as e:
        res = type(e).__name__
    return r.observe(res, False)


# ------------------------------------------------------------------ literals

def gwire(w):
    return gpair(gN(w[0]), gN(w[1]))


def garg(a):
    return gapp("AI", gZ(a)) if is_int(a) else gapp("AW", gwire(a))


class Lit:
    def __init__(self, I):
        self.I = I

    def op(self, spec):
        return gapp("mkOp", gN(self.I(("op", json.dumps(spec)))), gN(op_out(spec)))

    def meta(self, m):
        if not m:
            return "[]"
        ent = sorted((self.I(("k", k)), self.I(("v", json.dumps(v, sort_keys=True, default=repr)))) for k, v in m.items())
        return glist(gpair(gN(a), gN(b)) for a, b in ent)

    def cmd(self, c):
        k = c[0]
        if k == "track_wire":
            return gapp("TrackWire", gwire(c[1]))
        if k == "track_wires":
            return gapp("TrackWires", glist(gwire(w) for w in c[1]))
        if k == "track_inputs":
            return "TrackInputs"
        if k == "untrack":
            return gapp("Untrack", gZ(c[1]))
        if k == "add":
            return gapp("Add", self.op(c[1]), self.meta(c[2]), glist(garg(a) for a in c[3]))
        if k == "extend":
            return gapp("Extend", glist(gpair(self.op(s), glist(garg(a) for a in args)) for s, args in c[1]))
        if k == "set_indexed_outputs":
            return gapp("SetIndexedOutputs", glist(garg(a) for a in c[1]))
        if k == "set_tracked_outputs":
            return "SetTrackedOutputs"
        raise AssertionError(k)

    def pcmd(self, c):
        if c[0] == "add":
            return gapp("PAdd", self.op(c[1]), self.meta(c[2]), glist(gwire(w) for w in c[3]))
        return gapp("PSetOutputs", glist(gwire(w) for w in c[1]))

    def obs(self, o):
        return gapp("mkObs", glist(gN(x) for x in o["io"]),
                    glist(gpair(gN(a), gN(b), glist(gpair(gN(k), gN(v)) for k, v in m)) for a, b, m in o["nodes"]),
                    glist(gpair(gwire(s), gpair(gN(d[0]), gN(d[1]))) for s, d in o["links"]),
                    glist(gopt(None if w is None else gwire(w)) for w in (o["tracked"] or [])),
                    "ROk" if o["res"] == "ok" else ERRS.get(o["res"], "ROther"),
                    gN(o["extra"]),
                    glist(gopt(None if r is None else self.ret(r)) for r in o.get("rets") or []))

    def ret(self, r):
        k = r[0]
        if k == "none":
            return "RNone"
        if k == "idx":
            return gapp("RIdx", gZ(r[1]))
        if k == "idxs":
            return gapp("RIdxs", glist(gZ(i) for i in r[1]))
        if k == "wire":
            return gapp("RWire", gwire(r[1]))
        if k == "node":
            return gapp("RNode", gN(r[1]))
        if k == "nodes":
            return gapp("RNodes", glist(gN(n) for n in r[1]))
        raise AssertionError(k)



# ------------------------------------------------------------------ composition with C01 (second pass)
# C15_tracked_programs_valid (coq/props/C15.v) carries C01's validity theorem over to the tracked builder.  Its
# premises and its conclusion are evaluated (coq/run/C15ValidRun.v) on the tracked-builder programs of C01's own
# generator (harness/progs.py gen_tracked_program), run on the real TrackedDfg: the theorem must speak about what is
# generated there, and the document hugr-py serialises must be the one the composed models produce.

def tdfg_to_c15(p):
    """A tracked-builder program of harness/progs.py -> {"tys", "track", "prog" (C15's language), "ops" (operation
    description of every added node in creation order)}; None when it uses a call outside the fragment of the
    theorem (load) or does not end with its only set_*_outputs."""
    sts = p["stmts"]
    if not sts or sts[-1]["k"] != "tout" or any(s["k"] == "tout" for s in sts[:-1]):
        return None
    if any(s["k"] not in ("tadd", "track", "untrack", "tout") for s in sts):
        return None
    wires = {w: (0, j) for j, w in enumerate(p["in_wires"])}
    track = bool(p.get("track_inputs", True))
    table = [(0, j) for j in range(len(p["ins"]))] if track else []
    prog, ops, cnt = [], [], 0
    if not track:
        for w in p.get("track_these", []):
            prog.append(["track_wire", list(wires[w])])
            table.append(wires[w])

    def A(args):
        return [a[1] if a[0] == "i" else list(wires[a[1]]) for a in args]
    for st in sts:
        k = st["k"]
        if k == "tadd":
            op = st["op"]
            if op[0] != "custom":
                return None
            spec = ["custom", len(op[2]), len(op[3]), op[1] + ":" + json.dumps([op[2], op[3]])]
            args = A(st["args"])
            n = 2 + cnt
            cnt += 1
            ops.append(op)
            if st.get("via") == "extend":
                prog.append(["extend", [[spec, args]]])
            else:
                prog.append(["add", spec, st.get("md"), args])
            for j, a in enumerate(st["args"]):
                if a[0] == "i":
                    table[a[1]] = (n, j)
            for j, w in enumerate(st["outs"]):
                if w is not None:
                    wires[w] = (n, j)
        elif k == "track":
            prog.append(["track_wire", list(wires[st["w"]])])
            table.append(wires[st["w"]])
        elif k == "untrack":
            wires[st["out"]] = table[st["idx"]]
            table[st["idx"]] = None
            prog.append(["untrack", st["idx"]])
        else:
            prog.append(["set_tracked_outputs"] if st["mode"] == "tracked" else ["set_indexed_outputs", A(st["args"])])
    return {"tys": p["ins"], "track": track, "prog": prog, "ops": ops}


def tdfg_literal(L, p, t):
    """the TCase literal of coq/run/C15ValidRun.v: runs p on the real TrackedDfg (through C01's interpreter), takes
    the document it serialises and interns the types of the program in the document's type table"""
    from props import c01
    d1, _ = c01.build_docs(p)
    c = c01.conv_doc(c01.strip_doc(d1))
    tab = c["tab"]
    ins = [tab.ty(c01.ser_ty(x)) for x in t["tys"]]
    specs = [gapp("OFixed", c01.grow([tab.ty(c01.ser_ty(x)) for x in op[2]]),
                  c01.grow([tab.ty(c01.ser_ty(x)) for x in op[3]])) for op in t["ops"]]
    tab.recompute_copy()
    return gapp("TCase", c01.gtab(tab), c01.grow(ins), glist(specs), gbool(t["track"]),
                glist(L.cmd(x) for x in t["prog"]), c01.ggraph(c["main"]))

# ------------------------------------------------------------------ generator

META_KEYS = ["name", "loc", "k", "unicode-é", ""]


def rand_meta(rng):
    r = rng.random()
    if r < 0.45:
        return None
    if r < 0.5:
        return {}
    m = {}
    for _ in range(rng.randint(1, 3)):
        m[rng.choice(META_KEYS)] = rng.choice([0, 1, -7, "x", "", [1, 2], {"a": [None, True]}, 3.5, None])
    return m


def rand_prog(rng, width=None, malformed=False, length=None, reuse=0.0, outs=0.0):
    """reuse > 0: earlier commands come back (same operation and same arguments, or the same operation
    with new arguments) — with case["alias"] these are the same Python objects.  outs > 0: track_wires of
    consecutive outputs of one node (what callers pass as `node.outputs()` / `node[a:b]`).  No extra draw is
    made from rng when reuse == 0 and outs == 0, so the streams of the other generators are what they were."""
    width = rng.randint(1, 8) if width is None else width
    tys = [rng.choice(["Q", "Q", "B", "U"]) for _ in range(width)]
    track = rng.random() < 0.6
    st = Abs(tys, track)
    prog = []
    n_cmds = length if length is not None else rng.choice([1, 2, 3, 4, 6, 8, 10, 14])
    bad_at = rng.randrange(n_cmds) if malformed else -1
    names = ["h", "cx", "rz", "m"]

    limit = [None]   # inside one extend call the commands are built before any of them runs: a wire
                     # argument cannot name a node created by the same call (not expressible in Python)

    def good_wires():
        ws = []
        for n, k in st.nout.items():
            if n != 1 and (limit[0] is None or n < limit[0]):
                ws.extend((n, j) for j in range(k))
        return ws

    def live_idx(good_only=True):
        return [i for i, w in enumerate(st.table) if w is not None and (st.good(w) or not good_only)]

    def pick_wire():
        ws = good_wires()
        return list(rng.choice(ws)) if ws else [0, 0]

    def bad_int():
        opts = [-1, -len(st.table) if st.table else -2, len(st.table), len(st.table) + 3]
        opts += [i for i, w in enumerate(st.table) if w is None]
        return rng.choice(opts)

    def pick_args(n, bad=False):
        args = []
        live = live_idx()
        for _ in range(n):
            if live and rng.random() < 0.65:
                args.append(rng.choice(live))
            else:
                args.append(pick_wire())
        if bad and args:
            j = rng.randrange(len(args))
            r = rng.random()
            if r < 0.6:
                args[j] = bad_int()
            elif r < 0.75:
                args[j] = [2 + st.cnt + 40 + rng.randint(0, 2), 0]     # node that does not exist
            elif r < 0.85:
                args[j] = [1, 0]                                        # the Output node as a source
            else:
                dl = [i for i in live_idx(False) if not st.good(st.table[i])]
                args[j] = rng.choice(dl) if dl else [0, len(tys) + rng.randint(0, 2)]   # dangling port
        return args

    def pick_op(bad=False):
        r = rng.random()
        tup = [i for i in live_idx() if isinstance(st.wty.get(st.table[i]), list)]
        if r < 0.08 and tup:
            i = rng.choice(tup)
            t = st.wty[st.table[i]]
            return ["unpack", len(t[1])], [i if (rng.random() < 0.7 or limit[0] is not None) else list(st.table[i])]
        if r < 0.2:
            return ["noop"], pick_args(1, bad)
        if r < 0.32:
            args = pick_args(rng.randint(0, 4), bad)
            if rng.random() < 0.9:      # one output only: an integer at a later position would dangle
                args = [a if (j == 0 or not is_int(a) or st.denotes(a) is None) else
                        (list(st.denotes(a)) if limit[0] is None or st.denotes(a)[0] < limit[0] else pick_wire())
                        for j, a in enumerate(args)]
            return ["maketuple"], args
        n_in = rng.choice([0, 1, 1, 2, 2, 3, 4])
        args = pick_args(n_in if rng.random() < 0.95 else rng.randint(0, 5), bad)
        int_pos = [j for j, a in enumerate(args) if is_int(a)]
        need = (max(int_pos) + 1) if int_pos else 0
        n_out = rng.randint(need, max(need, 4)) if rng.random() < 0.96 else rng.randint(0, 4)
        return ["custom", n_in, n_out, rng.choice(names)], args

    def apply_add(spec, args):
        ws = st.resolve(args)
        if ws is None:
            return False
        st.added(spec, args, ws)
        return True

    seen = []    # [spec, args] of the commands so far

    def fits(spec, args):
        # mostly valid programs: integers live, wires allowed here, no integer beyond the outputs
        for j, a in enumerate(args):
            if is_int(a):
                if not st.good(st.denotes(a)) or j >= op_out(spec):
                    return False
            elif limit[0] is not None and a[0] >= limit[0]:
                return False
        return spec[0] != "unpack"

    def pick_op_reuse(bad):
        if reuse and seen and not bad and rng.random() < reuse:
            r = rng.random()
            if r < 0.7:                                   # the same command once more
                # (an UnpackTuple command is never replayed: its number of outputs is that of the wire's type)
                cands = [c for c in seen if fits(*c)] if rng.random() < 0.9 else \
                    [c for c in seen if c[0][0] != "unpack"]
                if cands:
                    spec, args = rng.choice(cands[-4:] if rng.random() < 0.6 else cands)
                    return list(spec), [a if is_int(a) else list(a) for a in args]
            spec = rng.choice(seen)[0]                    # the same operation, other arguments
            if spec[0] == "custom":
                args = pick_args(spec[1])
                args = [a if (not is_int(a) or j < spec[2]) else pick_wire() for j, a in enumerate(args)]
                return list(spec), args
            if spec[0] == "noop":
                return ["noop"], pick_args(1)
        return pick_op(bad)

    def node_outputs():
        # outs > 0: track_wires of consecutive outputs of ONE node (all of them: `node.outputs()`, or a slice
        # `node[a:b]`) - what a caller passes as a one-shot iterator.  No draw from rng when outs == 0.
        cands = [n for n, k in st.nout.items() if n != 1 and k >= 1]
        if not cands:
            return None
        n = rng.choice(cands[-3:] if rng.random() < 0.7 else cands)
        k = st.nout[n]
        if rng.random() < 0.6:
            a, b = 0, k
        else:
            a = rng.randrange(k)
            b = rng.randint(a, k)
        return [[n, j] for j in range(a, b)]

    alive = True
    for ci in range(n_cmds):
        bad = ci == bad_at
        r = rng.random()
        if not alive:
            # keep generating after the point where the builder must have stopped: commands after an
            # error are never executed, both sides agree on that
            prog.append(["track_inputs"])
            continue
        if r < 0.5:
            spec, args = pick_op_reuse(bad)
            m = rand_meta(rng)
            if reuse:
                old = [c[2] for c in prog if c[0] == "add" and c[2]]
                if old and rng.random() < 0.3:
                    m = json.loads(json.dumps(rng.choice(old)))
            prog.append(["add", spec, m, args])
            seen.append([spec, args])
            alive = apply_add(spec, args)
        elif r < 0.6:
            coms = []
            limit[0] = 2 + st.cnt
            for _ in range(rng.randint(0, 3)):
                spec, args = pick_op_reuse(bad and rng.random() < 0.5)
                coms.append([spec, args])
                seen.append([spec, args])
                if alive:
                    alive = apply_add(spec, args)
                while reuse and alive and len(coms) < 5 and fits(spec, args) and rng.random() < 0.35:
                    coms.append([list(spec), [a if is_int(a) else list(a) for a in args]])   # [c] * k
                    alive = apply_add(spec, args)
            limit[0] = None
            prog.append(["extend", coms])
        elif r < 0.68 and not (outs and rng.random() < outs):
            w = pick_wire()
            prog.append(["track_wire", w])
            st.track(w)
        elif r < 0.73:
            ws = node_outputs() if outs and rng.random() < 0.85 else None
            if ws is None:
                ws = [pick_wire() for _ in range(rng.randint(0, 3))]
            prog.append(["track_wires", ws])
            for w in ws:
                st.track(w)
        elif r < 0.77:
            prog.append(["track_inputs"])
            st.track_inputs()
        elif r < 0.89:
            live = live_idx(False)
            if not bad and not live:
                prog.append(["track_inputs"])
                st.track_inputs()
                continue
            i = bad_int() if bad else rng.choice(live)
            prog.append(["untrack", i])
            if st.denotes(i) is None:
                alive = False
            else:
                st.table[i] = None
        elif r < 0.95:
            live = live_idx()
            args = []
            for _ in range(rng.randint(0, 4)):
                args.append(rng.choice(live) if live and rng.random() < 0.7 else pick_wire())
            if bad and args:
                args[rng.randrange(len(args))] = bad_int()
            prog.append(["set_indexed_outputs", args])
            alive = st.resolve(args) is not None
        else:
            prog.append(["set_tracked_outputs"])
    if alive and rng.random() < 0.6:
        prog.append(["set_tracked_outputs"] if rng.random() < 0.6 else
                    ["set_indexed_outputs", [i for i in live_idx()][: rng.randint(0, 8)]])
    return {"tys": tys, "track": track, "prog": prog}


def has_unpack(case):
    return any(spec[0] == "unpack" for c in case["prog"]
               for spec in ([c[1]] if c[0] == "add" else [x[0] for x in c[1]] if c[0] == "extend" else []))


def wellnamed(case):
    """track_wire(s) stores a wire without looking at it; a candidate of the shrinker in which such a wire
    names a node that is not there yet (its add was deleted) is not a program the names can express."""
    cnt = 0
    for c in case["prog"]:
        if c[0] == "add":
            cnt += 1
        elif c[0] == "extend":
            cnt += len(c[1])
        elif c[0] in ("track_wire", "track_wires"):
            for w in ([c[1]] if c[0] == "track_wire" else c[1]):
                if w[0] >= 2 + cnt:
                    return False
    return True


def rand_alias(rng):
    r = rng.random()
    if r < 0.15:
        return [rng.choice(ALIAS_FLAGS)]
    if r < 0.3:
        return list(ALIAS_FLAGS)
    fl = [f for f in ALIAS_FLAGS if rng.random() < (0.75 if f == "com" else 0.5)]
    return fl or ["com"]


class C15(fw.Prop):
    id = "C15"
    props_file = "props/C15.v"
    run_file = "run/C15Run.v"
    run_module = "run.C15Run"
    shard = 200
    rule = ("random TrackedDfg programs over circuits of width 1-8 (Qubit/Bool/Unit inputs): add / extend with "
            "Custom ops of arity 0-4 -> 0-4, Noop, MakeTuple, UnpackTuple, mixed integer and wire arguments, "
            "repeated integers, metadata (None, {}, nested JSON), track_wire(s)/track_inputs, untrack (holes), "
            "set_indexed_outputs / set_tracked_outputs anywhere; a malformed stream injects one untracked / "
            "negative / retired index, a missing node, the Output node as a source or a dangling port.  Both "
            "the tracked program and the explicit program are run on the real builders.  Object reuse: a "
            "stream in which earlier commands come back (same operation and arguments, [c]*k inside one "
            "extend, same operation with new arguments, same metadata) and case['alias'] decides which of "
            "them are ONE Python object (Command, operation, incoming list, metadata dict), whether "
            "track_wires gets a one-shot iterator, and whether the same objects are then handed to a second "
            "TrackedDfg (Case2: both observations are monitored); 40% of the other streams get alias flags "
            "too.  Returned values: what every call hands back (track_wire -> index, track_wires / track_inputs "
            "-> index list, untrack_wire -> wire, add -> node, extend -> nodes, set_* -> None) is observed and "
            "compared with the abstract history; a stream of 150 / 1500 programs tracks consecutive outputs of one "
            "node and passes them as node.outputs() / iter(node) / node[a:b] / a generator (flag iter).  "
            "non-trivial = an "
            "integer argument is used after an earlier add rebound it, or a hole exists, or metadata is given, "
            "or the run ends in an exception.  Second pass (extra): 150 / 1500 tracked-builder programs of C01's "
            "generator (harness/progs.py gen_tracked_program) run on the real TrackedDfg; those without load are "
            "translated to this property's language and the premises (wf_prog of the explicit translation, twf) and the "
            "conclusion (Builder.run == hugr-py's document, valid) of C15_tracked_programs_valid are evaluated in Coq")
    trusted = ["node naming by creation order: the harness maps names to the Node handles the builders return",
               "operations are observed through _to_serial(...).model_dump_json() plus the node's port counts; "
               "metadata values through json.dumps",
               "the plain-builder model (wire_up_port) is shared by both sides of the simulation theorem; it is "
               "tied to Dfg.add/set_outputs by the correspondence on the explicit programs",
               "returned values are canonicalised by the harness: int -> index, list/tuple of int -> index list, "
               "Wire -> (node name, offset), Node -> node name; any other shape is 'unrecognised' and fails",
               "object reuse (case['alias']) is realised by the harness: the plain builder gets its own objects "
               "with the tracked side's operation-sharing pattern; partial operations are not shared in programs "
               "with an UnpackTuple command"]
    assumptions = ["one flat dataflow region (all wires are siblings); wires name nodes by creation order",
                   "composition with C01: the typed operation descriptions (specs) and the type table are supplied by "
                   "the harness (C01's Tab interning of the serialised document); load / nested regions are outside the "
                   "fragment of C15_tracked_programs_valid"]

    def __init__(self):
        self.I = fw.Interner()
        self.L = Lit(self.I)

    def corpus(self, ctx):
        c = ["custom", 1, 1, "h"]
        return [
            # D19: metadata given to TrackedDfg.add was dropped
            {"tys": ["Q"], "track": True, "prog": [["add", c, {"name": "x"}, [0]]]},
            {"tys": ["Q", "B"], "track": False, "prog": [["add", ["custom", 0, 1, "m"], {"k": [1, 2]}, []]]},
            # D29: negative integers aliased the last tracked wire
            {"tys": ["Q", "Q"], "track": True, "prog": [["add", c, None, [-1]]]},
            {"tys": ["Q", "Q"], "track": True, "prog": [["untrack", -2]]},
            {"tys": ["Q", "Q"], "track": True, "prog": [["set_indexed_outputs", [0, -1]]]},
            {"tys": ["Q"], "track": True, "prog": [["untrack", 0], ["track_wire", [0, 0]], ["add", c, None, [-1]]]},
            # rebinding beyond the outputs of the operation: the index names a port that does not exist
            {"tys": ["Q", "Q"], "track": True, "prog": [["add", ["custom", 2, 1, "cx"], None, [0, 1]],
                                                         ["add", c, None, [1]]]},
            # holes, repeated integers, extend, outputs in index order
            {"tys": ["Q", "B", "Q"], "track": True,
             "prog": [["untrack", 1], ["add", ["custom", 2, 2, "cx"], {"name": "a"}, [2, 0]],
                      ["extend", [[["custom", 2, 2, "cx"], [0, 0]], [["maketuple"], [2, [0, 1]]]]],
                      ["track_wire", [0, 1]], ["set_tracked_outputs"]]},
            # seeded C15-f: the caller's objects come back.  One Command object added twice ...
            {"tys": ["Q"], "track": True, "alias": ["com"], "prog": [["add", c, None, [0]], ["add", c, None, [0]]]},
            # ... twice within one extend (extend(*[H(1)] * 2)) ...
            {"tys": ["Q", "Q"], "track": True, "alias": ["com"],
             "prog": [["extend", [[c, [1]], [c, [1]]]], ["set_tracked_outputs"]]},
            # ... with other commands in between, metadata on both uses, mixed wire / integer arguments
            {"tys": ["B", "B"], "track": True, "alias": ["com", "op", "meta"],
             "prog": [["add", ["custom", 2, 2, "cx"], {"k": "a"}, [0, [0, 1]]], ["add", ["noop"], None, [1]],
                      ["add", ["custom", 2, 2, "cx"], {"k": "b"}, [0, [0, 1]]], ["extend", [[c, [1]], [c, [1]]]],
                      ["set_tracked_outputs"]]},
            # the same Command objects handed to a second builder
            {"tys": ["Q"], "track": True, "alias": ["again"], "prog": [["add", c, {"k": 1}, [0]], ["set_tracked_outputs"]]},
            # one `incoming` list in two commands; one operation object in commands on wires of different type;
            # one metadata dict for two nodes; a one-shot iterator for track_wires
            {"tys": ["Q", "Q"], "track": True, "alias": ["inc"],
             "prog": [["add", c, None, [1]], ["add", ["custom", 1, 1, "rz"], None, [1]], ["set_tracked_outputs"]]},
            {"tys": ["Q", "B"], "track": True, "alias": ["op", "again"],
             "prog": [["add", ["noop"], None, [0]], ["add", ["noop"], None, [1]], ["add", ["maketuple"], None, [0, [3, 0]]],
                      ["add", ["maketuple"], None, [[0, 0]]]]},
            {"tys": ["Q"], "track": True, "alias": ["meta", "again"],
             "prog": [["add", c, {"name": [1, {"a": None}]}, [0]], ["add", c, {"name": [1, {"a": None}]}, [0]]]},
            # second pass: the same index / wire several times among the outputs (copyable values), mixed with wires
            {"tys": ["B", "B"], "track": True, "prog": [["set_indexed_outputs", [0, 0, [0, 1], 1, [0, 0]]]]},
            {"tys": ["B", "Q"], "track": True,
             "prog": [["add", ["custom", 1, 2, "m"], None, [1]], ["track_wire", [2, 1]],
                      ["set_indexed_outputs", [2, 1, [2, 1], 0, 2]]]},
            {"tys": ["Q", "B"], "track": False, "alias": ["iter", "again"],
             "prog": [["track_wires", [[0, 1], [0, 0]]], ["add", c, None, [1]], ["track_wires", []], ["set_tracked_outputs"]]},
            # seeded C15-i: track_wires walks a one-shot iterator twice - the wires are stored, the returned index
            # list is empty.  Minimal: one wire from a generator ...
            {"tys": ["Q"], "track": False, "alias": ["iter"], "prog": [["track_wires", [[0, 0]]]]},
            # ... track_wires(node.outputs()) after a hole, the returned indices then used by add / outputs ...
            {"tys": ["B", "Q"], "track": True, "alias": ["iter"],
             "prog": [["untrack", 1], ["add", ["custom", 1, 2, "m"], None, [[0, 1]]], ["track_wires", [[2, 0], [2, 1]]],
                      ["add", c, {"k": 1}, [3]], ["add", c, None, [2]], ["set_tracked_outputs"]]},
            # ... a node slice node[1:3], and track_inputs / track_wire / untrack_wire / extend return values
            {"tys": ["Q", "Q"], "track": False, "alias": ["iter"],
             "prog": [["add", ["custom", 2, 3, "cx"], None, [[0, 0], [0, 1]]], ["track_wires", [[2, 1], [2, 2]]],
                      ["track_inputs"], ["track_wire", [2, 0]], ["untrack", 2], ["extend", [[c, [0]], [c, [4]]]],
                      ["track_wires", [[2, 1], [2, 2]]], ["set_indexed_outputs", [0, 1, 4, 5, 6]]]},
        ]

    def generate(self, rng, tier, ctx):
        k = 1 if tier == "quick" else 10
        cases = []
        for _ in range(500 * k):
            cases.append(rand_prog(rng))
        for _ in range(120 * k):
            cases.append(rand_prog(rng, malformed=True))
        for w in range(1, 9):                      # every width, short and long
            cases.append(rand_prog(rng, width=w, length=3))
            cases.append(rand_prog(rng, width=w, length=12))
        # (every draw below comes after the streams above: those are what they were)
        # object reuse: the caller's Command / operation / incoming / metadata objects come back
        for c in cases:
            if rng.random() < 0.4:
                c["alias"] = rand_alias(rng)
        for i in range(300 * k):
            c = rand_prog(rng, reuse=rng.choice([0.3, 0.5, 0.8]), malformed=(i % 8 == 7),
                          width=rng.choice([None, 1, 2, 3]))
            c["alias"] = rand_alias(rng)
            cases.append(c)
        # Iterable-typed arguments given as one-shot iterators: track_wires(node.outputs()), track_wires(node[a:b]),
        # generators; the indices it returns are observed (obs["rets"]) and are what the later commands use
        for i in range(150 * k):
            c = rand_prog(rng, outs=rng.choice([0.5, 0.8]), reuse=rng.choice([0.0, 0.0, 0.4]), malformed=(i % 10 == 9),
                          width=rng.choice([None, 1, 2, 3]))
            c["alias"] = sorted(set((rand_alias(rng) if rng.random() < 0.5 else []) + (["iter"] if i % 5 else [])),
                                key=ALIAS_FLAGS.index)
            cases.append(c)
        return cases

    def observe(self, case, ctx):
        q, complete = explicit(case)
        alias = case.get("alias") or ()
        pool = Pool(alias, partial_ok=not has_unpack(case))
        o = {"t": run_tracked(case, self.I, pool), "q": q, "complete": complete}
        if "again" in alias:
            # the same Command / metadata objects, handed to a second TrackedDfg
            o["t2"] = run_tracked(case, self.I, pool, replay=True)
        o["p"] = run_plain(case, q, self.I, pool.made_ops)
        return o

    def literal(self, case, obs, ctx):
        L = self.L
        if obs.get("t2") is not None:
            return gapp("Case2", gN(len(case["tys"])), gbool(case["track"]), glist(L.cmd(c) for c in case["prog"]),
                        L.obs(obs["t"]), L.obs(obs["t2"]), glist(L.pcmd(c) for c in obs["q"]), L.obs(obs["p"]))
        return gapp("Case", gN(len(case["tys"])), gbool(case["track"]), glist(L.cmd(c) for c in case["prog"]),
                    L.obs(obs["t"]), glist(L.pcmd(c) for c in obs["q"]), L.obs(obs["p"]))

    def nontrivial(self, case, obs):
        if obs["t"]["res"] != "ok":
            return True
        seen_add = False
        for c in case["prog"]:
            if c[0] == "untrack":
                return True
            if c[0] == "add":
                if c[2]:
                    return True
                if seen_add and any(is_int(a) for a in c[3]):
                    return True
                seen_add = True
            if c[0] == "extend" and len(c[1]) >= 2:
                return True
        return False

    def describe(self, case, obs):
        return {"input": case, "observed": obs}

    def signature(self, case, obs, ctx):
        t, p = obs["t"], obs["p"]
        neg = any(is_int(a) and a < 0 for c in case["prog"] for a in
                  ([c[1]] if c[0] == "untrack" else c[3] if c[0] == "add" else c[1] if c[0] == "set_indexed_outputs"
                   else [x for _, args in c[1] for x in args] if c[0] == "extend" else []))
        if [n[2] for n in t["nodes"]] != [n[2] for n in p["nodes"]]:
            return "tracked:metadata-differs"
        if neg and t["res"] != "IndexError":
            return "tracked:negative-index-accepted"
        if t["res"] != p["res"]:
            return "tracked:result-differs"
        if t["links"] != p["links"]:
            return "tracked:links-differ"
        if obs.get("t2") is not None and obs["t2"] != t:
            return "tracked:second-builder-differs"
        if t.get("rets") != expected_rets(case)[:len(t.get("rets") or [])] or \
                (t["res"] == "ok" and len(t.get("rets") or []) != len(case["prog"])):
            return "tracked:returned-values-differ"
        return "tracked:graph-differs"

    def shrink(self, case):
        for c in self._shrink(case):
            if wellnamed(c):
                yield c

    def _shrink(self, case):
        prog = case["prog"]
        for i in range(len(prog)):
            yield {**case, "prog": prog[:i] + prog[i + 1:]}
        for i, c in enumerate(prog):
            if c[0] == "add":
                if c[2]:
                    yield {**case, "prog": prog[:i] + [[c[0], c[1], None, c[3]]] + prog[i + 1:]}
                for j in range(len(c[3])):
                    yield {**case, "prog": prog[:i] + [[c[0], c[1], c[2], c[3][:j] + c[3][j + 1:]]] + prog[i + 1:]}
            if c[0] == "extend":
                for j in range(len(c[1])):
                    yield {**case, "prog": prog[:i] + [[c[0], c[1][:j] + c[1][j + 1:]]] + prog[i + 1:]}
            if c[0] == "track_wires" and len(c[1]) > 1:
                for j in range(len(c[1])):
                    yield {**case, "prog": prog[:i] + [[c[0], c[1][:j] + c[1][j + 1:]]] + prog[i + 1:]}
        if len(case["tys"]) > 1:
            yield {**case, "tys": case["tys"][:-1]}
        al = case.get("alias") or []
        for f in al:
            yield {**case, "alias": [g for g in al if g != f]}

    def neighbours(self, case, rng):
        out = list(self.shrink(case))
        for _ in range(300):
            c = json.loads(json.dumps(case))
            extra = rand_prog(rng, width=len(c["tys"]), malformed=rng.random() < 0.3,
                              reuse=0.5 if c.get("alias") else 0.0)["prog"]
            cut = rng.randint(0, len(c["prog"]))
            c["prog"] = c["prog"][:cut] + extra[: rng.randint(1, 4)]
            out.append(c)
        return out

    def _composition(self, ctx, sample, tag):
        """-> (findings [(kind, description, signature, seed, program, c15 program, message)], statistics) of the
        premises (tprem, ttwf) and of the conclusion against the real TrackedDfg (ttie, tvalid) on a sample"""
        from props import c01
        found, lits, meta, outside, raised = [], [], [], 0, 0
        for seed, p in sample:
            t = tdfg_to_c15(p)
            if t is None:
                outside += 1
                continue
            try:
                lits.append(tdfg_literal(self.L, p, t))
            except c01.ConvError:
                raise
            except Exception as e:      # a builder call raised on a program C01's generator believes well formed
                raised += 1
                found.append(("tracked-builder-raises", "a tracked-builder program of C01's generator (well formed: such "
                              "programs satisfy the premises on clean code) made a builder call raise " + type(e).__name__,
                              "composition:raises:" + type(e).__name__, seed, p, t, str(e)[:300]))
                continue
            meta.append((seed, p, t))
        st = {"generated": len(sample), "outside_fragment(load)": outside, "builders_raised": raised, "evaluated": len(lits)}
        if lits:
            res = fw.eval_cases(ctx.work, "run.C15ValidRun", lits, shard=40, checks=("tprem", "ttie", "tvalid", "ttwf"),
                                tag=tag, case_type="tcase")
            st["premises_hold"] = len(lits) - len(res["tprem"])
            st["tracked_level_premise_twf_holds"] = len(lits) - len(res["ttwf"])
            for i in res["tvalid"]:
                found.append(("tracked-document-invalid", "the document a real TrackedDfg serialised is rejected by the "
                              "validity predicate", "composition:invalid", *meta[i], ""))
            for i in [j for j in res["ttie"] if j not in res["tvalid"]]:
                found.append(("tracked-document-differs", "the document a real TrackedDfg serialised is not the one C01's "
                              "builder model produces from the explicit translation / not the tracked model's HUGR",
                              "composition:document-differs", *meta[i], ""))
            for i in res["tprem"]:
                found.append(("premise-not-met", "a tracked-builder program of C01's generator inside the fragment does "
                              "not satisfy the premises of C15_tracked_programs_valid (the theorem would not speak about "
                              "it)", "composition:premise-not-met", *meta[i], ""))
            for i in [j for j in res["ttwf"] if j not in res["tprem"]]:
                found.append(("premise-not-met", "a tracked-builder program of C01's generator inside the fragment is "
                              "not accepted by the tracked-level premise twf of C15_wellformed_tracked_programs_valid",
                              "composition:twf-not-met", *meta[i], ""))
        return found, st

    def extra(self, ctx, tier):
        """C15 x C01: the premises (tprem, ttwf) and the conclusion against the real TrackedDfg (ttie, tvalid) of
        C15_tracked_programs_valid / C15_wellformed_tracked_programs_valid on the tracked-builder programs of C01's
        generator (harness/progs.py), run on the real TrackedDfg through C01's interpreter."""
        import random
        import progs
        from props import c01
        ok, log = fw.coq_build(["run/C15ValidRun.vo"])
        if not ok:
            return [("composition-run-file", "coq/run/C15ValidRun.v does not build", {"log": log[-1500:]})]
        bad = fw.forbidden_gate(fw.coq_closure("run/C15ValidRun.v"))
        if bad:
            return [("composition-run-file", "forbidden construct in the closure of run/C15ValidRun.v", {"bad": bad[:5]})]
        rng = random.Random(ctx.seed * 7907 + 15)
        n = 150 if tier == "quick" else 1500
        sample = [("named:" + k, v) for k, v in sorted(c01.NAMED.items()) if v.get("root") == "tdfg"]
        for _ in range(n):
            seed = rng.randrange(1 << 30)
            sample.append(({"seed": seed}, progs.gen_tracked_program(random.Random(seed))))
        found, st = self._composition(ctx, sample, "tvalid")
        if found:
            # look for smaller programs showing the same kind of failure: the replay should be readable
            small = []
            for size in (1, 2, 3):
                for _ in range(60):
                    seed = rng.randrange(1 << 30)
                    small.append(({"seed": seed, "size": size}, progs.gen_tracked_program(random.Random(seed), size=size)))
            try:
                found2, _ = self._composition(ctx, small, "tvalid_small")
            except fw.CoqEvalError:
                found2 = []
            found2.sort(key=lambda f: len(f[4]["stmts"]))
            found = found2 + found
        out, per_sig = [], {}
        for kind, desc, sig, seed, p, t, msg in found:
            if per_sig.get(sig, 0) >= 2:
                continue
            per_sig[sig] = per_sig.get(sig, 0) + 1
            out.append((kind, desc, {"failing_input": seed, "signature": sig, "program": p, "c15_program": t,
                                     **({"message": msg} if msg else {})}))
        if st["evaluated"] < st["generated"] // 4:
            out.append(("composition-sample-too-small", "fewer than a quarter of the generated tracked programs are in "
                        "the fragment of C15_tracked_programs_valid", dict(st)))
        ctx.stats["composition_with_C01"] = st
        return out

    def distribution(self, cases, observations):
        d = {"width": {}, "commands": {}, "results": {}, "int_args": 0, "wire_args": 0, "with_metadata": 0,
             "holes": 0, "nodes_built": 0, "alias_flags": {}, "command_objects_added_again": 0,
             "command_objects_added_again_with_int": 0, "second_builder_runs": 0}
        for c, o in zip(cases, observations):
            al = c.get("alias") or []
            for f in al:
                d["alias_flags"][f] = d["alias_flags"].get(f, 0) + 1
            d["second_builder_runs"] += 1 if o.get("t2") is not None else 0
            if "com" in al:
                seen = set()
                for cmd in c["prog"]:
                    for spec, args in ([[cmd[1], cmd[3]]] if cmd[0] == "add" else cmd[1] if cmd[0] == "extend" else []):
                        key = json.dumps([spec, args])
                        if key in seen:
                            d["command_objects_added_again"] += 1
                            d["command_objects_added_again_with_int"] += 1 if any(is_int(a) for a in args) else 0
                        seen.add(key)
            w = str(len(c["tys"]))
            d["width"][w] = d["width"].get(w, 0) + 1
            r = o["t"]["res"]
            d["results"][r] = d["results"].get(r, 0) + 1
            d["nodes_built"] += len(o["t"]["nodes"])
            d["holes"] += sum(1 for x in (o["t"]["tracked"] or []) if x is None)
            for cmd in c["prog"]:
                d["commands"][cmd[0]] = d["commands"].get(cmd[0], 0) + 1
                if cmd[0] == "add":
                    d["int_args"] += sum(1 for a in cmd[3] if is_int(a))
                    d["wire_args"] += sum(1 for a in cmd[3] if not is_int(a))
                    d["with_metadata"] += 1 if cmd[2] else 0
        return d


PROP = C15()
