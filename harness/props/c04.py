"""C04 — the HUGR graph store agrees with a sequential port-multigraph model.
model: coq/model/Graph.v, spec: coq/spec/GraphS.v, run: coq/run/C04Run.v."""
import itertools
import json

import fw
from fw import gZ, gN, glist, gopt, gpair, gapp, gnat, gbool

INTERN = fw.Interner()          # operations / metadata -> N (compared by equality only)


def palette():
    from hugr import ops, tys, val
    OPS = [ops.DFG([]), ops.Noop(tys.Bool), ops.Case([]), ops.Input([tys.Bool]), ops.Output([]),
           ops.DFG([tys.Bool]), ops.Module()]
    VALS = [val.TRUE, val.FALSE, val.Tuple()]
    METAS = [None, {}, {"a": 1}, {"b": [1, 2], "a": "x"}]
    return OPS, VALS, METAS


def op_key(op):
    return INTERN(("op", repr(op)))


def meta_key(md):
    return INTERN(("meta", json.dumps(md or {}, sort_keys=True, default=repr)))


def exc_class(e):
    if isinstance(e, KeyError):
        return "EKey"
    if isinstance(e, ValueError):
        return "EValue"
    return "EOther"


# ----------------------------------------------------------------------------- running hugr-py

def apply_bcmd(h, c):
    """Runs one basic command through the public API; returns the return value in model terms."""
    from hugr.hugr.node_port import Node
    OPS, VALS, METAS = palette()
    N = lambda i: None if i is None else Node(i)
    k = c[0]
    if k == "AddNode":
        md = METAS[c[4]]
        n = h.add_node(OPS[c[1]], N(c[2]), c[3], None if md is None else dict(md))
        return ["RNode", n.idx]
    if k == "AddConst":
        md = METAS[c[3]]
        n = h.add_const(VALS[c[1]], N(c[2]), None if md is None else dict(md))
        return ["RNode", n.idx]
    if k == "AddLink":
        h.add_link(Node(c[1][0]).out(c[1][1]), Node(c[2][0]).inp(c[2][1]))
    elif k == "AddOrder":
        h.add_order_link(Node(c[1]), Node(c[2]))
    elif k == "DelLink":
        h.delete_link(Node(c[1][0]).out(c[1][1]), Node(c[2][0]).inp(c[2][1]))
    elif k == "DelNode":
        h.delete_node(Node(c[1]))
    else:
        raise AssertionError(k)
    return ["RUnit"]


def build_source(c):
    """The source HUGR of an Insert command; commands that raise are dropped with all that follow."""
    from hugr.hugr import Hugr
    OPS, VALS, METAS = palette()
    md = METAS[c[2]]
    todo = list(c[3])
    while True:
        b = Hugr(OPS[c[1]])
        if md:
            b[b.root].metadata.update(md)
        done = []
        for i, bc in enumerate(todo):
            try:
                r = apply_bcmd(b, bc)
            except Exception:
                todo = todo[:i]        # a raising call may leave debris: rebuild without it
                break
            done.append([bc, r])
        else:
            return b, done


def snapshot(h, u):
    """All public queries over the universe u = (ids, offs, probes)."""
    from hugr.hugr.node_port import Node
    ids, offs, probes = u
    get = []
    for i in ids:
        try:
            d = h[Node(i)]
            get.append({"op": op_key(d.op), "parent": None if d.parent is None else d.parent.idx,
                        "children": [c.idx for c in h.children(Node(i))], "meta": meta_key(d.metadata),
                        "nin": h.num_in_ports(Node(i)), "nout": h.num_out_ports(Node(i)),
                        "par2": None if h[Node(i)].parent is None else h[Node(i)].parent.idx})
        except KeyError:
            get.append(None)
    live = [i for i, g in zip(ids, get) if g is not None]
    P = lambda p: [p.node.idx, p.offset]
    lout, lin = [], []
    for i in ids:
        for o in offs:
            l = [P(p) for p in h.linked_ports(Node(i).out(o))]
            if l:
                lout.append([[i, o], l])
            l = [P(p) for p in h.linked_ports(Node(i).inp(o))]
            if l:
                lin.append([[i, o], l])
    outgoing = [[i, [[P(p), [P(q) for q in qs]] for p, qs in h.outgoing_links(Node(i)) if qs]] for i in live]
    incoming = [[i, [[P(p), [P(q) for q in qs]] for p, qs in h.incoming_links(Node(i)) if qs]] for i in live]
    oo = [[i, [n.idx for n in h.outgoing_order_links(Node(i))]] for i in ids]
    oi = [[i, [n.idx for n in h.incoming_order_links(Node(i))]] for i in ids]
    return {
        "iter": [n.idx for n in h], "len": len(h), "root": h.root.idx, "get": get,
        "links": [[P(s), P(t)] for s, t in h.links()], "lout": lout, "lin": lin,
        "outgoing": outgoing, "incoming": incoming,
        "ord_out": [x for x in oo if x[1]], "ord_in": [x for x in oi if x[1]],
        "has": [bool(h.has_link(Node(s[0]).out(s[1]), Node(t[0]).inp(t[1]))) for s, t in probes],
    }


def universe_of(case):
    n_nodes, offs, probes = 2, {-1, 0}, []

    def scan(bc):
        nonlocal n_nodes
        if bc[0] in ("AddNode", "AddConst"):
            n_nodes += 1
        elif bc[0] in ("AddLink", "DelLink"):
            offs.update([bc[1][1], bc[2][1]])
            if [bc[1], bc[2]] not in probes:
                probes.append([bc[1], bc[2]])
        elif bc[0] == "AddOrder":
            pr = [[bc[1], -1], [bc[2], -1]]
            if pr not in probes:
                probes.append(pr)
    for c in case["ops"]:
        if c[0] == "Insert":
            n_nodes += 1 + sum(1 for bc in c[3] if bc[0] in ("AddNode", "AddConst"))
        else:
            scan(c)
    offs.add(max(offs) + 1)
    for pr in case.get("probes", []):
        if pr not in probes:
            probes.append(pr)
    return list(range(n_nodes)), sorted(offs), probes


# ----------------------------------------------------------------------------- Gallina

def gport(p):
    return gpair(gnat(p[0]), gZ(p[1]))


def gplist(l):
    return glist(gpair(gport(p), glist(gport(q) for q in qs)) for p, qs in l)


def gobs(o):
    def gn(g):
        if g is None:
            return "None"
        return gopt(gapp("Build_nobs", gN(g["op"]), gopt(None if g["parent"] is None else gnat(g["parent"])),
                         glist(gnat(c) for c in g["children"]), gN(g["meta"]), gZ(g["nin"]), gZ(g["nout"])))
    return gapp("Build_obs", glist(gnat(i) for i in o["iter"]), gnat(o["len"]), gnat(o["root"]),
                glist(gn(g) for g in o["get"]),
                glist(gpair(gport(s), gport(t)) for s, t in o["links"]),
                gplist(o["lout"]), gplist(o["lin"]),
                glist(gpair(gnat(i), gplist(l)) for i, l in o["outgoing"]),
                glist(gpair(gnat(i), gplist(l)) for i, l in o["incoming"]),
                glist(gpair(gnat(i), glist(gnat(x) for x in l)) for i, l in o["ord_out"]),
                glist(gpair(gnat(i), glist(gnat(x) for x in l)) for i, l in o["ord_in"]),
                glist(gbool(b) for b in o["has"]))


def gonat(x):
    return gopt(None if x is None else gnat(x))


def gret(r):
    if r[0] == "RUnit":
        return "RUnit"
    if r[0] == "RNode":
        return gapp("RNode", gnat(r[1]))
    return gapp("RMap", glist(gpair(gnat(a), gnat(b)) for a, b in r[1]))


def gbcmd(c):
    OPS, VALS, METAS = palette()
    from hugr import ops
    k = c[0]
    if k == "AddNode":
        return gapp("AddNode", gN(op_key(OPS[c[1]])), gonat(c[2]), gopt(None if c[3] is None else gZ(c[3])),
                    gN(meta_key(METAS[c[4]])))
    if k == "AddConst":
        return gapp("AddConst", gN(op_key(ops.Const(VALS[c[1]]))), gonat(c[2]), gN(meta_key(METAS[c[3]])))
    if k in ("AddLink", "DelLink"):
        return gapp(k, gport(c[1]), gport(c[2]))
    if k == "AddOrder":
        return gapp("AddOrder", gnat(c[1]), gnat(c[2]))
    if k == "DelNode":
        return gapp("DelNode", gnat(c[1]))
    raise AssertionError(k)


def guniverse(u):
    ids, offs, probes = u
    return gapp("Build_universe", glist(gnat(i) for i in ids), glist(gZ(o) for o in offs),
                glist(gpair(gport(s), gport(t)) for s, t in probes))


# ----------------------------------------------------------------------------- generation

class Driver:
    """Generates a history while running hugr-py, so that node arguments are mostly live."""

    def __init__(self, rng, root=6, allow_insert=True, maxoff=2, allow_bad=True):
        from hugr.hugr import Hugr
        OPS, _, _ = palette()
        self.rng, self.h, self.ops = rng, Hugr(OPS[root]), []
        self.allow_insert, self.maxoff, self.root_k = allow_insert, maxoff, root
        self.dead, self.allow_bad = False, allow_bad and allow_insert

    def live(self):
        return [n.idx for n in self.h]

    def leaves(self):
        return [n.idx for n in self.h if not self.h.children(n) and n != self.h.root]

    def port(self, nodes):
        r = self.rng
        return [r.choice(nodes), r.choice([0, 0, 0, 1, 1, 2, self.maxoff, -1])]

    def pick(self):
        r, h = self.rng, self.h
        live = self.live()
        links = [[[s.node.idx, s.offset], [t.node.idx, t.offset]] for s, t in h.links()]
        x = r.random()
        if x < 0.22 or len(live) < 3:
            par = r.choice(live + [None])
            if r.random() < 0.2:
                return ["AddConst", r.randrange(3), par, r.randrange(4)]
            return ["AddNode", r.randrange(6), par, r.choice([None, None, 0, 1, 3]), r.randrange(4)]
        if x < 0.52:
            # favour ports that are already linked: fan-outs and multi-linked inputs
            if links and r.random() < 0.6:
                l = r.choice(links)
                if r.random() < 0.5:
                    return ["AddLink", l[0], self.port(live)]
                return ["AddLink", self.port(live), l[1]]
            return ["AddLink", self.port(live), self.port(live)]
        if x < 0.60:
            return ["AddOrder", r.choice(live), r.choice(live)]
        if x < 0.76:
            if links and r.random() < 0.85:
                l = r.choice(links)
                return ["DelLink", l[0], l[1]]
            return ["DelLink", self.port(live), self.port(live)]
        if x < 0.90:
            lv = self.leaves()
            if lv:
                # prefer a leaf that has links
                linked = [n for n in lv if any(n in (l[0][0], l[1][0]) for l in links)]
                return ["DelNode", r.choice(linked if linked and r.random() < 0.7 else lv)]
            return ["AddOrder", r.choice(live), r.choice(live)]
        if x < 0.96 and self.allow_insert:
            sub = Driver(r, root=r.randrange(7), allow_insert=False, maxoff=self.maxoff)
            for _ in range(r.randint(0, 8)):
                sub.step()
            return ["Insert", sub.root_k, r.randrange(4), sub.ops, r.choice(live + [None])]
        if not self.allow_bad:
            return ["AddLink", self.port(live), self.port(live)]
        # malformed / out of the guard (ends the history): dead or never-existing node, non-leaf deletion
        self.dead = True
        bad = r.choice([max(live) + 1, max(live) + 3] + [i for i in range(max(live)) if i not in live])
        y = r.random()
        if y < 0.25:
            return ["AddNode", 0, bad, None, 0]
        if y < 0.5:
            return ["AddLink", [bad, 0], self.port(live)] if r.random() < 0.5 else ["AddLink", self.port(live), [bad, 0]]
        if y < 0.7:
            return ["DelNode", bad]
        if y < 0.8:
            return ["AddLink", [r.choice(live), -2], self.port(live)]
        nl = [n for n in live if n not in self.leaves()]
        return ["DelNode", r.choice(nl)]

    def step(self):
        if self.dead:
            return
        c = self.pick()
        self.ops.append(c)
        try:
            if c[0] == "Insert":
                from hugr.hugr.node_port import Node
                b, _ = build_source(c)
                self.h.insert_hugr(b, None if c[4] is None else Node(c[4]))
            else:
                apply_bcmd(self.h, c)
        except Exception:
            self.dead = True


class C04(fw.Prop):
    id = "C04"
    props_file = "props/C04.v"
    run_file = "run/C04Run.v"
    run_module = "run.C04Run"
    shard = 60
    rule = ("histories of add_node/add_const/add_link/add_order_link/delete_link/delete_node/insert_hugr run on "
            "hugr.Hugr through the public API and on the Coq model (which takes the returned node index / node mapping "
            "as the oracle of its free-index choices), every public query observed after every "
            "mutation; non-trivial = the history deletes a link or a node while some port has two or more "
            "links, or reuses a freed index, or inserts a HUGR; distinct = by canonical input")
    trusted = ["operations and metadata are opaque payloads interned by repr()/sorted JSON; node arguments are "
               "Node(idx) handles built by the harness (non-negative indices)"]
    assumptions = ["node arguments of mutators are live nodes, deleted nodes are non-root leaves, port offsets are "
                   ">= -1 (a call outside this guard ends the monitored history and the correspondence: its exception "
                   "class and effect are unspecified by the property)",
                   "which index a new node receives (and which indices the copies of an insertion receive, in which "
                   "order) is not prescribed: the implementation's choice is followed by the model whenever it names an "
                   "index that is not live (a freed one, the next fresh one, or one further beyond the end of the node "
                   "table); a returned index that is live, or a returned mapping that is not injective, is a failure",
                   "_update_port_count and direct field writes are not part of the histories (private API)"]

    # ---- cases
    def corpus(self, ctx):
        n3 = [["AddNode", 0, None, None, 0]] * 3
        fan = n3 + [["AddNode", 0, None, None, 0]] + [["AddLink", [1, 0], [t, 0]] for t in (2, 3, 4)]
        return [
            # D4: delete the middle link of a three-way fan-out
            {"root": 6, "ops": fan + [["DelLink", [1, 0], [3, 0]]], "probes": []},
            # D5: delete a node in the middle of a fan-out / a node with a multi-linked input
            {"root": 6, "ops": fan + [["DelNode", 3]], "probes": []},
            {"root": 6, "ops": n3 + [["AddLink", [1, 0], [3, 0]], ["AddLink", [2, 0], [3, 0]], ["DelNode", 3]], "probes": []},
            # D6: order links of a deleted node
            {"root": 6, "ops": n3 + [["AddOrder", 1, 2], ["AddOrder", 2, 3], ["DelNode", 2]], "probes": []},
            # D20 through the history: source with a child below its parent in index order
            {"root": 6, "ops": [["AddNode", 0, None, None, 0],
                                ["Insert", 0, 2, [["AddNode", 0, None, None, 0], ["AddNode", 0, None, None, 0],
                                                  ["DelNode", 1], ["AddNode", 1, 2, 1, 0], ["AddLink", [1, 0], [2, 0]]], 1]],
             "probes": []},
            # source root{a{c}, b} built as a, b, c: pre-order and index order of the source differ, so an insert_hugr
            # that walks the hierarchy numbers the copies differently (C04-n6, harmless); then calls on the copies
            {"root": 6, "ops": [["AddNode", 0, None, None, 0],
                                ["Insert", 0, 2, [["AddNode", 0, None, None, 0], ["AddNode", 1, None, None, 0],
                                                  ["AddNode", 2, 1, 1, 0], ["AddLink", [3, 0], [2, 0]]], 1],
                                ["AddLink", [4, 0], [5, 0]], ["DelNode", 5], ["AddNode", 3, 3, None, 0]],
             "probes": [[[4, 0], [5, 0]], [[5, 0], [4, 0]]]},
            # same link twice, delete one; in-port fan-in shifted
            {"root": 6, "ops": n3 + [["AddLink", [1, 0], [2, 0]], ["AddLink", [1, 0], [2, 0]], ["AddLink", [3, 1], [2, 0]],
                                     ["DelLink", [1, 0], [2, 0]], ["DelLink", [1, 0], [2, 0]], ["DelLink", [1, 0], [2, 0]]],
             "probes": [[[3, 1], [2, 0]]]},
        ]

    def generate(self, rng, tier, ctx):
        cases = []
        # exhaustive small scope: three nodes under the root, a two-way fan-out in place, then every
        # history of fixed length over a fixed alphabet
        prefix = [["AddNode", 0, None, None, 0]] * 3 + [["AddLink", [1, 0], [2, 0]], ["AddLink", [1, 0], [3, 0]]]
        alpha = [["AddLink", [1, 0], [2, 1]], ["AddLink", [1, 0], [2, 0]], ["AddLink", [3, 0], [2, 0]],
                 ["AddOrder", 1, 2], ["DelLink", [1, 0], [2, 0]], ["DelLink", [1, 0], [3, 0]],
                 ["DelLink", [3, 0], [2, 0]], ["DelNode", 2], ["DelNode", 3], ["AddNode", 1, 1, 2, 2]]
        depth = 2 if tier == "quick" else 3
        for hist in itertools.product(alpha, repeat=depth):
            cases.append({"root": 6, "ops": prefix + [list(c) for c in hist], "probes": []})
        ctx.stats["exhaustive_scopes"] = [f"all {len(alpha)}^{depth} histories over the fixed alphabet after a 3-node / "
                                          "2-way fan-out prefix"]
        n = 120 if tier == "quick" else 1500
        for _ in range(n):
            d = Driver(rng, root=rng.choice([6, 6, 0, 5]), maxoff=rng.choice([2, 3]))
            for _ in range(rng.randint(3, 28)):
                d.step()
            live = d.live()
            mx = max(live) + 1
            probes = [[[rng.randrange(mx + 1), rng.choice([-1, 0, 1])], [rng.randrange(mx + 1), rng.choice([-1, 0, 1])]]
                      for _ in range(4)]
            cases.append({"root": d.root_k, "ops": d.ops, "probes": probes})
        return cases

    # ---- implementation run
    def observe(self, case, ctx):
        from hugr.hugr import Hugr
        from hugr.hugr.node_port import Node
        OPS, _, _ = palette()
        u = universe_of(case)
        h = Hugr(OPS[case["root"]])
        res = {"init": snapshot(h, u), "steps": []}
        for c in case["ops"]:
            extra = None
            try:
                if c[0] == "Insert":
                    b, done = build_source(c)
                    extra = (b.root.idx, done)
                    m = h.insert_hugr(b, None if c[4] is None else Node(c[4]))
                    r = ["RMap", sorted([k.idx, v.idx] for k, v in m.items())]
                else:
                    r = apply_bcmd(h, c)
                cls = "Ok"
            except Exception as e:
                r, cls = ["RUnit"], exc_class(e)
            st = {"ret": r, "res": cls, "obs": snapshot(h, u)}
            if extra:
                st["broot"], st["src"] = extra
            res["steps"].append(st)
            if cls != "Ok":
                break
        return res

    def literal(self, case, obs, ctx):
        OPS, _, METAS = palette()
        u = universe_of(case)
        steps = []
        for c, st in zip(case["ops"], obs["steps"]):
            if c[0] == "Insert":
                gc = gapp("Insert", gN(op_key(OPS[c[1]])), gN(meta_key(METAS[c[2]])), gnat(st.get("broot", 0)),
                          glist(gpair(gbcmd(bc), gret(r)) for bc, r in st.get("src", [])), gonat(c[4]))
            else:
                gc = gapp("Basic", gbcmd(c))
            steps.append(gpair(gc, gpair(gret(st["ret"]), st["res"], gobs(st["obs"]))))
        return gapp("Build_case", guniverse(u), gN(op_key(OPS[case["root"]])), gN(meta_key(None)),
                    gobs(obs["init"]), glist(steps))

    # ---- classification
    def nontrivial(self, case, obs):
        multi = False
        freed = set()
        for c, st in zip(case["ops"], obs["steps"]):
            if c[0] == "Insert" and st["res"] == "Ok":
                return True
            if c[0] in ("DelLink", "DelNode") and multi and st["res"] == "Ok":
                return True
            if c[0] == "DelNode" and st["res"] == "Ok":
                freed.add(c[1])
            if c[0] in ("AddNode", "AddConst") and st["ret"][0] == "RNode" and st["ret"][1] in freed:
                return True
            multi = any(len(l) > 1 for _, l in st["obs"]["lout"]) or any(len(l) > 1 for _, l in st["obs"]["lin"])
        return False

    def describe(self, case, obs):
        return {"input": case, "observed": obs}

    def signature(self, case, obs, ctx):
        kinds = sorted({c[0] for c in case["ops"][:len(obs["steps"])]})
        return "graph:" + ",".join(kinds)

    def shrink(self, case):
        ops = case["ops"]
        for i in range(len(ops) - 1, -1, -1):
            yield {**case, "ops": ops[:i] + ops[i + 1:]}
        for i, c in enumerate(ops):
            if c[0] == "Insert":
                for j in range(len(c[3])):
                    yield {**case, "ops": ops[:i] + [[c[0], c[1], c[2], c[3][:j] + c[3][j + 1:], c[4]]] + ops[i + 1:]}
        if case.get("probes"):
            yield {**case, "probes": []}

    def neighbours(self, case, rng):
        # extend the disagreeing history by the link-deleting / querying continuations that expose a
        # broken store, and try every prefix
        ops = case["ops"]
        for i in range(1, len(ops) + 1):
            yield {**case, "ops": ops[:i]}
        links = [c for c in ops if c[0] == "AddLink"]
        for l in links:
            yield {**case, "ops": ops + [["DelLink", l[1], l[2]]]}
            yield {**case, "ops": ops + [["AddLink", l[1], l[2]], ["DelLink", l[1], l[2]]]}
        for c in ops:
            if c[0] in ("AddNode", "AddConst"):
                for n in range(1, 8):
                    yield {**case, "ops": ops + [["DelNode", n]]}
                break

    def distribution(self, cases, observations):
        d = {"histories": len(cases), "ops": {}, "exceptions": {}, "max_len": 0, "max_fanout": 0, "max_nodes": 0,
             # diagnostic only ("model drift"), never a verdict: how often the implementation reused a freed index
             # other than the most recently freed one (the code as modelled without an oracle pops that one)
             "index_reuses": 0, "index_reuses_not_most_recently_freed": 0}
        for c, o in zip(cases, observations):
            d["max_len"] = max(d["max_len"], len(o["steps"]))
            freed = []
            for op, st in zip(c["ops"], o["steps"]):
                if st["res"] == "Ok":
                    if op[0] == "DelNode":
                        freed.append(op[1])
                    elif st["ret"][0] == "RNode" and st["ret"][1] in freed:
                        d["index_reuses"] += 1
                        d["index_reuses_not_most_recently_freed"] += st["ret"][1] != freed[-1]
                        freed.remove(st["ret"][1])
                    elif st["ret"][0] == "RMap":
                        for _, v in st["ret"][1]:
                            if v in freed:
                                d["index_reuses"] += 1
                                freed.remove(v)
                d["ops"][op[0]] = d["ops"].get(op[0], 0) + 1
                if st["res"] != "Ok":
                    d["exceptions"][st["res"]] = d["exceptions"].get(st["res"], 0) + 1
                for _, l in st["obs"]["lout"] + st["obs"]["lin"]:
                    d["max_fanout"] = max(d["max_fanout"], len(l))
                d["max_nodes"] = max(d["max_nodes"], st["obs"]["len"])
        return d


PROP = C04()
