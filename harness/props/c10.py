"""C10 — extension definitions round-trip; the bundled standard library matches the spec.

Model coq/model/ExtDefs.v, spec coq/spec/ExtDefsS.v, proofs coq/proofs/ExtDefsP.v + StdExtP.v,
regenerated data coq/gen/StdExt.v (bytes of both directories, structured documents, helper table).
"""
import glob
import importlib
import inspect
import json
import os
import pkgutil
import re

import fw
from fw import gZ, gN, glist, gopt, gpair, gapp, gbool, gnat

SPEC_DIR = os.path.join(fw.REPO, "specification", "std_extensions")
BUNDLED_DIR = os.path.join(fw.SRC, "hugr", "std", "_json_defs")
GEN = os.path.join(fw.COQ, "gen", "StdExt.v")


class FailClosed(Exception):
    pass


# ------------------------------------------------------------------ JSON -> Gallina literals
def g_json(x, I):
    if x is None:
        return "JNull"
    if isinstance(x, bool):
        return gapp("JBool", gbool(x))
    if isinstance(x, int):
        return gapp("JInt", gZ(x))
    if isinstance(x, float):
        return gapp("JFloat", gN(I(("float", repr(x)))))
    if isinstance(x, str):
        return gapp("JStr", gN(I(x)))
    if isinstance(x, list):
        return gapp("JArr", glist(g_json(y, I) for y in x))
    if isinstance(x, dict):
        # JSON objects are unordered maps: canonical key order
        return gapp("JObj", glist(gpair(gN(I(k)), g_json(x[k], I)) for k in sorted(x)))
    raise FailClosed("not JSON: %r" % (x,))


def only(d, required, optional=()):
    if not isinstance(d, dict):
        raise FailClosed("object expected: %r" % (d,))
    ks = set(d)
    if not set(required) <= ks or not ks <= set(required) | set(optional):
        raise FailClosed("unexpected field set %s (required %s, optional %s)" % (sorted(ks), required, optional))


def g_bound(b):
    if b == "C":
        return "Copyable"
    if b == "A":
        return "Any"
    raise FailClosed("bound %r" % (b,))


def g_sparam(p, api=False):
    """serial TypeParam dict -> sparam (or typaram when api=True)"""
    pre = "P" if api else "SP"
    tp = p.get("tp") if isinstance(p, dict) else None
    if tp == "Type":
        only(p, ["tp", "b"])
        return gapp(pre + "Type", g_bound(p["b"]))
    if tp == "BoundedNat":
        only(p, ["tp"], ["bound"])
        b = p.get("bound")
        if b is not None and (not isinstance(b, int) or b < 0):
            raise FailClosed("nat bound %r" % (b,))
        return gapp(pre + "Nat", gopt(None if b is None else gN(b)))
    if tp == "String":
        only(p, ["tp"])
        return pre + "String"
    if tp == "Extensions":
        only(p, ["tp"])
        return pre + "Exts"
    if tp == "List":
        only(p, ["tp", "param"])
        return gapp(pre + "List", g_sparam(p["param"], api))
    if tp == "Tuple":
        only(p, ["tp", "params"])
        return gapp(pre + "Tuple", glist(g_sparam(q, api) for q in p["params"]))
    raise FailClosed("type parameter %r" % (p,))


SEMVER = re.compile(r"^(0|[1-9]\d*)\.(0|[1-9]\d*)\.(0|[1-9]\d*)(?:-([0-9A-Za-z.-]+))?(?:\+([0-9A-Za-z.-]+))?$")


def parse_version(s):
    m = SEMVER.match(s) if isinstance(s, str) else None
    if not m:
        raise FailClosed("version %r" % (s,))
    return [int(m.group(1)), int(m.group(2)), int(m.group(3)), m.group(4), m.group(5)]


def g_version(v, I):
    return gapp("mkVer", gN(v[0]), gN(v[1]), gN(v[2]),
                gopt(None if v[3] is None else gN(I(v[3]))), gopt(None if v[4] is None else gN(I(v[4]))))


def g_names_sorted(xs, I):
    """an observed / stored set of names in the canonical order of the model (no deduplication:
    a repeated name stays visible)"""
    return glist(gN(i) for i in sorted(I(x) for x in xs))


def g_names(xs, I):
    return glist(gN(I(x)) for x in xs)


def g_sbound(b):
    if b.get("b") == "Explicit":
        only(b, ["b", "bound"])
        return gapp("SExplicit", g_bound(b["bound"]))
    if b.get("b") == "FromParams":
        only(b, ["b", "indices"])
        return gapp("SFromParams", glist(gnat(i) for i in b["indices"]))
    raise FailClosed("bound %r" % (b,))


def norm_type(t):
    """A type expression of an INPUT document in the form pydantic gives it (defaults filled in): the model
    starts at the serial-model layer, JSON text -> serial model is pydantic's."""
    import hugr._serialization.tys as stys
    return stys.Type.model_validate(t).model_dump(mode="json")


def norm_value(v):
    import hugr._serialization.ops as sops
    return sops.Value.model_validate(v).model_dump(mode="json")


def g_spoly(s, I, canonical):
    only(s, ["params", "body"])
    b = s["body"]
    only(b, ["input", "output"], ["t", "runtime_reqs"])
    if b.get("t", "G") != "G":
        raise FailClosed("body tag")
    reqs = b.get("runtime_reqs", [])
    body = "{| sf_input := %s; sf_output := %s; sf_reqs := %s |}" % (
        glist(g_json(t if canonical else norm_type(t), I) for t in b["input"]),
        glist(g_json(t if canonical else norm_type(t), I) for t in b["output"]),
        g_names_sorted(reqs, I) if canonical else g_names(reqs, I))
    return "{| sp_params := %s; sp_body := %s |}" % (glist(g_sparam(p) for p in s["params"]), body)


def g_sext(d, I, canonical):
    """A serial Extension document (python dict, as parsed from JSON) -> sextension literal.
    canonical=True for observed outputs (sets in the model's order), False for input documents."""
    only(d, ["version", "name", "runtime_reqs", "types", "values", "operations"])
    types = []
    for k, t in d["types"].items():
        only(t, ["extension", "name", "description", "params", "bound"])
        types.append(gpair(gN(I(k)), "{| std_extension := %s; std_name := %s; std_descr := %s; std_params := %s; std_bound := %s |}" % (
            gN(I(t["extension"])), gN(I(t["name"])), gN(I(t["description"])),
            glist(g_sparam(p) for p in t["params"]), g_sbound(t["bound"]))))
    values = []
    for k, v in d["values"].items():
        only(v, ["extension", "name", "typed_value"])
        values.append(gpair(gN(I(k)), "{| sv_extension := %s; sv_name := %s; sv_typed_value := %s |}" % (
            gN(I(v["extension"])), gN(I(v["name"])), g_json(v["typed_value"] if canonical else norm_value(v["typed_value"]), I))))
    ops = []
    for k, o in d["operations"].items():
        only(o, ["extension", "name", "description"], ["misc", "signature", "binary", "lower_funcs"])
        if o.get("lower_funcs"):
            raise FailClosed("lowering functions are outside the property's quantifier")
        misc = o.get("misc")
        if misc is not None and not isinstance(misc, dict):
            raise FailClosed("misc")
        sig = o.get("signature")
        ops.append(gpair(gN(I(k)), "{| so_extension := %s; so_name := %s; so_descr := %s; so_misc := %s; so_signature := %s; so_binary := %s |}" % (
            gN(I(o["extension"])), gN(I(o["name"])), gN(I(o["description"])),
            gopt(None if misc is None else glist(gpair(gN(I(mk)), g_json(mv, I)) for mk, mv in misc.items())),
            gopt(None if sig is None else g_spoly(sig, I, canonical)), gbool(bool(o.get("binary", False))))))
    return "{| se_version := %s; se_name := %s; se_reqs := %s; se_types := %s; se_values := %s; se_ops := %s |}" % (
        g_version(parse_version(d["version"]), I), gN(I(d["name"])),
        g_names_sorted(d["runtime_reqs"], I) if canonical else g_names(d["runtime_reqs"], I),
        glist(types), glist(values), glist(ops))


def g_ores(o, I):
    """a document, or `ORaised` for ANY exception: the class is recorded in the observation (evidence, replay
    files, `signature`) but never compared -- inside the property's domain raising is the failure whatever the
    class, outside of it the class is unspecified"""
    if o[0] == "ok":
        return gapp("OOk", g_sext(o[1], I, True))
    return "ORaised"


def doc_in_domain(d):
    """Python twin of C10Run.doc_wf, for the statistics and the drift diagnostic only (the verdict uses the Coq
    definition): the document looks like the serialisation of an extension."""
    n = d["name"]
    if len(set(d["runtime_reqs"])) != len(d["runtime_reqs"]):
        return False
    for f in ("types", "values", "operations"):
        for k, x in d[f].items():
            if k != x["name"] or x["extension"] != n:
                return False
    for o in d["operations"].values():
        if not isinstance(o.get("misc"), dict):
            return False
        sig = o.get("signature")
        if sig is None:
            if not o.get("binary", False):
                return False
        else:
            rs = sig["body"].get("runtime_reqs", [])
            if n not in rs or len(set(rs)) != len(rs):
                return False
    return True


def pinned_outcomes(d):
    """what Extension.from_json did with a document at the pinned commit: the exception classes it could raise
    (diagnostic 'model drift' only)"""
    exp = set()
    if any(k != x["name"] for f in ("types", "values", "operations") for k, x in d[f].items()):
        exp.add("AssertionError")
    if any(o.get("signature") is None and not o.get("binary", False) for o in d["operations"].values()):
        exp.add("ValueError")
    return exp or {"ok"}


def distinct_objs(objs):
    """definition objects of a world get distinct (kind, name) slots: which of two DIFFERENT definitions added
    to one extension under one name is held afterwards is the business of add_*, on which the property is silent"""
    used, out = set(), []
    for c in objs:
        nm = c["name"]
        if (c["c"], nm) in used:
            nm = next((x for x in DEF_NAMES if (c["c"], x) not in used), None) or "%s_%d" % (nm, len(out))
        used.add((c["c"], nm))
        out.append({**c, "name": nm})
    return out


def g_owners(ow, I):
    return glist(gpair(gpair(gN(I(k)), gbool(b)), gopt(None if rs is None else g_names_sorted(rs, I))) for k, b, rs in ow)


def g_held(ow, I):
    """(key, index of the Extension object reported as owner or None, requirement set or None)"""
    return glist(gpair(gpair(gN(I(k)), gopt(None if i is None else gnat(i))), gopt(None if rs is None else g_names_sorted(rs, I)))
                 for k, i, rs in ow)


# ------------------------------------------------------------------ building hugr objects from descriptions
def b_bound(b):
    from hugr import tys
    return tys.TypeBound.Copyable if b == "C" else tys.TypeBound.Any


def b_param(p):
    from hugr import tys
    k = p[0]
    if k == "type":
        return tys.TypeTypeParam(b_bound(p[1]))
    if k == "nat":
        return tys.BoundedNatParam(p[1])
    if k == "str":
        return tys.StringParam()
    if k == "exts":
        return tys.ExtensionsParam()
    if k == "list":
        return tys.ListParam(b_param(p[1]))
    if k == "tuple":
        return tys.TupleParam([b_param(q) for q in p[1]])
    raise AssertionError(p)


def param_serial(p):
    """description -> the serial dict (written by hand, independent of hugr-py)"""
    k = p[0]
    if k == "type":
        return {"tp": "Type", "b": p[1]}
    if k == "nat":
        return {"tp": "BoundedNat", "bound": p[1]}
    if k == "str":
        return {"tp": "String"}
    if k == "exts":
        return {"tp": "Extensions"}
    if k == "list":
        return {"tp": "List", "param": param_serial(p[1])}
    if k == "tuple":
        return {"tp": "Tuple", "params": [param_serial(q) for q in p[1]]}
    raise AssertionError(p)


def b_arg(a):
    from hugr import tys
    k = a[0]
    if k == "t":
        return tys.TypeTypeArg(b_type(a[1]))
    if k == "n":
        return tys.BoundedNatArg(a[1])
    if k == "s":
        return tys.StringArg(a[1])
    if k == "seq":
        return tys.SequenceArg([b_arg(x) for x in a[1]])
    if k == "var":
        return tys.VariableArg(a[1], b_param(a[2]))
    raise AssertionError(a)


def b_type(t):
    from hugr import tys
    k = t[0]
    if k == "bool":
        return tys.Bool
    if k == "unit":
        return tys.Unit
    if k == "qubit":
        return tys.Qubit
    if k == "usize":
        return tys.USize()
    if k == "var":
        return tys.Variable(t[1], b_bound(t[2]))
    if k == "rowvar":
        return tys.RowVariable(t[1], b_bound(t[2]))
    if k == "tuple":
        return tys.Tuple(*[b_type(x) for x in t[1]])
    if k == "sum":
        return tys.Sum([[b_type(x) for x in r] for r in t[1]])
    if k == "option":
        return tys.Option(b_type(t[1]))
    if k == "func":
        return tys.FunctionType([b_type(x) for x in t[1]], [b_type(x) for x in t[2]], list(t[3]))
    if k == "opaque":
        return tys.Opaque(t[2], b_bound(t[4]), [b_arg(a) for a in t[3]], t[1])
    if k == "alias":
        return tys.Alias(t[1], b_bound(t[2]))
    if k == "int":
        from hugr.std.int import int_t
        return int_t(t[1])
    if k == "float":
        from hugr.std.float import FLOAT_T
        return FLOAT_T
    if k == "string":
        from hugr.std.prelude import STRING_T
        return STRING_T
    if k == "array":
        from hugr.std.collections.array import Array
        return Array(b_type(t[1]), t[2])
    if k == "list":
        from hugr.std.collections.list import List
        return List(b_type(t[1]))
    raise AssertionError(t)


def b_value(v):
    from hugr import val
    k = v[0]
    if k == "true":
        return val.TRUE
    if k == "false":
        return val.FALSE
    if k == "unit":
        return val.Unit
    if k == "tuple":
        return val.Tuple(*[b_value(x) for x in v[1]])
    if k == "some":
        return val.Some(*[b_value(x) for x in v[1]])
    if k == "none":
        return val.None_(*[b_type(x) for x in v[1]])
    if k == "sum":
        from hugr import tys
        return val.Sum(v[1], tys.Sum([[b_type(x) for x in r] for r in v[2]]), [b_value(x) for x in v[3]])
    if k == "int":
        from hugr.std.int import IntVal
        return IntVal(v[1], v[2])
    if k == "float":
        from hugr.std.float import FloatVal
        return FloatVal(v[1])
    if k == "string":
        from hugr.std.prelude import StringVal
        return StringVal(v[1])
    if k == "list":
        from hugr.std.collections.list import ListVal
        return ListVal([b_value(x) for x in v[1]], b_type(v[2]))
    raise AssertionError(v)


def ser_type(t):
    return b_type(t)._to_serial_root().model_dump(mode="json")


def ser_value(v):
    return b_value(v)._to_serial_root().model_dump(mode="json")


# ------------------------------------------------------------------ generators
EXT_NAMES = ["foo", "foo.bar", "a.b.c", "ext_é", "prelude", "arithmetic.int.types", "q", "Zed", "x.y"]
DEF_NAMES = ["T", "U", "op", "op2", "Not", "lift", "MyType", "v", "w", "größe", "a_b", "X9"]
DESCRS = ["", "plain", "dèscription ∀ α→β", "line\nbreak \"quoted\" \\ back", "日本語", "tab\there", "x" * 40]
DESCR_ALPHABET = " aZ0_é∀\n\t\"\\'{}[],:.-日"


def rand_descr(rng):
    if rng.random() < 0.5:
        return rng.choice(DESCRS)
    return "".join(rng.choice(DESCR_ALPHABET) for _ in range(rng.randint(0, 12)))


PRE = [None, None, None, "alpha", "alpha.1", "rc.2", "0.3.7", "x-y"]
BUILD = [None, None, None, "b5", "exp.sha.5114f85", "001"]


def rand_param(rng, depth=0):
    r = rng.random()
    if r < 0.3:
        return ["type", rng.choice("AC")]
    if r < 0.5:
        return ["nat", rng.choice([None, None, 0, 1, 7, 64, 2 ** 40])]
    if r < 0.6:
        return ["str"]
    if r < 0.67:
        return ["exts"]
    if depth >= 2:
        return ["type", "A"]
    if r < 0.85:
        return ["list", rand_param(rng, depth + 1)]
    return ["tuple", [rand_param(rng, depth + 1) for _ in range(rng.randint(0, 3))]]


def rand_type(rng, depth=0):
    r = rng.random()
    leaf = depth >= 2 or r < 0.5
    if leaf:
        return rng.choice([["bool"], ["unit"], ["qubit"], ["usize"], ["var", rng.randint(0, 2), rng.choice("AC")],
                           ["int", rng.randint(0, 6)], ["float"], ["string"], ["alias", rng.choice(DEF_NAMES), rng.choice("AC")],
                           ["opaque", rng.choice(EXT_NAMES), rng.choice(DEF_NAMES), [], rng.choice("AC")]])
    k = rng.choice(["tuple", "sum", "option", "func", "opaque", "array", "list", "rowsum"])
    sub = lambda: rand_type(rng, depth + 1)
    if k == "tuple":
        return ["tuple", [sub() for _ in range(rng.randint(0, 3))]]
    if k == "sum":
        return ["sum", [[sub() for _ in range(rng.randint(0, 2))] for _ in range(rng.randint(1, 3))]]
    if k == "rowsum":
        return ["sum", [[["rowvar", rng.randint(0, 2), rng.choice("AC")]], [sub()]]]
    if k == "option":
        return ["option", sub()]
    if k == "func":
        return ["func", [sub() for _ in range(rng.randint(0, 2))], [sub() for _ in range(rng.randint(0, 2))],
                rng.sample(EXT_NAMES, rng.randint(0, 2))]
    if k == "opaque":
        args = []
        for _ in range(rng.randint(0, 3)):
            a = rng.random()
            args.append(["t", sub()] if a < 0.4 else ["n", rng.choice([0, 1, 5, 2 ** 33])] if a < 0.7 else
                        ["s", rng.choice(DESCRS)] if a < 0.8 else ["seq", [["n", 1], ["t", sub()]][: rng.randint(0, 2)]] if a < 0.9
                        else ["var", rng.randint(0, 2), rand_param(rng, 1)])
        return ["opaque", rng.choice(EXT_NAMES), rng.choice(DEF_NAMES), args, rng.choice("AC")]
    if k == "array":
        return ["array", sub(), rng.choice([0, 1, 4, 100])]
    return ["list", sub()]


def rand_json(rng, depth=0):
    r = rng.random()
    if depth >= 2 or r < 0.6:
        return rng.choice([None, True, False, 0, -3, 2 ** 70, 1.5, -0.25, 1e300, "", "s", "ü∀", "a\"b"])
    if r < 0.8:
        return [rand_json(rng, depth + 1) for _ in range(rng.randint(0, 3))]
    return {rng.choice(["k", "z", "a", "é", ""]) + str(i): rand_json(rng, depth + 1) for i in range(rng.randint(0, 3))}


def rand_value(rng, depth=0):
    r = rng.random()
    if depth >= 2 or r < 0.55:
        return rng.choice([["true"], ["false"], ["unit"], ["int", rng.randint(-5, 300), rng.randint(0, 6)],
                           ["float", rng.choice([0.0, 2.5, -1e-9, 1e300, 3.0])], ["string", rng.choice(DESCRS)],
                           ["none", [["bool"]]]])
    k = rng.choice(["tuple", "some", "sum", "list"])
    sub = lambda: rand_value(rng, depth + 1)
    if k == "tuple":
        return ["tuple", [sub() for _ in range(rng.randint(0, 3))]]
    if k == "some":
        return ["some", [sub() for _ in range(rng.randint(1, 2))]]
    if k == "sum":
        return ["sum", 1, [[["bool"]], []], []] if rng.random() < 0.5 else ["sum", 0, [[["qubit"], ["unit"]], [["bool"]]], []]
    return ["list", [["int", rng.randint(0, 9), 5] for _ in range(rng.randint(0, 3))], ["int", 5]]


def rand_hist(rng, big=False):
    name = rng.choice(EXT_NAMES)
    names = rng.sample(DEF_NAMES, rng.randint(1, 6))       # few names: re-adding a name happens
    cmds = []
    n = rng.choice([0, 1, 2, 3, 4, 6, 9]) if not big else rng.randint(10, 25)
    for _ in range(n):
        r = rng.random()
        if r < 0.3:
            params = [rand_param(rng) for _ in range(rng.choice([0, 0, 1, 2, 3]))]
            if rng.random() < 0.5 or not params:
                bound = ["E", rng.choice("AC")]
            else:
                bound = ["F", [rng.randrange(len(params)) for _ in range(rng.randint(0, len(params) + 1))]]   # any order, repeats
            cmds.append({"c": "type", "name": rng.choice(names), "descr": rand_descr(rng), "params": params, "bound": bound})
        elif r < 0.8:
            s = rng.random()
            sig, binary, func = None, False, False
            if s < 0.15:
                binary = True
            else:
                binary = s > 0.9
                params = [rand_param(rng) for _ in range(rng.choice([0, 0, 1, 2]))]
                q = rng.random()
                reqs = (rng.sample(EXT_NAMES, rng.randint(0, 3)) if q < 0.6 else
                        [name] + rng.sample(EXT_NAMES, rng.randint(0, 2)) if q < 0.8 else
                        [rng.choice(EXT_NAMES)] * 2 + [name])                     # duplicates, owner already present
                sig = {"params": params, "in": [rand_type(rng) for _ in range(rng.randint(0, 3))],
                       "out": [rand_type(rng) for _ in range(rng.randint(0, 2))], "reqs": reqs}
                func = not params and rng.random() < 0.5
            misc = {} if rng.random() < 0.6 else {rng.choice(["commutative", "k", "ü", "z"]) + str(i): rand_json(rng) for i in range(rng.randint(1, 3))}
            cmds.append({"c": "op", "name": rng.choice(names), "descr": rand_descr(rng), "misc": misc,
                         "sig": sig, "binary": binary, "func": func})
        else:
            cmds.append({"c": "value", "name": rng.choice(names), "val": rand_value(rng)})
    return {"kind": "hist", "name": name,
            "version": [rng.choice([0, 0, 1, 12]), rng.choice([0, 1, 2, 30]), rng.choice([0, 1, 5]), rng.choice(PRE), rng.choice(BUILD)],
            "reqs": rng.sample(EXT_NAMES, rng.randint(0, 3)), "cmds": cmds}


RAW_TYPES = [
    {"t": "Q"}, {"t": "I"}, {"t": "Sum", "s": "Unit", "size": 2}, {"t": "V", "i": 0, "b": "C"}, {"t": "R", "i": 1, "b": "A"},
    {"t": "Opaque", "extension": "arithmetic.int.types", "id": "int", "args": [{"tya": "BoundedNat", "n": 5}], "bound": "C"},
    {"t": "Opaque", "extension": "x.y", "id": "T", "args": [{"tya": "Type", "ty": {"t": "Q"}}, {"tya": "Sequence", "elems": []},
                                                           {"tya": "String", "arg": "ü"}], "bound": "A"},
    {"t": "Sum", "s": "General", "rows": [[{"t": "Q"}], []]},
    {"t": "G", "input": [{"t": "I"}], "output": [], "runtime_reqs": ["q"]},
    {"t": "Alias", "name": "al", "bound": "C"},
]
RAW_VALUES = [
    {"v": "Tuple", "vs": []},
    {"v": "Sum", "tag": 1, "typ": {"t": "Sum", "s": "Unit", "size": 2}, "vs": []},
    {"v": "Tuple", "vs": [{"v": "Sum", "tag": 0, "typ": {"t": "Sum", "s": "Unit", "size": 2}, "vs": []}]},
    {"v": "Extension", "extensions": ["arithmetic.int.types"],
     "typ": {"t": "Opaque", "extension": "arithmetic.int.types", "id": "int", "args": [{"tya": "BoundedNat", "n": 3}], "bound": "C"},
     "value": {"c": "ConstInt", "v": {"log_width": 3, "value": 5}}},
    {"v": "Extension", "extensions": ["arithmetic.float.types"],
     "typ": {"t": "Opaque", "extension": "arithmetic.float.types", "id": "float64", "args": [], "bound": "C"},
     "value": {"c": "ConstF64", "v": {"value": 2.5}}},
]


def rand_doc(rng, edge):
    """A serial document written directly (not through hugr-py).  edge = probability of each oddity:
    foreign owner field, key != name, neither signature nor binary, absent/null misc, missing defaults."""
    name = rng.choice(EXT_NAMES)
    wf = edge == 0.0        # the serialisation of some extension (up to pydantic defaults): inside the domain
    own = lambda: rng.choice(EXT_NAMES) if rng.random() < edge else name
    key = lambda n: rng.choice(DEF_NAMES) if rng.random() < edge / 3 else n
    types, values, ops = {}, {}, {}
    for n in rng.sample(DEF_NAMES, rng.randint(0, 3)):
        params = [param_serial(rand_param(rng)) for _ in range(rng.choice([0, 1, 2]))]
        bound = {"b": "Explicit", "bound": rng.choice("AC")} if rng.random() < 0.5 or not params else \
            {"b": "FromParams", "indices": [rng.randrange(len(params)) for _ in range(rng.randint(0, len(params) + 1))]}
        types[key(n)] = {"extension": own(), "name": n, "description": rand_descr(rng), "params": params, "bound": bound}
    for n in rng.sample(DEF_NAMES, rng.randint(0, 2)):
        values[key(n)] = {"extension": own(), "name": n, "typed_value": rng.choice(RAW_VALUES)}
    for n in rng.sample(DEF_NAMES, rng.randint(0, 5)):
        o = {"extension": own(), "name": n, "description": rand_descr(rng)}
        r = rng.random()
        if r < 0.75:
            q = rng.random()
            reqs = rng.sample(EXT_NAMES, rng.randint(0, 3))
            if q < 0.4:
                reqs = reqs + [name]
            elif q < 0.5:
                reqs = reqs + reqs[:1] + [name, name]
            if wf:
                reqs = list(dict.fromkeys(reqs + [name]))
                rng.shuffle(reqs)
            body = {"input": [rng.choice(RAW_TYPES) for _ in range(rng.randint(0, 3))],
                    "output": [rng.choice(RAW_TYPES) for _ in range(rng.randint(0, 2))], "runtime_reqs": reqs}
            if rng.random() < 0.5:
                body["t"] = "G"
            o["signature"] = {"params": [param_serial(rand_param(rng)) for _ in range(rng.choice([0, 0, 1, 2]))], "body": body}
            if rng.random() < 0.7:
                o["binary"] = rng.random() < 0.15
        elif r < 0.75 + 0.25 * (1 - edge):
            o["binary"] = True
            if rng.random() < 0.5:
                o["signature"] = None
        else:
            if rng.random() < 0.5:
                o["binary"] = False
        m = rng.random()
        if m < 0.3:
            o["misc"] = {"k" + str(i): rand_json(rng) for i in range(rng.randint(0, 2))}
        elif m < 0.45:
            o["misc"] = None
        if wf and not isinstance(o.get("misc"), dict):
            o["misc"] = {}
        if rng.random() < 0.3:
            o["lower_funcs"] = []
        ops[key(n)] = o
    reqs = rng.sample(EXT_NAMES, rng.randint(0, 3))
    if rng.random() < 0.2 and not wf:
        reqs = reqs + reqs[:1]
    v = [rng.choice([0, 1, 3]), rng.choice([0, 1, 10]), rng.choice([0, 2]), rng.choice(PRE), rng.choice(BUILD)]
    vs = "%d.%d.%d" % tuple(v[:3]) + ("-" + v[3] if v[3] else "") + ("+" + v[4] if v[4] else "")
    return {"kind": "doc", "must_load": False, "std": None,
            "doc": {"version": vs, "name": name, "runtime_reqs": reqs, "types": types, "values": values, "operations": ops}}


def rand_shared(rng):
    names = rng.sample(EXT_NAMES, rng.randint(2, 3))
    exts = [{"name": n, "version": [0, rng.randint(0, 3), 0, None, None], "reqs": rng.sample(EXT_NAMES, rng.randint(0, 2))} for n in names]
    pool = rand_hist(rng, big=True)["cmds"]
    objs = pool[: rng.randint(1, 4)] or [{"c": "op", "name": "op", "descr": "", "misc": {}, "binary": True, "sig": None, "func": False}]
    objs = distinct_objs(objs)
    prog = [[rng.randrange(len(exts)), rng.randrange(len(objs))] for _ in range(rng.randint(1, 8))]
    return {"kind": "shared", "exts": exts, "objs": objs, "prog": prog}


def rand_world(rng):
    """Several Extension OBJECTS whose names mostly coincide (an extension and its copy / its next version;
    sometimes wholly equal headers), and definition objects handed to them in any pattern."""
    base = rng.choice(EXT_NAMES)
    n = rng.randint(2, 4)
    same_hdr = rng.random() < 0.25
    exts = []
    for i in range(n):
        nm = base if rng.random() < 0.75 else rng.choice(EXT_NAMES)
        if same_hdr and exts:
            exts.append({**exts[0], "name": nm})
        else:
            exts.append({"name": nm, "version": [rng.choice([0, 1]), rng.randint(0, 3), rng.choice([0, 5]), rng.choice(PRE), None],
                         "reqs": rng.sample(EXT_NAMES, rng.randint(0, 2))})
    pool = rand_hist(rng, big=True)["cmds"]
    objs = pool[: rng.randint(1, 4)] or [{"c": "op", "name": "op", "descr": "", "misc": {}, "binary": True, "sig": None, "func": False}]
    if not any(o["c"] == "op" for o in objs):
        objs.append({"c": "op", "name": rng.choice(DEF_NAMES), "descr": rand_descr(rng), "misc": {}, "binary": rng.random() < 0.3, "func": True,
                     "sig": {"params": [], "in": [rand_type(rng)], "out": [], "reqs": rng.sample(EXT_NAMES, rng.randint(0, 2))}})
    objs = distinct_objs(objs)
    prog = []
    if rng.random() < 0.35:
        # every object to every Extension object first: the Extension objects then hold equal contents (and, with
        # equal headers, compare == although they are different objects); the random steps follow
        prog = [[i, j] for j in range(len(objs)) for i in range(n)]
    prog += [[rng.randrange(n), rng.randrange(len(objs))] for _ in range(rng.randint(2, 10))]
    return {"kind": "world", "exts": exts, "objs": objs, "prog": prog}


VIAS = ["json", "serial", "package"]
KINDS = ["type", "op", "value"]


def rand_seq(rng, i=None):
    """ONE Extension object over time (seeded round 4): definitions are added, the object is serialised
    (observed), MORE definitions are added to the same object -- or to the object loaded back from the document --,
    it is serialised again, ...  `via`: which public writer/loader pair is used at a point (Extension.to_json /
    from_json, the serial model of _to_serial, a Package holding the extension).  Focused cases (i given): a
    prefix, a point, ONE more definition of a chosen kind, a point -- every mutator after every serialiser."""
    h = rand_hist(rng, big=(i is None and rng.random() < 0.1))
    cmds = h["cmds"]
    segs = []
    if i is not None:
        kind, via = KINDS[i % 3], VIAS[(i // 3) % 3]
        pool = [c for c in rand_hist(rng, big=True)["cmds"] if c["c"] == kind]
        one = dict(pool[0]) if pool else {
            "type": {"c": "type", "name": "T", "descr": "", "params": [], "bound": ["E", "C"]},
            "op": {"c": "op", "name": "op", "descr": "", "misc": {}, "binary": True, "sig": None, "func": False},
            "value": {"c": "value", "name": "v", "val": ["true"]}}[kind]
        if rng.random() < 0.6:          # a name the extension does not hold yet
            used = {c["name"] for c in cmds if c["c"] == kind}
            one["name"] = next((x for x in DEF_NAMES if x not in used), one["name"])
        segs.append({"cmds": cmds[: rng.randint(0, 4)], "via": via, "reload": rng.random() < 0.25})
        segs.append({"cmds": [one], "via": rng.choice(VIAS), "reload": False})
        if rng.random() < 0.3:
            segs.append({"cmds": [], "via": rng.choice(VIAS), "reload": False})
    else:
        k = rng.randint(2, 4)
        cuts = sorted(rng.randint(0, len(cmds)) for _ in range(k - 1))
        parts = [cmds[a:b] for a, b in zip([0] + cuts, cuts + [len(cmds)])]
        for part in parts:
            segs.append({"cmds": part, "via": rng.choice(VIAS), "reload": rng.random() < 0.3})
    return {"kind": "seq", "name": h["name"], "version": h["version"], "reqs": h["reqs"], "segs": segs}


def std_files(root):
    out = {}
    for p in sorted(glob.glob(os.path.join(root, "**", "*.json"), recursive=True)):
        out[os.path.relpath(p, root).replace(os.sep, "/")] = p
    return out


# ------------------------------------------------------------------ helper table (introspection of hugr.std.*)
SIG_ERRORS: list = []


def subst_json(x, args):
    """substitutes type arguments (serial JSON) for the variables of a serial type expression"""
    if isinstance(x, list):
        return [subst_json(y, args) for y in x]
    if isinstance(x, dict):
        if x.get("tya") == "Variable" and x.get("idx") is not None and x["idx"] < len(args):
            return args[x["idx"]]
        if x.get("t") == "V" and x.get("i") is not None and x["i"] < len(args) and args[x["i"]].get("tya") == "Type":
            return args[x["i"]]["ty"]
        return {k: subst_json(v, args) for k, v in x.items()}
    return x


def norm_sums(x):
    """one spelling for sum types in serial form: a general sum whose rows are all empty IS the unit sum of that
    size (tys.Bool / tys.UnitSum(n) vs tys.Sum([[], []])): sugar and general spelling denote the same type"""
    if isinstance(x, list):
        return [norm_sums(y) for y in x]
    if isinstance(x, dict):
        if x.get("t") == "Sum" and x.get("s") == "General" and isinstance(x.get("rows"), list) and all(r == [] for r in x["rows"]):
            return {"t": "Sum", "s": "Unit", "size": len(x["rows"])}
        return {k: norm_sums(v) for k, v in x.items()}
    return x


def helper_sig_mismatch(o):
    """None, or what differs between the helper's cached signature and its definition's signature at its args"""
    try:
        cs = o.cached_signature()
        pf = o.op_def().signature.poly_func
        if cs is None or pf is None:
            return None
        args = [a._to_serial_root().model_dump(mode="json") for a in o.type_args()]
        if len(args) != len(pf.params):
            return {"what": "number of type arguments", "args": len(args), "params": len(pf.params)}
        want = norm_sums(subst_json(pf.body._to_serial().model_dump(mode="json"), args))
        got = norm_sums(cs._to_serial().model_dump(mode="json"))
        if "\"t\": \"R\"" in json.dumps(want):          # row variables: substitution changes arity, not handled here
            return None
        for k in ("input", "output"):
            if want[k] != got[k]:
                return {"what": k + " row", "definition_at_args": want[k], "helper": got[k]}
        if not set(want.get("runtime_reqs", [])) <= set(got.get("runtime_reqs", [])):
            return {"what": "runtime requirements", "definition_at_args": want.get("runtime_reqs"), "helper": got.get("runtime_reqs")}
        return None
    except Exception as e:  # noqa: BLE001
        return {"what": "raised " + type(e).__name__}


def argkind(a, I):
    from hugr import tys
    if isinstance(a, tys.TypeTypeArg):
        return gapp("KType", "Copyable" if a.ty.type_bound() == tys.TypeBound.Copyable else "Any")
    if isinstance(a, tys.BoundedNatArg):
        return gapp("KNat", gN(a.n))
    if isinstance(a, tys.StringArg):
        return "KString"
    if isinstance(a, tys.SequenceArg):
        return gapp("KSeq", glist(argkind(x, I) for x in a.elems))
    if isinstance(a, tys.ExtensionsArg):
        return "KExts"
    if isinstance(a, tys.VariableArg):
        return gapp("KVar", g_sparam(a.param._to_serial_root().model_dump(mode="json")))
    raise FailClosed("type argument %r" % (a,))


def helper_rows(I, notes):
    """[(label, kind, ext, def, [argkind literal], [ext names])] from the public objects of hugr.std.*"""
    import hugr.std
    from hugr import ext, ops, tys, val
    rows, errors = [], []
    sig_errors = SIG_ERRORS
    del sig_errors[:]

    def type_row(label, t):
        rows.append((label, "HType", t.type_def.get_extension().name, t.type_def.name, [argkind(a, I) for a in t.args], []))

    def samples(ann, pname):
        ann = str(ann).replace("typing.", "")
        if ann == "int":
            return [0, 1, 3, 5, 6]
        if ann == "float":
            return [0.5]
        if ann == "str":
            return ["s"]
        if ann in ("tys.Type", "Type"):
            from hugr.std.int import int_t
            # seeded round 4: element types that are type VARIABLES (copyable / any) as well
            return [tys.Bool, int_t(4), tys.Tuple(tys.Bool, tys.Unit)] + ([tys.Qubit] if "static" not in pname else []) + [
                tys.Variable(0, tys.TypeBound.Copyable), tys.Variable(1, tys.TypeBound.Any)]
        if ann in ("int | tys.TypeArg", "int | TypeArg", "tys.TypeArg", "TypeArg", "tys.TypeArg | int", "TypeArg | int"):
            # seeded round 4 (C10-h): an argument given as a VARIABLE declared with every kind of parameter (only
            # those the definition's parameter admits may be accepted), and non-variable arguments of every kind;
            # what the constructor refuses is skipped, what it accepts must match the definition's parameters
            C, A = tys.TypeBound.Copyable, tys.TypeBound.Any
            return [0, 4, tys.VariableArg(0, tys.BoundedNatParam()),
                    tys.VariableArg(0, tys.TypeTypeParam(C)), tys.VariableArg(1, tys.BoundedNatParam(8)),
                    tys.VariableArg(0, tys.StringParam()), tys.VariableArg(2, tys.ListParam(tys.BoundedNatParam())),
                    tys.VariableArg(1, tys.TypeTypeParam(A)), tys.VariableArg(0, tys.ExtensionsParam()),
                    tys.VariableArg(0, tys.TupleParam([tys.BoundedNatParam()])), tys.VariableArg(3, tys.TupleParam([])),
                    tys.VariableArg(0, tys.ListParam(tys.TypeTypeParam(A))),
                    tys.BoundedNatArg(7), tys.StringArg("3"), tys.TypeTypeArg(tys.Bool),
                    tys.SequenceArg([tys.BoundedNatArg(1)]), tys.SequenceArg([]), tys.ExtensionsArg(["prelude"])]
        if ann in ("list[val.Value]", "list[Value]"):
            return [[], [val.TRUE]]
        return None

    def instantiate(label, cls, use):
        sig = inspect.signature(cls.__init__ if inspect.isclass(cls) else cls)
        ps = [p for n, p in sig.parameters.items() if n != "self"]
        cols = []
        for p in ps:
            s = samples(p.annotation, label.lower() if "tatic" in label else p.name)
            if s is None:
                notes.append("helper %s: parameter %s : %s has no sample values; not covered" % (label, p.name, p.annotation))
                return
            cols.append(s)
        import itertools
        n = max([len(c) for c in cols] + [1])
        total = 1
        for c in cols:
            total *= len(c)
        # every combination of the sample values when there are few (seeded round 4: every element type with every
        # size argument), otherwise the columns side by side
        combos = list(itertools.product(*cols)) if total <= 150 else [[c[i % len(c)] for c in cols] for i in range(n)]
        done = 0
        for args in combos:
            lab = "%s(%s)" % (label, ", ".join(repr(a) if isinstance(a, tys.VariableArg) else str(a) for a in args))
            try:
                obj = cls(*args)
            except Exception:  # noqa: BLE001  (a sample outside the constructor's domain: any class of refusal)
                continue
            use(lab, obj)
            done += 1
        if not done:
            notes.append("helper %s: no sample accepted" % label)

    def const_row(lab, v):
        e = v.to_value()
        t = e.typ
        if not isinstance(t, tys.ExtType):
            raise FailClosed("%s: type of the constant is %r" % (lab, t))
        rows.append((lab, "HConst", t.type_def.get_extension().name, t.type_def.name, [argkind(a, I) for a in t.args], list(e.extensions)))

    def op_row(lab, o):
        od = o.op_def()
        rows.append((lab, "HOp", od.get_extension().name, od.name, [argkind(a, I) for a in o.type_args()], []))
        # the helper's concrete signature must be the definition's signature instantiated at its type arguments
        bad = helper_sig_mismatch(o)
        if bad is not None:
            sig_errors.append({"helper": lab, **bad})

    mods = sorted(m.name for m in pkgutil.walk_packages(hugr.std.__path__, "hugr.std.") if not m.name.split(".")[-1].startswith("_"))
    for mn in mods:
        try:
            mod = importlib.import_module(mn)
            for an in sorted(vars(mod)):
                obj = getattr(mod, an)
                lab = mn + "." + an
                if isinstance(obj, tys.ExtType):
                    type_row(lab, obj)
                elif isinstance(obj, ext.TypeDef):
                    rows.append((lab, "HType", obj.get_extension().name, obj.name,
                                 [gapp("KVar", g_sparam(p._to_serial_root().model_dump(mode="json"))) for p in obj.params], []))
                elif isinstance(obj, ops.AsExtOp) and not inspect.isclass(obj):
                    op_row(lab, obj)
                    cls = type(obj)
                    import dataclasses
                    fs = [f for f in dataclasses.fields(cls)] if dataclasses.is_dataclass(cls) else []
                    if fs and all(str(f.type) == "int" for f in fs):
                        for w in range(0, 7):
                            op_row("%s.__class__(%s)" % (lab, ", ".join([str(w)] * len(fs))), cls(*[w] * len(fs)))
                elif inspect.isclass(obj) and getattr(obj, "__module__", None) == mn:
                    if issubclass(obj, tys.ExtType):
                        instantiate(lab, obj, type_row)
                    elif issubclass(obj, val.ExtensionValue):
                        instantiate(lab, obj, const_row)
                elif inspect.isfunction(obj) and getattr(obj, "__module__", None) == mn:
                    ps = list(inspect.signature(obj).parameters.values())
                    if ps and all(str(p.annotation) == "int" for p in ps):
                        for w in range(0, 7):
                            r = obj(*[w] * len(ps))
                            if isinstance(r, tys.ExtType):
                                type_row("%s(%d)" % (lab, w), r)
        except Exception as e:  # noqa: BLE001  (reported by extra() as a violation with the module as input)
            errors.append({"module": mn, "error": type(e).__name__, "message": str(e)[:200]})
    return rows, errors


# ------------------------------------------------------------------ the property
class C10(fw.Prop):
    id = "C10"
    props_file = "props/C10.v"
    run_file = "run/C10Run.v"
    run_module = "run.C10Run"
    shard = 120
    rule = ("extensions built through Extension()/add_type_def/add_op_def/add_extension_value from generated "
            "descriptions (0..25 definitions over few names so that re-adding happens; explicit and from-params "
            "bounds; nested type parameters; polymorphic, plain-FunctionType, binary-only and signature+binary "
            "operations; requirement lists with duplicates and with the owner already present; misc dictionaries "
            "with nested JSON; non-ASCII names/descriptions; prerelease/build versions; constants incl. "
            "int/float/string/list payloads), serialised with to_json, loaded with from_json, serialised again; "
            "documents written directly at the serial level: 40% look like the serialisation of an extension "
            "(C10Run.doc_wf; pydantic defaults omitted at random) and are judged strictly, the others (foreign owner "
            "fields, key != name, neither signature nor binary, null/absent misc, repeated/missing requirements) are "
            "outside the property's domain: refusal with any exception or acceptance, an accepted result must be a "
            "fixed point; every file under "
            "specification/std_extensions loaded through hugr.std._load_extension; worlds of 2-4 Extension OBJECTS "
            "whose names mostly coincide (different versions, or wholly equal headers) and 1-4 definition objects "
            "added to them in random or every-object-to-every-extension patterns, observed per Extension object: "
            "document, its round trip, and for each held operation the index of the Extension object that "
            "get_extension() returns (by identity); 30 more worlds in which every Extension object is serialised between "
            "steps.  Sessions on ONE Extension object (90): a history cut into 1-5 segments with an observation point after "
            "each (document, load-and-write, owners, header, and the object itself read through its public attributes) "
            "through Extension.to_json/from_json, _to_serial + the serial model, or a Package holding the extension, "
            "continuing on the same or on the loaded object; half of them focused: point, ONE definition of a chosen "
            "kind (type / op / value), point.  non-trivial = at least one operation with a signature, or an "
            "error result; for worlds: an operation object reaches two different Extension objects of one name; for "
            "sessions: something is added after a document was written")
    trusted = [
        "type expressions, constant values and misc values are payloads compared structurally in hugr-py's own "
        "serial form (the type/value codec is property C05); the theorems carry the codec's fixed-point law "
        "ser(deser(ser x)) = ser x as visible hypotheses",
        "pydantic model_dump_json / model_validate_json and semver parsing are inside the observed implementation, "
        "not the model; Python sets are modelled by sorted duplicate-free lists and observed sets are sorted "
        "(not deduplicated) before comparison",
        "exception classes are never compared; JSON objects (the three dictionaries, misc) compare as unordered maps; "
        "requirement lists compare as sets against the model and as multisets between two documents of the "
        "implementation; which of several definitions added under one name is held is taken from the implementation "
        "(oracle, admissible if it is one of them)",
        "histories/documents: value semantics; shared definition objects: a value-semantic world (owners by name) and a "
        "heap world with object identity (owners by index), each compared with the implementation per case; attribute "
        "assignment after adding (e.version = ..., renaming an extension or a definition) is outside both (design.d/C10.md)",
        "regenerated data: coq/gen/StdExt.v is rewritten from the repo on every run by a fail-closed translator "
        "(unexpected JSON field => error); helper table from run-time introspection of hugr.std.*",
    ]
    assumptions = ["extensions without lowering functions; definitions added through the public add_* API or loaded "
                   "from a document; extensions and definitions are not mutated by attribute assignment after adding"]

    # ---------------- regenerated data
    def regenerate(self, ctx):
        I = fw.Interner()
        spec, bund = std_files(SPEC_DIR), std_files(BUNDLED_DIR)

        def tree(files):
            out = []
            for rel, p in files.items():
                b = open(p, "rb").read()
                words = [int.from_bytes(b[i:i + 7], "little") for i in range(0, len(b), 7)]
                out.append(gpair(glist(gN(ord(c)) for c in rel),
                                 "{| pk_len := %s; pk_words := %s |}" % (gN(len(b)), glist(gN(w) for w in words))))
            return glist(out)
        docs = []
        for rel, p in bund.items():
            try:
                d = json.load(open(p, encoding="utf-8"))
                docs.append(gpair(glist(gN(ord(c)) for c in rel), g_sext(d, I, False)))
            except FailClosed as e:
                raise FailClosed("%s: %s" % (p, e)) from None
        notes = []
        rows, self._helper_errors = helper_rows(I, notes)
        self._helper_rows = rows
        self._helper_notes = notes
        hs = []
        for lab, kind, e, d, args, exts in rows:
            hs.append("{| h_label := %s; h_kind := %s; h_ext := %s; h_def := %s; h_args := %s; h_exts := %s |}" % (
                glist(gN(ord(c)) for c in lab), kind, gN(I(e)), gN(I(d)), glist(args), g_names(exts, I)))
        text = ("(* GENERATED by harness/props/c10.py on every run from\n     %s\n     %s\n   and from introspection of hugr.std.*; do not edit. *)\n"
                "From Coq Require Import NArith ZArith List Bool.\nImport ListNotations.\n"
                "From HV Require Import model.Types model.ExtDefs spec.ExtDefsS.\n"
                "Definition mkVer a b c pre build : version :=\n  {| v_major := a; v_minor := b; v_patch := c; v_pre := pre; v_build := build |}.\n"
                % ("specification/std_extensions/**/*.json", "hugr-py/src/hugr/std/_json_defs/**/*.json"))
        text += "Definition spec_tree : list (path * packed) :=\n%s.\n" % tree(spec).replace("); (", ");\n (")
        text += "Definition bundled_tree : list (path * packed) :=\n%s.\n" % tree(bund).replace("); (", ");\n (")
        text += "Definition std_docs : list (path * jext) :=\n%s.\n" % glist(docs).replace("); (", ");\n (")
        text += "Definition std_helpers : list helper :=\n%s.\n" % glist(hs).replace("; {|", ";\n {|")
        fw.write_if_changed(GEN, text)
        ctx.stats["std_files"] = {"spec": len(spec), "bundled": len(bund), "helpers": len(rows),
                                  "bytes": sum(os.path.getsize(p) for p in spec.values())}
        ctx.notes.extend(notes)
        return ["gen/StdExt.v"]

    # ---------------- cases
    def corpus(self, ctx):
        cases = []
        for rel, p in std_files(SPEC_DIR).items():
            cases.append({"kind": "doc", "must_load": True, "std": rel[:-5].replace("/", "."),
                          "doc": json.load(open(p, encoding="utf-8"))})
        # the hand-made extension of the design phase, and small edge documents
        cases.append({"kind": "hist", "name": "foo.bar", "version": [1, 2, 3, "alpha.1", "b5"], "reqs": ["zz", "aa"], "cmds": [
            {"c": "type", "name": "T", "descr": "dé", "params": [["type", "A"], ["nat", None], ["nat", 3], ["list", ["tuple", [["str"], ["exts"]]]]], "bound": ["F", [0]]},
            {"c": "op", "name": "op", "descr": "dèsc ∀", "misc": {"k": [1, 2.5, None, {"a": "b"}]}, "binary": False, "func": False,
             "sig": {"params": [["type", "C"]], "in": [["var", 0, "C"]], "out": [["bool"], ["opaque", "foo.bar", "T", [["t", ["qubit"]], ["n", 2]], "A"]], "reqs": ["q", "foo.bar", "q"]}},
            {"c": "op", "name": "bin", "descr": "", "misc": {}, "binary": True, "sig": None, "func": False},
            {"c": "op", "name": "both", "descr": "", "misc": {}, "binary": True, "func": True, "sig": {"params": [], "in": [], "out": [], "reqs": []}},
            {"c": "value", "name": "v1", "val": ["tuple", [["true"], ["sum", 1, [[["bool"]], []], []]]]},
            {"c": "value", "name": "v2", "val": ["int", 5, 3]},
            {"c": "type", "name": "U", "descr": "", "params": [["type", "A"], ["type", "C"]], "bound": ["F", [1, 0, 1]]},
            {"c": "op", "name": "op", "descr": "again", "misc": {}, "binary": False, "func": True, "sig": {"params": [], "in": [["qubit"]], "out": [], "reqs": []}},
        ]})
        # fixed (known_findings.txt): one definition object added to two extensions
        hdr = lambda n: {"name": n, "version": [0, 1, 0, None, None], "reqs": []}
        cases.append({"kind": "shared", "exts": [hdr("A"), hdr("B")], "prog": [[0, 0], [1, 0]],
                      "objs": [{"c": "op", "name": "x", "descr": "", "misc": {}, "binary": False, "func": True,
                                "sig": {"params": [], "in": [], "out": [], "reqs": []}}]})
        cases.append({"kind": "shared", "exts": [hdr("A"), hdr("B")], "prog": [[0, 0], [1, 0], [0, 1], [1, 1], [0, 0]],
                      "objs": [{"c": "type", "name": "T", "descr": "", "params": [], "bound": ["E", "C"]},
                               {"c": "value", "name": "v", "val": ["true"]}]})
        # seeded round 2 (C10-d): "already owned by another extension" decided by NAME instead of object identity.
        # Two Extension objects named alike (two versions of one extension); the definition object held by the
        # first is added to the second: the first must keep a definition that reports the FIRST object.
        ver = lambda n, m: {"name": n, "version": [0, m, 0, None, None], "reqs": []}
        xop = {"c": "op", "name": "x", "descr": "", "misc": {}, "binary": False, "func": True,
               "sig": {"params": [], "in": [], "out": [], "reqs": []}}
        cases.append({"kind": "world", "exts": [ver("A", 1), ver("A", 2)], "prog": [[0, 0], [1, 0]], "objs": [xop]})
        # wholly equal headers (dataclass equality would not tell them apart either), binary-only operation,
        # a type definition and a value, ping-pong between the two objects
        cases.append({"kind": "world", "exts": [ver("A", 1), ver("A", 1), ver("B", 1)],
                      "prog": [[0, 0], [1, 0], [0, 1], [1, 1], [2, 1], [0, 2], [1, 2], [0, 0], [1, 3], [0, 3]],
                      "objs": [{"c": "op", "name": "b", "descr": "d", "misc": {"k": 1}, "binary": True, "sig": None, "func": False},
                               xop, {"c": "type", "name": "T", "descr": "", "params": [], "bound": ["E", "C"]},
                               {"c": "value", "name": "v", "val": ["true"]}]})
        # two Extension objects that compare == (equal headers, equal contents) are still two objects
        cases.append({"kind": "world", "exts": [ver("A", 1), ver("A", 1)], "prog": [[0, 0], [1, 0], [1, 0]], "objs": [xop]})
        # seeded round 4 (C10-g): a document kept from an earlier to_json() and not dropped by every mutator.
        # Serialise, add ONE definition of each kind in turn, serialise again: the later document shows it.
        tdef = {"c": "type", "name": "T", "descr": "a type", "params": [["type", "A"]], "bound": ["F", [0]]}
        odef = {"c": "op", "name": "op", "descr": "an op", "misc": {"k": 1}, "binary": False, "func": True,
                "sig": {"params": [], "in": [["bool"]], "out": [["bool"]], "reqs": []}}
        vdef = {"c": "value", "name": "ONE", "val": ["true"]}
        shdr = {"kind": "seq", "name": "demo.ext", "version": [0, 1, 0, None, None], "reqs": ["prelude"]}
        pt = lambda cmds, via="json", reload=False: {"cmds": cmds, "via": via, "reload": reload}
        cases.append({**shdr, "segs": [pt([tdef, odef]), pt([vdef])]})
        cases.append({**shdr, "segs": [pt([]), pt([vdef]), pt([odef]), pt([tdef]), pt([])]})
        cases.append({**shdr, "segs": [pt([vdef], "serial"), pt([tdef], "package"), pt([odef], "serial"), pt([{**vdef, "name": "TWO"}], "package")]})
        # ... and on the object that from_json returned
        cases.append({**shdr, "segs": [pt([odef], "json", True), pt([vdef], "json", True), pt([tdef], "json", True), pt([{**odef, "name": "op2"}])]})
        base = {"version": "0.1.0", "name": "e", "runtime_reqs": [], "types": {}, "values": {}, "operations": {}}
        cases.append({"kind": "doc", "must_load": False, "std": None, "doc": base})
        cases.append({"kind": "doc", "must_load": False, "std": None, "doc": {**base, "operations": {
            "o": {"extension": "other", "name": "o", "description": "", "signature": {"params": [], "body": {"input": [], "output": [], "runtime_reqs": []}}}}}})
        cases.append({"kind": "doc", "must_load": False, "std": None, "doc": {**base, "operations": {
            "o": {"extension": "e", "name": "o", "description": ""}}}})
        cases.append({"kind": "doc", "must_load": False, "std": None, "doc": {**base, "types": {
            "k": {"extension": "e", "name": "t", "description": "", "params": [], "bound": {"b": "Explicit", "bound": "C"}}}}})
        return cases

    def generate(self, rng, tier, ctx):
        k = 1 if tier == "quick" else 10
        cases = []
        for i in range(260 * k):
            cases.append(rand_hist(rng, big=(i % 13 == 0)))
        for _ in range(60 * k):
            cases.append(rand_shared(rng))
        for _ in range(140 * k):
            cases.append(rand_doc(rng, 0.0 if rng.random() < 0.4 else rng.choice([0.1, 0.3, 0.6])))
        for _ in range(80 * k):        # appended last: the streams above are unchanged
            cases.append(rand_world(rng))
        for i in range(90 * k):        # seeded round 4, appended after everything else
            cases.append(rand_seq(rng, i if i % 2 == 0 else None))
        for _ in range(30 * k):        # worlds whose Extension objects are serialised between the steps
            w = rand_world(rng)
            n = len(w["prog"])
            w["probes"] = {str(t): rng.choice(VIAS) for t in sorted(rng.sample(range(n), rng.randint(1, min(3, n))))}
            if rng.random() < 0.5:
                w["probes"][str(n - 2)] = rng.choice(VIAS)       # right before the last step
            cases.append(w)
        return cases

    # ---------------- running the implementation
    @staticmethod
    def _new_ext(h):
        from hugr import ext
        from semver import Version
        v = h["version"]
        return ext.Extension(h["name"], Version(v[0], v[1], v[2], v[3], v[4]), set(h["reqs"]))

    @staticmethod
    def _new_obj(c):
        from hugr import ext, tys
        if c["c"] == "type":
            b = ext.ExplicitBound(b_bound(c["bound"][1])) if c["bound"][0] == "E" else ext.FromParamsBound(list(c["bound"][1]))
            return ext.TypeDef(c["name"], c["descr"], [b_param(p) for p in c["params"]], b)
        if c["c"] == "op":
            s = c["sig"]
            pf = None
            if s is not None:
                body = tys.FunctionType([b_type(t) for t in s["in"]], [b_type(t) for t in s["out"]], list(s["reqs"]))
                pf = body if c["func"] else tys.PolyFuncType([b_param(p) for p in s["params"]], body)
            return ext.OpDef(c["name"], ext.OpDefSig(pf, c["binary"]), c["descr"], dict(c["misc"]))
        return ext.ExtensionValue(c["name"], b_value(c["val"]))

    @staticmethod
    def _add(e, c, o):
        return e.add_type_def(o) if c["c"] == "type" else e.add_op_def(o) if c["c"] == "op" else e.add_extension_value(o)

    def _build(self, case):
        """-> (extension, indices of the commands that were run).  Adding a definition under a name the
        extension already holds is outside what the property constrains: if the implementation REFUSES such a
        call (any exception), the history is rebuilt without that command -- the refused call's effect is
        unspecified, so nothing after it could be judged otherwise.  Any other exception propagates."""
        cmds = case["cmds"]
        kept = list(range(len(cmds)))
        while True:
            e, seen, bad = self._new_ext(case), set(), None
            for i in kept:
                c = cmds[i]
                o = self._new_obj(c)
                try:
                    self._add(e, c, o)
                except Exception:  # noqa: BLE001
                    if (c["c"], c["name"]) not in seen:
                        raise
                    bad = i
                    break
                seen.add((c["c"], c["name"]))
            if bad is None:
                return e, kept
            kept.remove(bad)

    def _run_world(self, case):
        """-> (Extension objects, effective program): as `_build`, a step that adds to an Extension object a
        definition under a name it already holds and is REFUSED is left out (and the world rebuilt)."""
        prog = [list(x) for x in case["prog"]]
        while True:
            exts = [self._new_ext(h) for h in case["exts"]]
            objs = [self._new_obj(c) for c in case["objs"]]
            seen, bad = set(), None
            probes = case.get("probes") or {}
            for t, (i, j) in enumerate(prog):
                c = case["objs"][j]
                try:
                    self._add(exts[i], c, objs[j])
                except Exception:  # noqa: BLE001
                    if (i, c["c"], c["name"]) not in seen:
                        raise
                    bad = t
                    break
                seen.add((i, c["c"], c["name"]))
                # seeded round 4: every Extension object is serialised (and the document dropped) between two steps;
                # the model has no step for it: writing a document changes neither the extension nor the definitions
                via = probes.get(str(t))
                if via is not None:
                    for x in exts:
                        try:
                            self._write(x, via)
                        except Exception:  # noqa: BLE001  (seen again, and judged, at the final observation)
                            pass
            if bad is None:
                return exts, prog
            if probes:       # the steps after the refused one move up by one
                case = {**case, "probes": {str(int(k) - (int(k) > bad)): v for k, v in probes.items() if int(k) != bad}}
            del prog[bad]

    @staticmethod
    def _owners(e):
        out = []
        for k, od in e.operations.items():
            try:
                mine = od.get_extension() is e
            except Exception:  # noqa: BLE001
                mine = False
            pf = od.signature.poly_func
            out.append([k, bool(mine), None if pf is None else list(pf.body.runtime_reqs)])
        return out

    @staticmethod
    def _guard(f):
        try:
            return ["ok", f()]
        except Exception as ex:  # noqa: BLE001  (classes only)
            return [type(ex).__name__]

    @staticmethod
    def _view(e):
        """The Extension OBJECT as it is, read through its public attributes and written in the shape of a
        document by the harness (payloads -- type parameters, type expressions, constants -- in hugr-py's own
        serial form, as everywhere): what "serializing the extension" has to correspond to, independent of any
        document the object may have kept."""
        from hugr import ext, tys

        def dump(x):
            return x._to_serial_root().model_dump(mode="json")
        types, values, ops = {}, {}, {}
        for k, t in e.types.items():
            b = t.bound
            if isinstance(b, ext.ExplicitBound):
                sb = {"b": "Explicit", "bound": "C" if b.bound == tys.TypeBound.Copyable else "A"}
            elif isinstance(b, ext.FromParamsBound):
                sb = {"b": "FromParams", "indices": list(b.indices)}
            else:
                raise FailClosed("bound object %r" % (b,))
            types[k] = {"extension": t.get_extension().name, "name": t.name, "description": t.description,
                        "params": [dump(q) for q in t.params], "bound": sb}
        for k, v in e.values.items():
            values[k] = {"extension": v.get_extension().name, "name": v.name, "typed_value": dump(v.val)}
        for k, o in e.operations.items():
            pf = o.signature.poly_func
            sig = None
            if pf is not None:
                sig = {"params": [dump(q) for q in pf.params],
                       "body": {"input": [dump(t) for t in pf.body.input], "output": [dump(t) for t in pf.body.output],
                                "runtime_reqs": list(pf.body.runtime_reqs)}}
            if o.lower_funcs:
                raise FailClosed("lowering functions are outside the property's quantifier")
            ops[k] = {"extension": o.get_extension().name, "name": o.name, "description": o.description,
                      "misc": json.loads(json.dumps(o.misc)), "signature": sig, "binary": bool(o.signature.binary)}
        v = e.version
        vs = "%d.%d.%d" % (v.major, v.minor, v.patch) + ("-" + v.prerelease if v.prerelease else "") + ("+" + v.build if v.build else "")
        return {"version": vs, "name": e.name, "runtime_reqs": sorted(e.runtime_reqs), "types": types, "values": values,
                "operations": ops}

    @staticmethod
    def _write(e, via):
        """the extension's document through one of the public writers -> (dict, loader of that very text)"""
        import warnings
        from hugr.ext import Extension
        if via == "serial":
            import hugr._serialization.extension as ext_s
            text = e._to_serial().model_dump_json()
            return json.loads(text), lambda: ext_s.Extension.model_validate_json(text).deserialize()
        if via == "package":
            from hugr.package import Package
            with warnings.catch_warnings():
                warnings.simplefilter("ignore")
                text = Package([], [e]).to_json()
            d = json.loads(text)
            if d.get("modules") != [] or not isinstance(d.get("extensions"), list) or len(d["extensions"]) != 1:
                raise FailClosed("package document %r" % (sorted(d),))

            def load():
                with warnings.catch_warnings():
                    warnings.simplefilter("ignore")
                    pk = Package.from_json(text)
                (x,) = pk.extensions
                return x
            return d["extensions"][0], load
        text = e.to_json()
        return json.loads(text), lambda: Extension.from_json(text)

    def _run_seq(self, case):
        """-> (observations per point, kept command indices per point).  A re-add the implementation refuses
        is left out and the whole session rebuilt (as `_build`)."""
        segs = case["segs"]
        kept = [list(range(len(g["cmds"]))) for g in segs]
        while True:
            e, seen, bad, points = self._new_ext(case), set(), None, []
            for gi, g in enumerate(segs):
                for i in kept[gi]:
                    c = g["cmds"][i]
                    try:
                        self._add(e, c, self._new_obj(c))
                    except Exception:  # noqa: BLE001
                        if (c["c"], c["name"]) not in seen:
                            raise
                        bad = (gi, i)
                        break
                    seen.add((c["c"], c["name"]))
                if bad is not None:
                    break
                box = {}

                def first():
                    d, _ = self._write(e, g["via"])
                    return d
                view1 = self._guard(lambda: self._view(e))      # the object BEFORE anything is written at this point
                before = self._guard(first)
                own1 = self._owners(e)
                after, own2, api2, view2 = before, [], None, ["skipped"]
                if before[0] == "ok":
                    def again():
                        _, load = self._write(e, g["via"])      # written a second time, as for CHist
                        box["e2"] = load()
                        return self._write(box["e2"], g["via"])[0]
                    after = self._guard(again)
                    if "e2" in box:
                        e2 = box["e2"]
                        own2 = self._owners(e2)
                        v = e2.version
                        api2 = [e2.name, [v.major, v.minor, v.patch, v.prerelease, v.build], sorted(e2.runtime_reqs)]
                        view2 = self._guard(lambda: self._view(e2))
                points.append({"before": before, "after": after, "own1": own1, "own2": own2, "api2": api2,
                               "view1": view1, "view2": view2})
                if g["reload"] and "e2" in box:
                    e = box["e2"]
            if bad is None:
                return points, kept
            kept[bad[0]].remove(bad[1])

    def observe(self, case, ctx):
        from hugr.ext import Extension
        if case["kind"] == "seq":
            points, kept = self._run_seq(case)
            return {"points": points, "kept": kept}
        if case["kind"] == "hist":
            e, kept = self._build(case)
            before = self._guard(lambda: json.loads(e.to_json()))
            own1 = self._owners(e)
            after, own2, api2 = before, [], None     # an error propagates
            if before[0] == "ok":
                box = {}

                def again():
                    box["e2"] = Extension.from_json(e.to_json())
                    return json.loads(box["e2"].to_json())
                after = self._guard(again)
                if "e2" in box:
                    e2 = box["e2"]
                    own2 = self._owners(e2)
                    v = e2.version
                    api2 = [e2.name, [v.major, v.minor, v.patch, v.prerelease, v.build], sorted(e2.runtime_reqs)]
            return {"before": before, "after": after, "own1": own1, "own2": own2, "api2": api2, "kept": kept}
        if case["kind"] == "shared":
            exts, prog = self._run_world(case)
            out = []
            for e in exts:
                before = self._guard(lambda: json.loads(e.to_json()))
                after = before
                if before[0] == "ok":
                    after = self._guard(lambda: json.loads(Extension.from_json(e.to_json()).to_json()))
                out.append({"before": before, "after": after, "own": self._owners(e)})
            return {"exts": out, "prog": prog}
        if case["kind"] == "world":
            exts, prog = self._run_world(case)
            out = []
            for e in exts:
                before = self._guard(lambda: json.loads(e.to_json()))
                after = before
                if before[0] == "ok":
                    after = self._guard(lambda: json.loads(Extension.from_json(e.to_json()).to_json()))
                held = []
                for k, od in e.operations.items():
                    try:
                        owner = od.get_extension()
                        idx = next((i for i, x in enumerate(exts) if x is owner), None)     # identity, never ==
                    except Exception:  # noqa: BLE001
                        idx = None
                    pf = od.signature.poly_func
                    held.append([k, idx, None if pf is None else list(pf.body.runtime_reqs)])
                out.append({"before": before, "after": after, "held": held})
            return {"exts": out, "prog": prog}
        # document
        box = {}

        def load():
            if case.get("std"):
                from hugr.std import _load_extension
                box["e"] = _load_extension(case["std"])
            else:
                box["e"] = Extension.from_json(json.dumps(case["doc"]))
            return json.loads(box["e"].to_json())
        r1 = self._guard(load)
        own1 = self._owners(box["e"]) if "e" in box else []
        r2 = r1                                      # an error propagates
        if r1[0] == "ok":
            r2 = self._guard(lambda: json.loads(Extension.from_json(json.dumps(r1[1])).to_json()))
        dom = bool(case.get("std")) or doc_in_domain(case["doc"])
        if not dom and r1[0] not in pinned_outcomes(case["doc"]):
            # DIAGNOSTIC, never a verdict: on a document outside the property's domain the implementation no
            # longer does what it did at the pinned commit (which the model still mirrors)
            drift = ctx.stats.setdefault("model_drift", [])
            ctx.stats["model_drift_count"] = ctx.stats.get("model_drift_count", 0) + 1
            if len(drift) < 5:
                drift.append({"document_outside_domain": case["doc"], "outcome_at_pinned_commit": sorted(pinned_outcomes(case["doc"])),
                              "outcome_now": r1[0]})
        return {"r1": r1, "r2": r2, "own1": own1, "in_domain": dom}

    # ---------------- literals
    @staticmethod
    def _g_cmd(c, I):
        if c["c"] == "type":
            b = gapp("Explicit", g_bound(c["bound"][1])) if c["bound"][0] == "E" else gapp("FromParams", glist(gnat(i) for i in c["bound"][1]))
            return gapp("mkT", gN(I(c["name"])), gN(I(c["descr"])),
                        glist(g_sparam(param_serial(p), api=True) for p in c["params"]), b)
        if c["c"] == "op":
            s = c["sig"]
            sg = None
            if s is not None:
                sg = gapp("mkPoly", glist(g_sparam(param_serial(p), api=True) for p in ([] if c["func"] else s["params"])),
                          glist(g_json(ser_type(t), I) for t in s["in"]), glist(g_json(ser_type(t), I) for t in s["out"]),
                          g_names(s["reqs"], I))
            return gapp("mkO", gN(I(c["name"])), gN(I(c["descr"])),
                        glist(gpair(gN(I(k)), g_json(v, I)) for k, v in c["misc"].items()), gopt(sg), gbool(c["binary"]))
        return gapp("mkV", gN(I(c["name"])), g_json(ser_value(c["val"]), I))

    def literal(self, case, obs, ctx):
        I = fw.Interner()
        if case["kind"] == "hist":
            I(case["name"])
            cmds = [self._g_cmd(case["cmds"][i], I) for i in obs.get("kept", range(len(case["cmds"])))]
            a = obs["api2"]
            api2 = None if a is None else gpair(gpair(gN(I(a[0])), g_version(a[1], I)), g_names_sorted(a[2], I))
            return gapp("CHist", gN(I(case["name"])), g_version(case["version"], I), g_names(case["reqs"], I), glist(cmds),
                        g_ores(obs["before"], I), g_ores(obs["after"], I), g_owners(obs["own1"], I), g_owners(obs["own2"], I),
                        gopt(api2))
        if case["kind"] == "seq":
            I(case["name"])
            segs = []
            for g, o, kept in zip(case["segs"], obs["points"], obs["kept"]):
                a = o["api2"]
                api2 = None if a is None else gpair(gpair(gN(I(a[0])), g_version(a[1], I)), g_names_sorted(a[2], I))
                segs.append(gapp("mkSeg", glist(self._g_cmd(g["cmds"][i], I) for i in kept), gbool(g["reload"]),
                                 g_ores(o["before"], I), g_ores(o["after"], I), g_owners(o["own1"], I), g_owners(o["own2"], I),
                                 gopt(api2), g_ores(o["view1"], I), g_ores(o["view2"], I)))
            return gapp("CSeq", gN(I(case["name"])), g_version(case["version"], I), g_names(case["reqs"], I), glist(segs))
        if case["kind"] == "shared":
            for h in case["exts"]:
                I(h["name"])
            hdrs = glist(gpair(gpair(gN(I(h["name"])), g_version(h["version"], I)), g_names(h["reqs"], I)) for h in case["exts"])
            return gapp("CShared", hdrs, glist(self._g_cmd(c, I) for c in case["objs"]),
                        glist(gpair(gnat(i), gnat(j)) for i, j in obs.get("prog", case["prog"])),
                        glist(gpair(gpair(g_ores(o["before"], I), g_ores(o["after"], I)), g_owners(o["own"], I)) for o in obs["exts"]))
        if case["kind"] == "world":
            for h in case["exts"]:
                I(h["name"])
            hdrs = glist(gpair(gpair(gN(I(h["name"])), g_version(h["version"], I)), g_names(h["reqs"], I)) for h in case["exts"])
            return gapp("CWorld", hdrs, glist(self._g_cmd(c, I) for c in case["objs"]),
                        glist(gpair(gnat(i), gnat(j)) for i, j in obs.get("prog", case["prog"])),
                        glist(gpair(gpair(g_ores(o["before"], I), g_ores(o["after"], I)), g_held(o["held"], I)) for o in obs["exts"]))
        return gapp("CDoc", gbool(case["must_load"]), g_sext(case["doc"], I, False),
                    g_ores(obs["r1"], I), g_ores(obs["r2"], I), g_owners(obs["own1"], I))

    # ---------------- classification, shrinking
    def nontrivial(self, case, obs):
        if case["kind"] == "seq":
            return any(g["cmds"] for g in case["segs"][1:])      # something is added AFTER a document was written
        if case["kind"] == "shared":
            return len({j for _, j in case["prog"]}) < len({(i, j) for i, j in case["prog"]})   # an object reaches two extensions
        if case["kind"] == "world":
            return self._same_name_sharing(case)
        if case["kind"] == "hist":
            return any(c["c"] == "op" and c["sig"] is not None for c in case["cmds"])
        return obs["r1"][0] != "ok" or any(o.get("signature") for o in case["doc"]["operations"].values())

    @staticmethod
    def _same_name_sharing(case):
        """an operation object reaches two DIFFERENT Extension objects that carry the same name"""
        for j, c in enumerate(case["objs"]):
            if c["c"] != "op":
                continue
            tgt = {i for i, jj in case["prog"] if jj == j}
            names = [case["exts"][i]["name"] for i in tgt]
            if len(names) != len(set(names)):
                return True
        return False

    def describe(self, case, obs):
        return {"input": case, "observed": obs}

    def signature(self, case, obs, ctx):
        if case["kind"] == "seq":
            added = {"types": set(), "operations": set(), "values": set()}
            fld = {"type": "types", "op": "operations", "value": "values"}
            for g, o, kept in zip(case["segs"], obs["points"], obs["kept"]):
                for i in kept:
                    added[fld[g["cmds"][i]["c"]]].add(g["cmds"][i]["name"])
                b, a = o["before"], o["after"]
                if b[0] != "ok":
                    return "ext:seq:write:" + b[0]
                for f in ("types", "operations", "values"):
                    if set(b[1].get(f, {})) != added[f]:
                        return "ext:seq:stale-document:" + f
                if o["view1"][0] != "ok":
                    return "ext:seq:object:" + o["view1"][0]
                for f in ("types", "operations", "values"):
                    if {k: x.get("description") for k, x in b[1][f].items()} != {k: x.get("description") for k, x in o["view1"][1][f].items()}:
                        return "ext:seq:document-vs-object:" + f
                if a[0] != "ok":
                    return "ext:seq:load:" + a[0]
                if any(not m for _, m, _ in o["own1"] + o["own2"]):
                    return "ext:seq:owner"
                if any(rs is not None and case["name"] not in rs for _, _, rs in o["own1"] + o["own2"]):
                    return "ext:seq:requirement"
                if a[1] != b[1]:
                    return "ext:seq:roundtrip"
            return "ext:seq"
        if case["kind"] == "shared":
            for h, o in zip(case["exts"], obs["exts"]):
                if o["before"][0] != "ok":
                    return "ext:shared:to_json:" + o["before"][0]
                if any(not m for _, m, _ in o["own"]) or any(
                        d.get("extension") != h["name"] for f in ("types", "values", "operations") for d in o["before"][1][f].values()):
                    return "ext:shared:owner"
                if o["after"] != o["before"]:
                    return "ext:shared:roundtrip"
            return "ext:shared"
        if case["kind"] == "world":
            for i, (h, o) in enumerate(zip(case["exts"], obs["exts"])):
                if o["before"][0] != "ok":
                    return "ext:world:to_json:" + o["before"][0]
                if any(idx != i for _, idx, _ in o["held"]):
                    return "ext:world:owner-object"
                if any(rs is not None and h["name"] not in rs for _, _, rs in o["held"]):
                    return "ext:world:requirement"
                if any(d.get("extension") != h["name"] for f in ("types", "values", "operations") for d in o["before"][1][f].values()):
                    return "ext:world:owner"
                if o["after"] != o["before"]:
                    return "ext:world:roundtrip"
            return "ext:world"
        if case["kind"] == "hist":
            b, a = obs["before"], obs["after"]
            if b[0] != "ok":
                return "ext:hist:to_json:" + b[0]
            if a[0] != "ok":
                return "ext:hist:from_json:" + a[0]
            if any(not m for _, m, _ in obs["own1"] + obs["own2"]):
                return "ext:hist:owner"
            if any(rs is not None and case["name"] not in rs for _, _, rs in obs["own1"] + obs["own2"]):
                return "ext:hist:requirement"
            if any(d.get("extension") != case["name"] for f in ("types", "values") for d in b[1][f].values()):
                return "ext:hist:def-owner"
            if a[1] != b[1]:
                for f in ("name", "version", "runtime_reqs", "types", "values", "operations"):
                    if a[1].get(f) != b[1].get(f):
                        return "ext:hist:roundtrip:" + f
            return "ext:hist"
        r1 = obs["r1"]
        pre = "ext:std:" if case.get("std") else "ext:doc:"
        if r1[0] != "ok":
            return pre + "load:" + r1[0]
        if obs["r2"] != r1:
            return pre + "fixed-point"
        return pre + "kept"

    def shrink(self, case):
        if case["kind"] == "seq":
            sg = case["segs"]
            for x in range(len(sg) - 1):          # drop an observation point (its commands join the next one)
                yield {**case, "segs": sg[:x] + [{**sg[x + 1], "cmds": sg[x]["cmds"] + sg[x + 1]["cmds"]}] + sg[x + 2:]}
            if len(sg) > 1:
                yield {**case, "segs": sg[:-1]}
            for x, g in enumerate(sg):
                for i in range(len(g["cmds"])):
                    yield {**case, "segs": sg[:x] + [{**g, "cmds": g["cmds"][:i] + g["cmds"][i + 1:]}] + sg[x + 1:]}
            for x, g in enumerate(sg):
                if g["reload"]:
                    yield {**case, "segs": sg[:x] + [{**g, "reload": False}] + sg[x + 1:]}
                if g["via"] != "json":
                    yield {**case, "segs": sg[:x] + [{**g, "via": "json"}] + sg[x + 1:]}
            if case["reqs"]:
                yield {**case, "reqs": []}
            if case["version"][3] or case["version"][4]:
                yield {**case, "version": case["version"][:3] + [None, None]}
            for x, g in enumerate(sg):
                for i, c in enumerate(g["cmds"]):
                    if c["c"] == "op" and (c["misc"] or c["descr"]):
                        yield {**case, "segs": sg[:x] + [{**g, "cmds": g["cmds"][:i] + [{**c, "misc": {}, "descr": ""}] + g["cmds"][i + 1:]}] + sg[x + 1:]}
            return
        if case["kind"] in ("shared", "world"):
            if case.get("probes"):
                yield {k: v for k, v in case.items() if k != "probes"}
                for t in case["probes"]:
                    yield {**case, "probes": {k: v for k, v in case["probes"].items() if k != t}}
                if len(case["prog"]) > 1:      # drop a step: the probes after it move up
                    for x in range(len(case["prog"])):
                        yield {**case, "prog": case["prog"][:x] + case["prog"][x + 1:],
                               "probes": {str(int(k) - (int(k) >= x)): v for k, v in case["probes"].items() if int(k) != x or x > 0}}
                return
            p = case["prog"]
            if case["kind"] == "world" and len(case["exts"]) > 1:
                for x in range(len(case["exts"])):
                    yield {**case, "exts": case["exts"][:x] + case["exts"][x + 1:],
                           "prog": [[a - (a > x), b] for a, b in p if a != x]}
            for i in range(len(p)):
                yield {**case, "prog": p[:i] + p[i + 1:]}
            for j in range(len(case["objs"])):
                if len(case["objs"]) > 1:
                    yield {**case, "objs": case["objs"][:j] + case["objs"][j + 1:],
                           "prog": [[a, b - (b > j)] for a, b in p if b != j]}
            if case["kind"] == "world":
                for x, h in enumerate(case["exts"]):
                    if h["reqs"] or h["version"][3]:
                        yield {**case, "exts": case["exts"][:x] + [{**h, "reqs": [], "version": h["version"][:3] + [None, None]}] + case["exts"][x + 1:]}
                for j, c in enumerate(case["objs"]):
                    if c["c"] == "op" and (c["misc"] or c["descr"]):
                        yield {**case, "objs": case["objs"][:j] + [{**c, "misc": {}, "descr": ""}] + case["objs"][j + 1:]}
            return
        if case["kind"] == "hist":
            cs = case["cmds"]
            for i in range(len(cs)):
                yield {**case, "cmds": cs[:i] + cs[i + 1:]}
            if case["reqs"]:
                yield {**case, "reqs": []}
            if case["version"][3] or case["version"][4]:
                yield {**case, "version": case["version"][:3] + [None, None]}
            for i, c in enumerate(cs):
                if c["c"] == "op":
                    if c["misc"]:
                        yield {**case, "cmds": cs[:i] + [{**c, "misc": {}}] + cs[i + 1:]}
                    if c["descr"]:
                        yield {**case, "cmds": cs[:i] + [{**c, "descr": ""}] + cs[i + 1:]}
                    s = c["sig"]
                    if s is not None:
                        for f in ("params", "in", "out", "reqs"):
                            for j in range(len(s[f])):
                                yield {**case, "cmds": cs[:i] + [{**c, "sig": {**s, f: s[f][:j] + s[f][j + 1:]}}] + cs[i + 1:]}
                elif c["c"] == "type":
                    if c["params"] and c["bound"][0] == "E":
                        yield {**case, "cmds": cs[:i] + [{**c, "params": c["params"][1:]}] + cs[i + 1:]}
        elif not case.get("std"):
            d = case["doc"]
            for f in ("types", "values", "operations"):
                for k in d[f]:
                    yield {**case, "doc": {**d, f: {kk: vv for kk, vv in d[f].items() if kk != k}}}
            if d["runtime_reqs"]:
                yield {**case, "doc": {**d, "runtime_reqs": []}}

    def neighbours(self, case, rng):
        out = list(self.shrink(case))
        for _ in range(300):
            out.append(rand_hist(rng) if case["kind"] == "hist" else rand_shared(rng) if case["kind"] == "shared"
                       else rand_world(rng) if case["kind"] == "world" else rand_seq(rng, rng.randrange(9) if rng.random() < 0.5 else None)
                       if case["kind"] == "seq" else rand_doc(rng, 0.3))
        return out

    def distribution(self, cases, observations):
        d = {"hist": 0, "doc": 0, "std": 0, "cmds": {}, "ops_with_sig": 0, "ops_binary_only": 0, "types_from_params": 0,
             "values": 0, "readded_names": 0, "doc_errors": {}, "non_ascii_descr": 0, "versions_with_prerelease_or_build": 0}
        d["shared"] = 0
        d["shared_object_in_two_extensions"] = 0
        d["world"] = 0
        d["world_op_object_in_two_same_named_extension_objects"] = 0
        d["world_equal_headers"] = 0
        d["doc_in_domain"] = 0                 # serialisation of an extension (C10Run.doc_wf): judged strictly
        d["doc_outside_domain"] = {"loaded": 0, "refused": 0}     # any refusal accepted; a loaded result must be a fixed point
        d["readds_refused_by_the_implementation"] = 0
        d["seq"] = 0
        d["seq_points"] = 0
        d["seq_continued_on_loaded_object"] = 0
        d["seq_mutator_after_writer"] = {}     # "<kind added> after <via of the previous point>" -> count
        for c, o in zip(cases, observations):
            if c["kind"] == "seq":
                d["seq"] += 1
                d["seq_points"] += len(c["segs"])
                d["seq_continued_on_loaded_object"] += any(g["reload"] for g in c["segs"][:-1])
                for x in range(1, len(c["segs"])):
                    for cm in c["segs"][x]["cmds"]:
                        k = "%s after %s%s" % (cm["c"], c["segs"][x - 1]["via"], "+load" if c["segs"][x - 1]["reload"] else "")
                        d["seq_mutator_after_writer"][k] = d["seq_mutator_after_writer"].get(k, 0) + 1
                continue
            if c["kind"] == "world":
                d["world"] += 1
                d["world_op_object_in_two_same_named_extension_objects"] += self._same_name_sharing(c)
                d["world_equal_headers"] += any(a == b for x, a in enumerate(c["exts"]) for b in c["exts"][x + 1:])
                d["world_serialised_between_steps"] = d.get("world_serialised_between_steps", 0) + bool(c.get("probes"))
            elif c["kind"] == "shared":
                d["shared"] += 1
                d["shared_object_in_two_extensions"] += self.nontrivial(c, o)
            elif c["kind"] == "hist":
                d["hist"] += 1
                d["readds_refused_by_the_implementation"] += len(c["cmds"]) - len(o.get("kept", c["cmds"]))
                n = len(c["cmds"])
                d["cmds"][str(min(n, 10))] = d["cmds"].get(str(min(n, 10)), 0) + 1
                seen = set()
                for x in c["cmds"]:
                    if (x["c"], x["name"]) in seen:
                        d["readded_names"] += 1
                    seen.add((x["c"], x["name"]))
                    if x["c"] == "op":
                        d["ops_with_sig" if x["sig"] is not None else "ops_binary_only"] += 1
                    elif x["c"] == "type":
                        d["types_from_params"] += x["bound"][0] == "F"
                    else:
                        d["values"] += 1
                    if any(ord(ch) > 127 for ch in x.get("descr", "")):
                        d["non_ascii_descr"] += 1
                d["versions_with_prerelease_or_build"] += bool(c["version"][3] or c["version"][4])
            else:
                d["std" if c.get("std") else "doc"] += 1
                if not c.get("std"):
                    if o.get("in_domain"):
                        d["doc_in_domain"] += 1
                    else:
                        d["doc_outside_domain"]["loaded" if o["r1"][0] == "ok" else "refused"] += 1
                if o["r1"][0] != "ok":
                    d["doc_errors"][o["r1"][0]] = d["doc_errors"].get(o["r1"][0], 0) + 1
        return d

    # ---------------- regenerated-data checks with concrete failing inputs
    def extra(self, ctx, tier):
        out = []
        ctx.stats.setdefault("model_drift", [])
        ctx.stats.setdefault("model_drift_count", 0)
        spec, bund = std_files(SPEC_DIR), std_files(BUNDLED_DIR)
        for rel in sorted(set(spec) | set(bund)):
            if rel not in spec or rel not in bund:
                out.append(("bundled-vs-spec", "file present in only one of specification/std_extensions and hugr/std/_json_defs",
                            {"failing_input": {"file": rel, "in_spec": rel in spec, "in_bundled": rel in bund}, "signature": "ext:std:file-set"}))
                continue
            a, b = open(spec[rel], "rb").read(), open(bund[rel], "rb").read()
            if a != b:
                i = next((j for j in range(min(len(a), len(b))) if a[j] != b[j]), min(len(a), len(b)))
                out.append(("bundled-vs-spec", "bundled standard extension differs from the published one",
                            {"failing_input": {"file": rel, "first_difference_at_byte": i, "spec": a[max(0, i - 30):i + 30].decode("utf-8", "replace"),
                                               "bundled": b[max(0, i - 30):i + 30].decode("utf-8", "replace")}, "signature": "ext:std:bytes"}))
        for e in getattr(self, "_helper_errors", []):
            out.append(("helper-table", "a hugr.std module could not be introspected", {"failing_input": e, "signature": "ext:std:helper-import"}))
        rows = getattr(self, "_helper_rows", [])
        if rows:
            lits = ["(nth %d std_helpers {| h_label := []; h_kind := HType; h_ext := 0%%N; h_def := 0%%N; h_args := []; h_exts := [0%%N] |})" % i
                    for i in range(len(rows))]
            res = fw.eval_cases(ctx.work, self.run_module, lits, shard=2000, checks=("hok",), tag="helpers", case_type="helper")
            for i in res["hok"][:5]:
                lab, kind, e, d, args, exts = rows[i]
                out.append(("helper-table", "a typed helper of hugr.std does not denote a definition of the bundled files with matching parameters",
                            {"failing_input": {"helper": lab, "kind": kind, "extension": e, "definition": d, "args": args, "extensions": exts},
                             "signature": "ext:std:helper"}))
        for e in SIG_ERRORS[:5]:
            out.append(("helper-table", "a typed operation helper's concrete signature is not its definition's signature at its type arguments",
                        {"failing_input": e, "signature": "ext:std:helper-signature"}))
        ctx.stats["helper_signature_checks"] = "cached_signature == definition body with type_args substituted (JSON level), for every operation helper row"
        if len(rows) < 20:
            out.append(("helper-table", "helper table unexpectedly small", {"failing_input": {"rows": len(rows)}, "signature": "ext:std:helper-count"}))
        ctx.stats["helper_rows"] = [r[0] for r in rows]
        return out


PROP = C10()
