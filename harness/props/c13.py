"""C13 — builders refuse inconsistent constructions (model: coq/model/BuilderErr.v + Tracked.v + BuilderParts.v,
spec: coq/spec/BuilderErrS.v + BuilderPartsS.v).

Builders are context managers: calls are observed plainly AND from inside real `with` blocks (conditional
sessions: statements ["with", contexts, body]; other kinds: case["ctx"] selects enclosing builders) - what is
recorded is the exception that reached the caller of the outermost block.

A case describes a builder program: a well-formed prefix (random nesting of Dfg / Cfg blocks /
Conditional cases / TailLoop / functions in a module) followed by ONE call that is either consistent or
carries one inconsistency of the property's classes.  observe() interprets the description on the real
builders through their PUBLIC API only, catches the exception of the final call and reads back the part of
the builder state that call depends on (hierarchy as a parent table via hugr[n].parent, the public `tracked`
list, ...).  The Coq side evaluates the model (corr) and the specification's inconsistency predicates (mon)
on it.  Nothing private is read for a verdict; comparisons the property does not promise (state after a
refusal, order edges of accepted wires, private bookkeeping) are DIAGNOSTICS in the evidence
("diagnostic only, no verdict: ..." in input_distribution), never verdicts."""
import json

import fw
from fw import gZ, gN, gnat, glist, gopt, gpair, gapp, gbool

CLASSES = ["NoSiblingAncestor", "NotInSameCfg", "ConditionalError", "MismatchedExit", "ValueError",
           "NoConcreteFunc", "IndexError", "IncompleteOp", "InvalidPort"]
TYPES = ["Q", "B", "U", "T0", "TB", "S1", "SB"]


def gexc(name):
    if name is None:
        return "XNone"
    return gapp("XErr", name) if name in CLASSES else "XOther"


def mk_type(t):
    from hugr import tys
    return {"Q": tys.Qubit, "B": tys.Bool, "U": tys.Unit, "T0": tys.Tuple(), "TB": tys.Tuple(tys.Bool),
            "S1": tys.Sum([[tys.Bool]]), "SB": tys.Sum([[], []])}[t]


class TypeIds:
    """Interns type objects by Python's == (the comparison the builders use)."""

    def __init__(self):
        self.pool = []

    def __call__(self, t):
        for i, u in enumerate(self.pool):
            if u == t:
                return i
        self.pool.append(t)
        return len(self.pool) - 1


def custom(n_in, outs, name="op"):
    from hugr import ops, tys
    return ops.Custom(name, tys.FunctionType([tys.Qubit] * n_in, list(outs)), extension="verif.c13")


def exc_class(e):
    """The observed class: the first class of the exception's MRO the property knows (a subclass of the
    documented class IS the documented error), else the bare class name (-> XOther: some other error)."""
    for c in type(e).__mro__:
        if c.__name__ in CLASSES:
            return c.__name__
    return type(e).__name__


def catch(f):
    try:
        f()
        return None
    except Exception as e:  # noqa: BLE001 - the exception class is the observation
        return exc_class(e)


def in_ctx(cms, f):
    """f() inside real `with` statements of the context managers cms (outermost first).  What leaves the
    outermost block is what the caller sees: an exception a context swallowed is gone."""
    if not cms:
        return f()
    with cms[0]:
        return in_ctx(cms[1:], f)


def pick_ctx(case, avail):
    """The builders (context managers) around the final call: bit j of case["ctx"] selects the j-th enclosing
    builder counted from the innermost (avail is outermost first); order of nesting is kept."""
    m = case.get("ctx", 0)
    k = len(avail)
    return [cm for j, cm in enumerate(avail) if (m >> (k - 1 - j)) & 1]


def tid(T, name):
    """A type as 16 * (class of the type under Python's ==, the comparison the builders use) + spelling:
    rows that are == but spelled differently (Unit / Tuple(), Bool / Sum([[], []])) are recognisable."""
    return 16 * T(mk_type(name)) + TYPES.index(name)


def is_int(a):
    return isinstance(a, int) and not isinstance(a, bool)


# ------------------------------------------------------------------ hierarchy scenarios (wires)

class Tree:
    """Interprets the construction steps of a nested hierarchy on the real builders."""

    def __init__(self, root):
        from hugr import tys
        from hugr.build.dfg import Dfg
        from hugr.build.cfg import Cfg
        from hugr.build.function import Module
        self.builders = []       # (builder, kind)
        self.sources = []        # (node, offset, pkind)
        self.tags = {}           # index in sources -> tag of a container-output source (round 2)
        self.cfgs = []           # (Cfg builder, index of its entry block in builders)
        self.conds = {}          # builder index of a case -> Conditional node
        self.closed = set()      # builder indices whose outputs were set by a "close" step
        self.exited = set()      # indices in cfgs whose exit type was established by an "exitcfg" step
        self.chain = []          # per builder: the enclosing context managers, outermost first, itself last
        self.root_kind = root
        if root == "dfg":
            d = Dfg(tys.Qubit)
            self.hugr = d.hugr
            self._add_builder(d, "dfg", [])
        elif root == "cfg":
            c = Cfg(tys.Qubit)
            self.hugr = c.hugr
            self.cfgs.append((c, 0))
            self._add_builder(c.add_entry(), "block", [c])
            self._add_builder(c.add_block(tys.Qubit), "block", [c])
        else:
            self.module = Module()
            self.hugr = self.module.hugr
            self.step(["func"])

    def _add_builder(self, b, kind, outer):
        self.builders.append((b, kind))
        self.chain.append(list(outer) + [b])
        self.sources.append((b.input_node, 0, "KValue"))

    def step(self, s):
        from hugr import tys, val
        k = s[0]
        if k == "func":
            f = self.module.define_function("f%d" % len(self.builders), [tys.Qubit], [tys.Qubit])
            self._add_builder(f, "func", [])
            self.sources.append((f.parent_node, 0, "KFunction"))
            return
        if k == "exitcfg":
            self._exit_cfg(s[1])
            return
        bi = s[1] % len(self.builders)
        b, bkind = self.builders[bi]
        q = b.inputs()[0]
        if k == "close":
            self._close(bi, b, bkind, q)
        elif k == "nested":
            self._add_builder(b.add_nested(q), "dfg", self.chain[bi])
        elif k == "cfg":
            c = b.add_cfg(q)
            self.cfgs.append((c, len(self.builders)))
            self._add_builder(c.add_entry(), "block", self.chain[bi] + [c])
            for _ in range(s[2]):
                self._add_builder(c.add_block(tys.Qubit), "block", self.chain[bi] + [c])
        elif k == "cond":
            rows = [[tys.Bool] * (i % 2) for i in range(s[2])]
            sw = b.add_op(custom(0, [tys.Sum(rows)]))
            c = b.add_conditional(sw, q)
            for i in range(s[2]):
                self.conds[len(self.builders)] = c.parent_node
                # every case of c is requested here: later, `with c:` has nothing to object to
                self._add_builder(c.add_case(i), "case", self.chain[bi] + [c])
        elif k == "loop":
            self._add_builder(b.add_tail_loop([], [q]), "loop", self.chain[bi])
        elif k == "op":
            n = b.add_op(custom(1, [tys.Qubit] * s[2]), q)
            for j in range(s[2]):
                self.sources.append((n, j, "KValue"))
            if s[2] == 0 or s[3]:
                self.sources.append((n, -1, "KOrder"))
        elif k == "const":
            n = b.add_const(val.TRUE, parent=b.parent_node)
            self.sources.append((n, 0, "KConst"))
        else:
            raise AssertionError(k)

    # ---- round 2: containers whose signature is established; their own output ports become sources
    def _container_source(self, node, pk, tag):
        self.tags[len(self.sources)] = tag
        self.sources.append((node, 0, pk))

    def _close(self, bi, b, bkind, q):
        """Set the outputs of builder bi to its first input: the container node gets an output row, so
        node.out(0) is a typed port (Value for DFG / Conditional / TailLoop, Control for a block)."""
        from hugr import tys
        if bi in self.closed:
            return
        self.closed.add(bi)
        if bkind == "dfg":
            b.set_outputs(q)
            self._container_source(b.parent_node, "KValue", "dfg")
        elif bkind == "func":
            b.set_outputs(q)                                  # FuncDefn.out(0) is already a KFunction source
        elif bkind == "block":
            b.set_single_succ_outputs(q)
            self._container_source(b.parent_node, "KControl", "block")
        elif bkind == "case":
            b.set_outputs(b.inputs()[-1])                     # (the Qubit input) first closed case establishes the Conditional's outputs
            self._container_source(self.conds[bi], "KValue", "cond")
        elif bkind == "loop":
            sw = b.add_op(custom(0, [tys.Sum([[], []])], "mk"))
            b.set_loop_outputs(sw.out(0), q)
            self._container_source(b.parent_node, "KValue", "loop")
        else:
            raise AssertionError(bkind)

    def _exit_cfg(self, i):
        """Establish the exit type of a CFG (entry -> exit): the CFG node gets the output row [Qubit]."""
        if not self.cfgs:
            return
        ci = i % len(self.cfgs)
        if ci in self.exited:
            return
        self.exited.add(ci)
        c, ei = self.cfgs[ci]
        e, _ = self.builders[ei]
        if ei not in self.closed:
            self._close(ei, e, "block", e.inputs()[0])
        c.branch_exit(e[0])
        self._container_source(c.parent_node, "KValue", "cfg")

    def root_source(self):
        """The root node's first output port: a Value port once the root's signature is established."""
        if self.root_kind == "dfg":
            pk = "KValue" if 0 in self.closed else "KInvalid"
        elif self.root_kind == "cfg":
            pk = "KValue" if 0 in self.exited else "KInvalid"
        else:
            pk = "KInvalid"
        return (self.hugr.root, 0, pk)

    def pick_source(self, case):
        """Old cases: src indexes all sources.  srcsel = "root": the root node itself; "cont": src indexes
        the container-output sources (falls back to all sources when there is none)."""
        sel = case.get("srcsel")
        if sel == "root":
            return self.root_source(), "root"
        idx = list(range(len(self.sources)))
        if sel == "cont" and self.tags:
            idx = sorted(self.tags)
        i = idx[case["src"] % len(idx)]
        return self.sources[i], self.tags.get(i, "plain")


def hierarchy(h, virtual_parent=None):
    """The hierarchy of HUGR h as a parent table over CANONICAL node names: nodes are named by their rank in
    the order (depth, index), so parents always precede children whatever indices the implementation
    allocates (the property does not prescribe them).  virtual_parent: parent index of one extra node that
    is not in the HUGR (the operation a refused add_op did not record) - it gets the key "virtual".
    Returns (table, name) with name: implementation index (or "virtual") -> canonical name."""
    par = {}
    for n in h:
        p = h[n].parent
        par[n.idx] = None if p is None else p.idx
    if virtual_parent is not None:
        par["virtual"] = virtual_parent

    def dep(k):
        d, seen = 0, set()
        while par.get(k) is not None and k not in seen:
            seen.add(k)
            k = par[k]
            d += 1
        return d
    order = sorted(par, key=lambda k: (dep(k), 1 if k == "virtual" else 0, k if k != "virtual" else 0))
    name = {k: i for i, k in enumerate(order)}
    return [None if par[k] is None else name[par[k]] for k in order], name


def order_edges(h):
    return set((a.idx, b.idx) for a in h for b in h.outgoing_order_links(a))


def obs_wire(case):
    t = Tree(case["root"])
    for s in case["steps"]:
        t.step(s)
    ti = case["tgt"] % len(t.builders)
    tb, tkind = t.builders[ti]
    (node, off, pk), stag = t.pick_source(case)
    h = t.hugr
    before = set(n.idx for n in h)
    orders_before = order_edges(h)
    # Dfg.set_outputs is an entry point only while the builder's outputs are not set yet (setting the
    # outputs of one graph twice is outside the property)
    via = case["via"] if tkind == "dfg" and ti not in t.closed else "add_op"
    cms = pick_ctx(case, t.chain[ti])                     # the call sits inside `with` blocks of these builders
    if via == "set_outputs":
        exc = catch(lambda: in_ctx(cms, lambda: tb.set_outputs(node.out(off))))
        tgt = tb.output_node.idx
    else:
        op = custom(1, [])
        exc = catch(lambda: in_ctx(cms, lambda: tb.add_op(op, node.out(off))))
        new = [n for n in h if n.idx not in before]
        if len(new) > 1:
            new = [n for n in new if h[n].op is op]
        # a refusal may come before or after the operation was recorded: the wire's target is the
        # operation in builder tb either way
        tgt = new[0].idx if len(new) == 1 else "virtual"
    pt, name = hierarchy(h, tb.parent_node.idx if tgt == "virtual" else None)
    orders = sorted((name[a], name[b]) for a, b in order_edges(h) - orders_before)
    blk = None
    if tkind == "block":
        blk = [name[h.root.idx], name[h[tb.parent_node].parent.idx]]
    src_c, tgt_c = name[node.idx], name[tgt]
    sib, a = False, tgt_c                             # statistics / diagnostics only (the monitor decides in Coq)
    while a is not None and pt[a] is not None:
        if pt[a] == pt[src_c]:
            sib = True
            break
        a = pt[a]
    diag = {}
    if exc is None:
        want = [(src_c, a)] if sib and a != tgt_c else []
        diag["accepted wire: the new state-order edges are the model's (source -> sibling ancestor)"] = orders == want
    return {"exc": exc, "pt": pt, "src": src_c, "tgt": tgt_c, "k": pk, "blk": blk, "sib": sib,
            "order": orders, "inter": exc is None and sib and a != tgt_c, "recorded": tgt != "virtual", "diag": diag,
            "stag": stag, "tkind": tkind, "via": via, "depth_tgt": depth(pt, tgt_c), "depth_src": depth(pt, src_c),
            "nctx": len(cms), "ctx_kinds": [type(c).__name__ for c in cms]}


def depth(pt, n):
    d = 0
    while n is not None and pt[n] is not None:
        n = pt[n]
        d += 1
    return d


# ------------------------------------------------------------------ other scenarios

def nest(depth):
    """A Dfg with one Qubit input nested `depth` times; returns (root builder, innermost builder, chain)."""
    from hugr import tys
    from hugr.build.dfg import Dfg
    d = Dfg(tys.Qubit)
    chain = [d]
    for _ in range(depth):
        chain.append(chain[-1].add_nested(chain[-1].inputs()[0]))
    return d, chain[-1], chain


def make_row(b, row):
    """Wires of the given types inside builder b (outputs of a fresh Custom node)."""
    n = b.add_op(custom(0, [mk_type(t) for t in row], "mk"))
    return [n.out(i) for i in range(len(row))]


def private_built_flags(cond):
    """DIAGNOSTIC only: the builder's private bookkeeping, if it still has the shape known at design time
    (`_case_builders: list[tuple[Case, bool]]`).  None when it has any other shape.  Never part of a verdict."""
    try:
        return [bool(b) for _, b in cond._case_builders]
    except Exception:  # noqa: BLE001
        return None


def gstmt(ctx_kinds, body_lit):
    return "(mkStmt %s %s)" % (glist(ctx_kinds), glist(body_lit))


def obs_cond(case, T):
    """A session on one Conditional.  What is recorded is only what the public calls do: add_case(i),
    Case.set_outputs, __exit__ (leaving the context).  At most one set_outputs per case builder (setting
    the outputs of one graph twice is outside the property).  A session is a list of STATEMENTS, each caught by
    the caller: a plain call, or ["with", contexts, body] = the calls of `body` in sequence, NOT caught one by
    one, inside real `with` blocks (contexts outermost first: "cond" = the Conditional, "outer" = the Dfg it is
    nested in, ["case", k] = a case builder handed out before); body call ["with_case", i, row] is the idiom
    `with cond.add_case(i) as c: c.set_outputs(row)`.  Per statement the exception that reached the caller is
    recorded, and the calls of the body that actually ran (up to the one that raised).
    After the session every index 0..n-1 is probed with add_case: it is refused iff that case was handed out
    before - the public view of which cases count as built (a refused call must not have marked anything)."""
    from hugr import tys
    from hugr.build.cond_loop import Conditional
    variants = [[mk_type(t) for t in r] for r in case["variants"]]
    others = [mk_type(t) for t in case["others"]]
    sum_ty = tys.Sum(variants)
    inner = None
    if case["depth"] < 0:
        cond = Conditional(sum_ty, others)
    else:
        _, inner, _ = nest(case["depth"])
        sw = inner.add_op(custom(0, [sum_ty] + others, "mk"))
        cond = inner.add_conditional(*[sw.out(i) for i in range(1 + len(others))])
    cases = []
    outs_set = set()
    res = []
    ops_lit = []
    blocks = []                 # statistics: (context kinds, exception) of the `with` statements

    def call(o, lit):
        """One call of a body, not caught; lit gets the calls that were actually made."""
        if o[0] == "add_case":
            lit.append(gapp("OAddCase", gZ(o[1])))
            cases.append(cond.add_case(o[1]))
        elif o[0] == "set_outputs":
            if not cases:
                return
            ci = o[1] % len(cases)
            if ci in outs_set:
                return
            outs_set.add(ci)
            c = cases[ci]
            lit.append(gapp("OSetOutputs", glist(gN(tid(T, t)) for t in o[2])))
            c.set_outputs(*make_row(c, o[2]))
        elif o[0] == "with_case":
            lit.append(gapp("OAddCase", gZ(o[1])))
            with cond.add_case(o[1]) as c:
                cases.append(c)
                outs_set.add(len(cases) - 1)
                lit.append(gapp("OSetOutputs", glist(gN(tid(T, t)) for t in o[2])))
                c.set_outputs(*make_row(c, o[2]))
        else:
            lit.append("OExit")
            cond.__exit__(None, None, None)

    def resolve(names):
        cms, kinds = [], []
        for nm in names:
            if nm == "cond":
                cms.append(cond); kinds.append("CxCond")
            elif nm == "outer":
                if inner is not None:
                    cms.append(inner); kinds.append("CxPlain")
            elif cases:                                          # ["case", k]
                cms.append(cases[nm[1] % len(cases)]); kinds.append("CxPlain")
        return cms, kinds

    for o in case["ops"]:
        names, body = (o[1], o[2]) if o[0] == "with" else ([], [o])
        cms, kinds = resolve(names)
        lit = []

        def run(body=body, lit=lit):
            for b in body:
                call(b, lit)
        exc = catch(lambda: in_ctx(cms, run))
        if not cms and not lit:
            continue                                             # a skipped plain call: nothing happened
        res.append(exc)
        ops_lit.append(gstmt(kinds, lit))
        if o[0] == "with":
            blocks.append(("+".join(kinds) or "none", exc))
    private = private_built_flags(cond)
    session = len(res)
    for i in range(len(variants)):
        res.append(catch(lambda: cond.add_case(i)))
        ops_lit.append(gstmt([], [gapp("OAddCase", gZ(i))]))
    built = [e is not None for e in res[session:]]
    diag = {}
    if private is not None:
        diag["conditional: private built flags equal the publicly probed ones"] = private == built
    return {"res": res, "ops_lit": ops_lit, "built": built, "n": len(variants), "session": session, "diag": diag,
            "blocks": blocks}


def obs_ifelse(case, T):
    """add_if = add_conditional + add_case(1); add_else = add_case(0) on the same conditional.  The
    Conditional behind an If is not reachable through the public API, so its context cannot be left here
    ("exit" steps are skipped; kind "cond" exercises __exit__).  Statements as in obs_cond; the contexts are
    "if" = the If builder, "outer" = the Dfg around it, ["case", k] = the If / an Else handed out before (all of
    them builders whose __exit__ checks nothing); body call ["with_else", row] = `with if_.add_else() as e:
    e.set_outputs(row)`.  Final probe: one more add_else."""
    from hugr import tys
    _, inner, _ = nest(case["depth"])
    sw = inner.add_op(custom(0, [tys.Bool], "mk"))
    if_ = inner.add_if(sw.out(0), inner.inputs()[0])
    res, ops_lit = [None], [gstmt([], [gapp("OAddCase", gZ(1))])]
    holders = [if_]
    outs_set = set()
    blocks = []

    def call(o, lit):
        if o[0] == "add_else":
            lit.append(gapp("OAddCase", gZ(0)))
            holders.append(if_.add_else())
        elif o[0] == "set_outputs":
            ci = o[1] % len(holders)
            if ci in outs_set:
                return
            outs_set.add(ci)
            c = holders[ci]
            lit.append(gapp("OSetOutputs", glist(gN(tid(T, t)) for t in o[2])))
            c.set_outputs(*make_row(c, o[2]))
        elif o[0] == "with_else":
            lit.append(gapp("OAddCase", gZ(0)))
            with if_.add_else() as c:
                holders.append(c)
                outs_set.add(len(holders) - 1)
                lit.append(gapp("OSetOutputs", glist(gN(tid(T, t)) for t in o[1])))
                c.set_outputs(*make_row(c, o[1]))

    def resolve(names):
        cms = []
        for nm in names:
            cms.append(if_ if nm == "if" else inner if nm == "outer" else holders[nm[1] % len(holders)])
        return cms, ["CxPlain"] * len(cms)

    for o in case["ops"]:
        names, body = (o[1], o[2]) if o[0] == "with" else ([], [o])
        cms, kinds = resolve(names)
        lit = []

        def run(body=body, lit=lit):
            for b in body:
                call(b, lit)
        exc = catch(lambda: in_ctx(cms, run))
        if not cms and not lit:
            continue                                             # a skipped plain call: nothing happened
        res.append(exc)
        ops_lit.append(gstmt(kinds, lit))
        if o[0] == "with":
            blocks.append(("+".join(kinds) or "none", exc))
    session = len(res)
    res.append(catch(lambda: if_.add_else()))
    ops_lit.append(gstmt([], [gapp("OAddCase", gZ(0))]))
    return {"res": res, "ops_lit": ops_lit, "built": [res[-1] is not None, True], "n": 2, "session": session,
            "diag": {}, "blocks": blocks}


def obs_exit(case, T):
    from hugr import tys
    from hugr.build.cfg import Cfg
    chain = []
    if case["depth"] < 0:
        cfg = Cfg(tys.Qubit)
    else:
        _, inner, chain = nest(case["depth"])
        cfg = inner.add_cfg(inner.inputs()[0])
    res, rows = [], []
    nctx = 0
    for i, b in enumerate(case["blocks"]):
        blk = cfg.add_entry() if i == 0 else cfg.add_block(tys.Qubit)
        variants = [[mk_type(t) for t in r] for r in b["variants"]]
        others = [mk_type(t) for t in b["others"]]
        n = blk.add_op(custom(0, [tys.Sum(variants)] + others, "mk"))
        blk.set_block_outputs(*[n.out(j) for j in range(1 + len(others))])
        src = blk.parent_node.out(b["branch"])
        cms = pick_ctx(case, chain + [blk, cfg])          # bit 0: `with cfg:`, bit 1: the block, then the Dfgs around
        nctx = len(cms)
        if b["via"] == "branch":
            res.append(catch(lambda: in_ctx(cms, lambda: cfg.branch(src, cfg.exit))))
        else:
            res.append(catch(lambda: in_ctx(cms, lambda: cfg.branch_exit(src))))
        rows.append([tid(T, t) for t in b["variants"][b["branch"]] + b["others"]])
    return {"res": res, "rows": rows, "nctx": nctx}


def obs_fnout(case, T):
    from hugr import tys
    from hugr.build.dfg import Function
    from hugr.build.function import Module
    declared = None if case["declared"] is None else [mk_type(t) for t in case["declared"]]
    chain = []
    if case["how"] == "define":
        m = Module()
        f = m.define_function("f", [tys.Qubit], declared)
    elif case["how"] == "nested_define":
        _, inner, chain = nest(case["depth"])
        f = inner.define_function("f", [tys.Qubit], declared)
    else:
        f = Function("f", [tys.Qubit])
        if declared is not None:
            f.declare_outputs(declared)
    cms = pick_ctx(case, chain + [f])                     # bit 0: `with f:` (the Function builder)
    exc = catch(lambda: in_ctx(cms, lambda: f.set_outputs(*make_row(f, case["given"]))))
    return {"exc": exc, "declared": None if declared is None else [tid(T, t) for t in case["declared"]],
            "given": [tid(T, t) for t in case["given"]], "nctx": len(cms)}


def obs_call(case, T):
    from hugr import ops, tys, val
    from hugr.build.function import Module
    m = Module()
    np_ = case["np"]
    params = [tys.TypeTypeParam(tys.TypeBound.Any)] * np_
    body = tys.FunctionType([tys.Bool], [tys.Bool])
    caller = m.define_function("main", [tys.Bool], [tys.Bool])
    inner = caller
    chain = [caller]
    for _ in range(case["depth"]):
        inner = inner.add_nested(inner.inputs()[0])
        chain.append(inner)
    tgt = case["target"]
    if tgt == "defn":
        f = m.define_function("f", [tys.Bool], [tys.Bool], type_params=params)
        node, k = f.parent_node, "KFunction"
    elif tgt == "decl":
        node, k = m.declare_function("f", tys.PolyFuncType(params, body)), "KFunction"
    elif tgt == "const":
        node, k = inner.add_const(val.TRUE), "KConst"
    elif tgt == "op":
        node, k = inner.add_op(custom(0, [tys.Bool])), "KValue"
    elif tgt == "input":
        node, k = inner.input_node, "KValue"
    else:
        node, k = m.hugr.root, "KInvalid"
    inst = body if case["inst"] else None
    targs = None if case["nt"] is None else [tys.Bool.type_arg()] * case["nt"]
    arg = inner.inputs()[0]
    before = len(m.hugr)
    cms = pick_ctx(case, chain)                           # bit 0: the builder the call is made in
    if case["via"] == "call":
        exc = catch(lambda: in_ctx(cms, lambda: inner.call(node, arg, instantiation=inst, type_args=targs)))
    elif case["via"] == "load_function":
        exc = catch(lambda: in_ctx(cms, lambda: inner.load_function(node, instantiation=inst, type_args=targs)))
    elif case["via"] == "op_call":
        exc = catch(lambda: in_ctx(cms, lambda: ops.Call(tys.PolyFuncType(params, body), inst, targs)))
    else:
        exc = catch(lambda: in_ctx(cms, lambda: ops.LoadFunc(tys.PolyFuncType(params, body), inst, targs)))
    if case["via"].startswith("op_"):
        k = "KFunction"
    return {"exc": exc, "k": k, "np": np_ if k == "KFunction" else 0, "inst": bool(case["inst"]),
            "nt": case["nt"] or 0, "grew": len(m.hugr) - before, "nctx": len(cms)}


def obs_plainadd(case, T):
    from hugr import tys
    from hugr.build.dfg import Dfg, Function
    from hugr.build.cfg import Cfg
    from hugr.build.cond_loop import Conditional, TailLoop
    kind = case["builder"]
    chain = []
    if kind == "dfg":
        b = Dfg(tys.Qubit, tys.Qubit)
    elif kind == "nested":
        _, b, chain = nest(case["depth"])
        b = b.add_nested(b.inputs()[0], b.inputs()[0])
    elif kind == "function":
        b = Function("f", [tys.Qubit, tys.Qubit])
    elif kind == "case":
        b = Conditional(tys.Bool, [tys.Qubit, tys.Qubit]).add_case(0)
    elif kind == "block":
        b = Cfg(tys.Qubit, tys.Qubit).add_entry()
    else:
        b = TailLoop([], [tys.Qubit, tys.Qubit])
    args = [a if is_int(a) else b.inputs()[a[1] % 2] for a in case["args"]]
    before = len(b.hugr)
    op = custom(len(args), [tys.Qubit] * case["nout"])
    cms = pick_ctx(case, chain + [b])                     # bit 0: `with b:`; never the half-built Conditional / Cfg
    if case["via"] == "extend":
        exc = catch(lambda: in_ctx(cms, lambda: b.extend(op(*args))))
    else:
        exc = catch(lambda: in_ctx(cms, lambda: b.add(op(*args))))
    grew = len(b.hugr) > before
    diag = {("plain add: refused with the HUGR unchanged" if exc is not None else
             "plain add: accepted and the HUGR grew"): grew == (exc is None)}
    return {"exc": exc, "grew": grew, "diag": diag, "nctx": len(cms)}


def obs_tidx(case, T):
    from hugr import tys
    from hugr.build.tracked_dfg import TrackedDfg
    d = TrackedDfg(*[tys.Qubit] * case["nin"], track_inputs=case["track"])
    for s in case["pre"]:
        if s[0] == "track":
            d.track_wire(d.inputs()[s[1] % case["nin"]])
        else:
            catch(lambda: d.untrack_wire(s[1]))
    names = {d.input_node.idx: 0}
    table = [None if w is None else [names.get(w.out_port().node.idx, 9), w.out_port().offset] for w in d.tracked]
    before = (len(d.hugr), list(d.tracked), len(list(d.hugr.links())))
    i, via = case["i"], case["via"]
    cms = pick_ctx(case, [d])                             # bit 0: `with d:`
    if via == "tracked_wire":
        exc = catch(lambda: in_ctx(cms, lambda: d.tracked_wire(i)))
    elif via == "untrack_wire":
        exc = catch(lambda: in_ctx(cms, lambda: d.untrack_wire(i)))
    elif via == "add":
        exc = catch(lambda: in_ctx(cms, lambda: d.add(custom(2, [tys.Qubit, tys.Qubit])(d.inputs()[0], i))))
    elif via == "extend":
        exc = catch(lambda: in_ctx(cms, lambda: d.extend(custom(1, [tys.Qubit])(i))))
    else:
        exc = catch(lambda: in_ctx(cms, lambda: d.set_indexed_outputs(d.inputs()[0], i)))
    after = (len(d.hugr), list(d.tracked), len(list(d.hugr.links())))
    diag = {}
    if exc is not None:
        diag["tracked index: refused with HUGR and tracked list unchanged"] = before == after
    return {"exc": exc, "table": table, "changed": before != after, "diag": diag, "nctx": len(cms)}


def obs_serialise(case, T):
    """A HUGR with several containers, some of them left incomplete; fields: the guarded attributes."""
    from hugr import ops, tys
    from hugr.build.dfg import Dfg
    from hugr.build.function import Module
    nodes = []                   # per operation with guarded fields: list of bools (field set?)
    if case["root"] == "module":
        m = Module()
        top = m.define_function("main", [tys.Qubit], [tys.Qubit])
        h = m.hugr
        chain = [top]
    else:
        top = Dfg(tys.Qubit)
        h = top.hugr
        chain = [top]
    for _ in range(case["depth"]):
        chain.append(chain[-1].add_nested(chain[-1].inputs()[0]))
    inner = chain[-1]
    q = inner.inputs()[0]
    for p in case["parts"]:
        what, fin = p["what"], p["finish"]
        if what == "dfg":
            d = inner.add_nested(q)
            if fin:
                d.set_outputs(*d.inputs())
            nodes.append([fin])          # DFG._outputs
            nodes.append([fin])          # Output._types
        elif what == "cond":
            sw = inner.add_op(custom(0, [tys.Bool]))
            c = inner.add_conditional(sw.out(0), q)
            for i in range(2):
                cs = c.add_case(i)
                done = fin or i == 0
                if done:
                    cs.set_outputs(*cs.inputs())
                nodes.append([done])     # Case._outputs
                nodes.append([done])     # Output._types
            nodes.append([True])         # Conditional._outputs (set by the first case)
        elif what == "cfg":
            c = inner.add_cfg(q)
            e = c.add_entry()
            e.set_single_succ_outputs(*e.inputs())
            if fin:
                c.branch_exit(e[0])
            nodes.append([fin])          # CFG._outputs
            nodes.append([fin])          # ExitBlock._cfg_outputs
        elif what == "loop":
            t = inner.add_tail_loop([], [q])
            if fin:
                sw = t.add_op(custom(0, [tys.Sum([[], []])]))
                t.set_loop_outputs(sw.out(0), *t.inputs())
            nodes.append([fin])          # Output._types of the loop body
        elif what == "noop":
            if not fin:
                h.add_node(ops.Noop(), inner.parent_node)
                nodes.append([False])    # Noop._type
        elif what == "block":
            c = inner.add_cfg(q)
            e = c.add_entry()
            if fin:
                e.set_single_succ_outputs(*e.inputs())
                c.branch_exit(e[0])
            nodes.append([fin, fin])     # DataflowBlock._sum, _other_outputs
            nodes.append([fin])          # CFG._outputs
    for b in reversed(chain):
        b.set_outputs(*b.inputs())
        nodes.append([True])
    cms = pick_ctx(case, chain)                           # serialising from inside the builders' `with` blocks
    exc = catch(lambda: in_ctx(cms, lambda: h.to_json()))
    return {"exc": exc, "nodes": nodes, "nctx": len(cms)}


# ------------------------------------------------------------------ round 5: programs of parts, every serialiser

POPS = {"noop": "PNoop", "maketuple": "PMakeTuple", "unpack": "PUnpackTuple", "callindirect": "PCallIndirect",
        "loadconst": "PLoadConst"}
SERIALISERS = ["to_json", "pkg_json", "pkg_bytes", "pkg_str", "pkg_text_bytes"]


def run_serialiser(h, via):
    """The public ways of serialising a HUGR.  Package.to_json is deprecated: if it is gone, to_str is used."""
    import warnings
    from hugr.package import Package
    from hugr.envelope import EnvelopeConfig
    with warnings.catch_warnings():
        warnings.simplefilter("ignore")
        if via == "to_json":
            return h.to_json()
        pkg = Package([h])
        if via == "pkg_json" and hasattr(pkg, "to_json"):
            return pkg.to_json()
        if via == "pkg_bytes":
            return pkg.to_bytes()
        if via == "pkg_text_bytes":
            return pkg.to_bytes(EnvelopeConfig.TEXT)
        return pkg.to_str()


def obs_serparts(case, T):
    """A program described by what it does: the chain root (Module + main / Dfg) > nested Dfgs, each finished or
    not (case["chainfin"]), and parts placed in hosts (the innermost chain builder or the body of an earlier
    part, finished or not): functions (outputs declared through define_function / declare_outputs or not; body
    empty or partly built; called by their host or not; set_outputs reached or not), Dfgs, Conditionals (each
    case not requested / requested / finished), CFGs (blocks finished or not, exit branch or not), loops,
    partial operations wired by a builder or merely added with Hugr.add_node.  Then one serialiser.  Nothing of
    the HUGR is read back: the literal says which finishing calls were MADE."""
    from hugr import ops, tys, val
    from hugr.build.dfg import Dfg
    from hugr.build.function import Module
    Q = tys.Qubit
    lit = []
    module = None
    depth = case["depth"]
    cf = list(case.get("chainfin") or [])
    cf = (cf + [True] * (depth + 1))[:depth + 1]
    if case["root"] == "module":
        module = Module()
        top = module.define_function("main", [Q], [Q])
        h = module.hugr
    else:
        top = Dfg(Q)
        h = top.hugr
    chain = [top]
    for _ in range(depth):
        chain.append(chain[-1].add_nested(chain[-1].inputs()[0]))
    hosts = [chain[-1]]
    stats = []
    nfun = [0]

    def fresh(prefix):
        nfun[0] += 1
        return "%s%d" % (prefix, nfun[0])

    for p in case["parts"]:
        what = p["what"]
        hi = p.get("host", 0)
        at_module = what == "func" and hi == "module" and module is not None
        host = hosts[(hi if isinstance(hi, int) else 0) % len(hosts)]
        q = host.inputs()[0]
        if what == "func":
            declared, fin = p["declared"], p["finished"]
            outs = [Q] if declared == "define" else None
            if at_module:
                f = module.define_function(fresh("f"), [Q], outs)
                caller = top
            else:
                f = host.define_function(fresh("f"), [Q], outs, parent=host.parent_node)
                caller = host
            if declared == "declare_outputs":
                f.declare_outputs([Q])
            w = f.inputs()[0]
            for _ in range(p.get("body", 0)):
                w = f.add_op(custom(1, [Q], "step"), w).out(0)
            if fin:
                f.set_outputs(w)
            if p.get("called") and (declared or fin):
                caller.call(f.parent_node, caller.inputs()[0])
            hosts.append(f)
            lit.append(gapp("PFunc", gbool(bool(declared)), gbool(fin)))
            stats.append(("func:" + ("declared" if declared else "undeclared"), fin))
        elif what == "dfg":
            d = host.add_nested(q)
            if p["finished"]:
                d.set_outputs(*d.inputs())
            hosts.append(d)
            lit.append(gapp("PDfg", gbool(p["finished"])))
            stats.append(("dfg", p["finished"]))
        elif what == "cond":
            cs = p["cases"]
            sw = host.add_op(custom(0, [tys.Sum([[] for _ in cs])], "mk"))
            c = host.add_conditional(sw.out(0), q)
            for i, st in enumerate(cs):
                if st == "n":
                    continue
                b = c.add_case(i)
                if st == "f":
                    b.set_outputs(*b.inputs())
                hosts.append(b)
            lit.append(gapp("PCond", glist({"n": "CNotRequested", "r": "CRequested", "f": "CFinished"}[st] for st in cs)))
            # the Conditional creates all its Case nodes at once: a case never requested is as open as a requested one
            stats.append(("cond", bool(cs) and all(st == "f" for st in cs)))
        elif what == "cfg":
            c = host.add_cfg(q)
            blocks = []
            for i, fin in enumerate(p["blocks"]):
                b = c.add_entry() if i == 0 else c.add_block(Q)
                if fin:
                    b.set_single_succ_outputs(*b.inputs())
                blocks.append(b)
                hosts.append(b)
            ex = bool(p["exit"] and p["blocks"] and p["blocks"][0])
            if ex:
                c.branch_exit(blocks[0][0])
            lit.append(gapp("PCfg", glist(gbool(b) for b in p["blocks"]), gbool(ex)))
            stats.append(("cfg", ex and all(p["blocks"])))
        elif what == "loop":
            t = host.add_tail_loop([], [q])
            if p["finished"]:
                sw = t.add_op(custom(0, [tys.Sum([[], []])], "mk"))
                t.set_loop_outputs(sw.out(0), *t.inputs())
            hosts.append(t)
            lit.append(gapp("PLoop", gbool(p["finished"])))
            stats.append(("loop", p["finished"]))
        elif what == "op":
            o, wired = p["op"], p["wired"]
            if not wired:
                op = {"noop": ops.Noop, "maketuple": ops.MakeTuple, "unpack": ops.UnpackTuple,
                      "callindirect": ops.CallIndirect, "loadconst": ops.LoadConst}[o]()
                h.add_node(op, host.parent_node)
            elif o == "noop":
                host.add_op(ops.Noop(), q)
            elif o == "maketuple":
                host.add_op(ops.MakeTuple(), q)
            elif o == "unpack":
                mt = host.add_op(ops.MakeTuple(), q)
                host.add_op(ops.UnpackTuple(), mt.out(0))
            elif o == "callindirect":
                fv = host.add_op(custom(0, [tys.FunctionType([Q], [Q])], "mkfn"))
                host.add_op(ops.CallIndirect(), fv.out(0), q)
            else:
                host.load(val.TRUE)
            lit.append(gapp("POp", POPS[o], gbool(wired)))
            stats.append(("op:" + o, wired))
        else:
            raise AssertionError(what)
    for i in reversed(range(len(chain))):
        b = chain[i]
        if cf[i]:
            b.set_outputs(*b.inputs())
        if i == 0 and module is not None:
            lit.append(gapp("PFunc", "true", gbool(cf[i])))
            stats.append(("chain:main", cf[i]))
        else:
            lit.append(gapp("PDfg", gbool(cf[i])))
            stats.append(("chain:dfg", cf[i]))
    cms = pick_ctx(case, chain)                           # serialising from inside the builders' `with` blocks
    via = case["via"]
    exc = catch(lambda: in_ctx(cms, lambda: run_serialiser(h, via)))
    return {"exc": exc, "parts_lit": lit, "nctx": len(cms), "unfinished": sorted(set(k for k, fin in stats if not fin)),
            "via": via}


OBSERVERS = {"wire": lambda c, T: obs_wire(c), "cond": obs_cond, "ifelse": obs_ifelse, "exit": obs_exit,
             "fnout": obs_fnout, "call": obs_call, "plainadd": obs_plainadd, "tidx": obs_tidx,
             "serialise": obs_serialise, "serparts": obs_serparts}


# ------------------------------------------------------------------ generator

def rand_row(rng, pool=TYPES, maxlen=3):
    return [rng.choice(pool) for _ in range(rng.randint(0, maxlen))]


def gen_wire(rng):
    root = rng.choice(["dfg", "dfg", "cfg", "cfg", "module"])
    steps = []
    nb = {"dfg": 1, "cfg": 2, "module": 1}[root]
    for _ in range(rng.randint(1, 9)):
        r = rng.random()
        par = rng.randrange(nb) if rng.random() < 0.5 else nb - 1      # deep chains are common
        if r < 0.25:
            steps.append(["nested", par]); nb += 1
        elif r < 0.4:
            k = rng.randint(0, 2)
            steps.append(["cfg", par, k]); nb += 1 + k
        elif r < 0.5:
            k = rng.randint(1, 3)
            steps.append(["cond", par, k]); nb += k
        elif r < 0.58:
            steps.append(["loop", par]); nb += 1
        elif r < 0.85:
            steps.append(["op", par, rng.randint(0, 2), rng.random() < 0.2])
        elif r < 0.93 or root != "module":
            steps.append(["const", par])
        else:
            steps.append(["func"]); nb += 1
    kinds = {"dfg": ["dfg"], "cfg": ["block", "block"], "module": ["func"]}[root]
    for s in steps:
        kinds += {"nested": ["dfg"], "cfg": ["block"] * (1 + (s[2] if len(s) > 2 else 0)),
                  "cond": ["case"] * (s[2] if len(s) > 2 else 0), "loop": ["loop"], "func": ["func"]}.get(s[0], [])
    blocks = [i for i, k in enumerate(kinds) if k == "block"]
    tgt = rng.choice(blocks) if blocks and rng.random() < 0.5 else rng.randrange(len(kinds))
    return {"kind": "wire", "root": root, "steps": steps, "tgt": tgt, "src": rng.randrange(256),
            "via": "set_outputs" if rng.random() < 0.2 else "add_op"}


def gen_wire2(rng):
    """Round 2: hierarchies in which some containers (and often the root) have an established signature,
    with the wire's source taken from the root node itself or from a container node's own output port."""
    case = gen_wire(rng)
    steps = case["steps"]
    r = rng.random()
    if r < 0.55:
        steps.insert(rng.randint(0, len(steps)), ["exitcfg", 0] if case["root"] == "cfg" else ["close", 0])
    for _ in range(rng.randint(0, 4)):
        steps.insert(rng.randint(0, len(steps)),
                     ["exitcfg", rng.randrange(8)] if rng.random() < 0.25 else ["close", rng.randrange(64)])
    r = rng.random()
    case["srcsel"] = "root" if r < 0.35 else "cont" if r < 0.85 else "any"
    return case


def gen_cond(rng):
    if rng.random() < 0.2:
        ops_ = []
        for _ in range(rng.randint(0, 5)):
            r = rng.random()
            ops_.append(["add_else"] if r < 0.45 else ["set_outputs", rng.randrange(4), rng.choice([["Q"], ["Q"], ["B"], []])]
                        if r < 0.85 else ["exit"])
        return {"kind": "ifelse", "depth": rng.randint(0, 3), "ops": ops_}
    n = rng.randint(0, 4)
    variants = [rand_row(rng, maxlen=2) for _ in range(n)]
    pool = [rand_row(rng) for _ in range(2)]
    pool.append(list(pool[0]))
    if pool[0] and pool[0][0] == "U":
        pool.append(["T0"] + pool[0][1:])       # equal by == but a different spelling
    ops_ = []
    order = list(range(n))
    rng.shuffle(order)
    for _ in range(rng.randint(1, 9)):
        r = rng.random()
        if r < 0.45:
            i = order.pop() if order and rng.random() < 0.7 else rng.choice([-n - 1, -n, -2, -1, 0, 1, n - 1, n, n + 1, n + 5])
            ops_.append(["add_case", i])
        elif r < 0.85:
            ops_.append(["set_outputs", rng.randrange(8), rng.choice(pool) if rng.random() < 0.85 else rand_row(rng)])
        else:
            ops_.append(["exit"])
    if rng.random() < 0.5:
        ops_.append(["exit"])
    return {"kind": "cond", "depth": rng.randint(-1, 3), "variants": variants, "others": rand_row(rng, maxlen=2), "ops": ops_}


def gen_exit(rng):
    base_v = [rand_row(rng, maxlen=2) for _ in range(rng.randint(1, 3))]
    base_o = rand_row(rng, maxlen=2)
    blocks = []
    for _ in range(rng.randint(1, 5)):
        if rng.random() < 0.6:
            v, o = [list(r) for r in base_v], list(base_o)
        else:
            v, o = [rand_row(rng, maxlen=2) for _ in range(rng.randint(1, 3))], rand_row(rng, maxlen=2)
        blocks.append({"variants": v, "others": o, "branch": rng.randrange(len(v)),
                       "via": rng.choice(["branch_exit", "branch_exit", "branch"])})
    return {"kind": "exit", "depth": rng.randint(-1, 3), "blocks": blocks}


def gen_fnout(rng):
    declared = None if rng.random() < 0.2 else rand_row(rng)
    r = rng.random()
    if declared is None or r < 0.45:
        given = list(declared) if declared is not None else rand_row(rng)
    elif r < 0.6 and declared:
        given = declared[:-1]
    elif r < 0.75 and len(declared) > 1:
        given = declared[1:] + declared[:1]
    elif r < 0.85:
        given = declared + [rng.choice(TYPES)]
    else:
        given = rand_row(rng)
    return {"kind": "fnout", "declared": declared, "given": given,
            "how": rng.choice(["define", "declare_outputs", "nested_define"]), "depth": rng.randint(0, 3)}


def gen_call(rng):
    np_ = rng.choice([0, 0, 1, 1, 2, 3])
    r = rng.random()
    nt = np_ if r < 0.5 else rng.choice([None, 0, 1, 2, 3, np_ + 1])
    return {"kind": "call", "target": rng.choice(["defn", "defn", "decl", "decl", "const", "op", "input", "module"]),
            "np": np_, "inst": rng.random() < 0.7, "nt": nt, "depth": rng.randint(0, 3),
            "via": rng.choice(["call", "call", "load_function", "op_call", "op_load"])}


def gen_plainadd(rng):
    n = rng.randint(0, 4)
    args = [[0, rng.randrange(2)] for _ in range(n)]
    if rng.random() < 0.6 and n:
        for _ in range(rng.randint(1, 2)):
            args[rng.randrange(n)] = rng.choice([0, 1, -1, 5])
    return {"kind": "plainadd", "builder": rng.choice(["dfg", "nested", "function", "case", "block", "loop"]),
            "depth": rng.randint(0, 3), "args": args, "nout": rng.randint(0, 3), "via": rng.choice(["add", "add", "extend"])}


def gen_tidx(rng):
    nin = rng.randint(1, 5)
    pre = []
    for _ in range(rng.randint(0, 6)):
        pre.append(["track", rng.randrange(nin)] if rng.random() < 0.55 else ["untrack", rng.randint(0, 6)])
    i = rng.choice([-7, -3, -2, -1, 0, 0, 1, 1, 2, 3, 4, 5, 6, 9])
    return {"kind": "tidx", "nin": nin, "track": rng.random() < 0.6, "pre": pre, "i": i,
            "via": rng.choice(["tracked_wire", "untrack_wire", "add", "extend", "set_indexed_outputs"])}


def gen_serialise(rng):
    parts = []
    n = rng.randint(0, 4)
    bad = rng.randrange(n) if n and rng.random() < 0.6 else -1
    for j in range(n):
        parts.append({"what": rng.choice(["dfg", "cond", "cfg", "loop", "noop", "block"]), "finish": j != bad})
    return {"kind": "serialise", "root": rng.choice(["dfg", "module"]), "depth": rng.randint(0, 3), "parts": parts}


PLAIN_TYPES = ["Q", "B", "U"]       # no two of them are == : a differing row clearly disagrees


def gen_cond_with(rng):
    """Round 4: conditional sessions written the way the builders are meant to be used - inside `with` blocks.
    Style A: one program `with cond: with cond.add_case(i) as c: c.set_outputs(row) ...` over all cases in a
    random order, consistent or with ONE inconsistency (a disagreeing row at a random position / at the LAST
    case, an index requested twice, an index out of range, a case left out), the Conditional standalone or
    nested, the block sometimes split in two.  Style B: a gen_cond session whose calls are grouped into
    `with` statements with random contexts."""
    if rng.random() < 0.6:
        n = rng.randint(1, 4)
        variants = [rand_row(rng, maxlen=2) for _ in range(n)]
        good = rand_row(rng, PLAIN_TYPES, 2)
        bad = good
        while bad == good:
            bad = rand_row(rng, PLAIN_TYPES, 2)
        order = list(range(n))
        rng.shuffle(order)
        body = []
        for i in order:
            if rng.random() < 0.7:
                body.append(["with_case", i, list(good)])
            else:
                body.append(["add_case", i])
                body.append(["set_outputs", 63, list(good)])        # 63 % len(cases): see fix-up below
        # set_outputs of the split form addresses the case just handed out: index = number of cases so far - 1
        k = 0
        for b in body:
            if b[0] in ("with_case", "add_case"):
                k += 1
            else:
                b[1] = k - 1
        fault = rng.choice(["none", "mismatch", "mismatch_last", "mismatch_last", "twice", "range", "missing"])
        outs = [b for b in body if b[0] in ("with_case", "set_outputs")]
        if fault == "mismatch" and len(outs) > 1:
            outs[rng.randrange(1, len(outs))][-1] = list(bad)
        elif fault == "mismatch_last" and len(outs) > 1:
            outs[-1][-1] = list(bad)
        elif fault == "twice":
            j = rng.randrange(len(body))
            body.insert(rng.randint(j + 1, len(body)), ["add_case", body[j][1]] if body[j][0] != "set_outputs"
                        else ["add_case", order[0]])
        elif fault == "range":
            body.insert(rng.randint(0, len(body)), ["add_case", rng.choice([-n - 1, -1, n, n + 1, n + 5])])
        elif fault == "missing":
            j = rng.randrange(len(body))
            if body[j][0] == "add_case":
                del body[j:j + 2]
            elif body[j][0] == "with_case":
                del body[j]
        depth = rng.randint(-1, 3)
        ctx = rng.choice([["cond"], ["cond"], ["cond"], ["outer", "cond"], ["cond", "outer"], ["outer"], []])
        if rng.random() < 0.25 and len(body) > 1:
            cut = rng.randint(1, len(body) - 1)
            ops_ = [["with", list(ctx), body[:cut]], ["with", list(ctx), body[cut:]]]
        else:
            ops_ = [["with", ctx, body]]
        if rng.random() < 0.3:
            ops_.append(rng.choice([["exit"], ["with", ["cond"], []], ["add_case", rng.randrange(n)]]))
        return {"kind": "cond", "depth": depth, "variants": variants, "others": rand_row(rng, maxlen=2), "ops": ops_}
    case = gen_cond(rng)
    ifelse = case["kind"] == "ifelse"
    ops_, out = case["ops"], []
    i = 0
    while i < len(ops_):
        if rng.random() < 0.55:
            m = rng.randint(1, 3)
            names = ["if", "outer", ["case", rng.randrange(4)]] if ifelse else ["cond", "cond", "outer", ["case", rng.randrange(4)]]
            ctx = [nm for nm in names if rng.random() < 0.5]
            rng.shuffle(ctx)
            body = [o for o in ops_[i:i + m] if not (ifelse and o[0] == "exit")]
            out.append(["with", ctx, body])
            i += m
        else:
            out.append(ops_[i])
            i += 1
    if rng.random() < 0.3:
        out.append(["with", ["if"] if ifelse else ["cond"], []])
    case["ops"] = out
    return case


def gen_ctx(rng):
    """Round 4: a call of any other class made inside `with` blocks of its enclosing builders."""
    g = rng.choice([gen_wire, gen_wire, gen_wire, gen_wire2, gen_exit, gen_fnout, gen_call, gen_plainadd, gen_tidx,
                    gen_serialise])
    case = g(rng)
    case["ctx"] = rng.choice([1, 1, 3, 3, 255, rng.randrange(1, 256)])
    return case


def gen_serparts(rng):
    """Round 5: a program of parts (functions with declared / undeclared outputs, Dfgs, Conditionals, CFGs, loops,
    partial operations) in random hosts under a Module or Dfg root, mostly with exactly ONE thing left unfinished
    (any kind, any position, incl. the chain itself), sometimes none or several; then a random serialiser."""
    def func(fin):
        return {"what": "func", "declared": rng.choice([None, "define", "define", "declare_outputs"]),
                "finished": fin, "body": rng.choice([0, 0, 1, 2]), "called": rng.random() < 0.5,
                "host": "module" if rng.random() < 0.4 else rng.randrange(64)}

    def part(fin):
        what = rng.choice(["func", "func", "func", "dfg", "cond", "cfg", "loop", "op"])
        host = rng.randrange(64)
        if what == "func":
            return func(fin)
        if what in ("dfg", "loop"):
            return {"what": what, "finished": fin, "host": host}
        if what == "op":
            return {"what": "op", "op": rng.choice(sorted(POPS)), "wired": fin, "host": host}
        if what == "cond":
            n = rng.randint(1, 3)
            if fin:
                cs = ["f"] * n
            elif rng.random() < 0.2:
                cs = ["n"] * rng.randint(0, 2)          # no case requested at all / nothing to request
            else:
                cs = [rng.choice(["f", "f", "r", "n"]) for _ in range(n)]
                if "r" not in cs:
                    # a case that was never REQUESTED next to finished ones only: the property's serialisation
                    # clause does not decide (is a missing case an incomplete operation?) - one is requested
                    cs[rng.randrange(n)] = "r"
            return {"what": "cond", "cases": cs, "host": host}
        if fin:
            return {"what": "cfg", "blocks": [True] * rng.randint(1, 3), "exit": True, "host": host}
        blocks = [True] * rng.randint(0, 3)
        ex = True
        if blocks and rng.random() < 0.5:
            blocks[rng.randrange(len(blocks))] = False
            ex = rng.random() < 0.5
        else:
            ex = False
        return {"what": "cfg", "blocks": blocks, "exit": ex, "host": host}

    depth = rng.randint(0, 3)
    n = rng.randint(0, 4)
    chainfin = [True] * (depth + 1)
    r = rng.random()
    if r < 0.15:
        fins = [True] * n
    elif r < 0.8:
        fins = [True] * n
        k = rng.randrange(n + 1) if rng.random() < 0.8 else n
        if k < n:
            fins[k] = False
        else:
            chainfin[rng.randrange(depth + 1)] = False
    else:
        fins = [rng.random() < 0.6 for _ in range(n)]
        chainfin = [rng.random() < 0.8 for _ in chainfin]
    case = {"kind": "serparts", "root": rng.choice(["module", "module", "dfg"]), "depth": depth, "chainfin": chainfin,
            "parts": [part(f) for f in fins], "via": rng.choice(["to_json", "to_json"] + SERIALISERS)}
    if rng.random() < 0.25:
        case["ctx"] = rng.choice([1, 3, 255])
    return case


GENS = [(gen_wire, 8), (gen_cond, 4), (gen_exit, 2), (gen_fnout, 2), (gen_call, 3), (gen_plainadd, 2),
        (gen_tidx, 2), (gen_serialise, 2),
        (gen_wire2, 4),          # appended last: the streams of the generators above are unchanged
        (gen_cond_with, 4), (gen_ctx, 4),      # round 4, appended after them for the same reason
        (gen_serparts, 4)]                     # round 5, likewise


class C13(fw.Prop):
    id = "C13"
    props_file = "props/C13.v"
    run_file = "run/C13Run.v"
    run_module = "run.C13Run"
    shard = 300
    rule = ("builder programs = a well-formed random prefix (nested Dfg / Cfg blocks / Conditional cases / "
            "TailLoop / module functions, depth up to ~8; conditional and exit sessions; declared outputs; "
            "polymorphic definitions and declarations; tracked tables with holes; HUGRs with unfinished "
            "containers) followed by one call that is consistent or carries an inconsistency of one class, at a "
            "random position and nesting depth, over random rows from a pool with ==-equal spellings.  "
            "wire sources include the root node's own output port and the output ports of containers with an "
            "established signature (DFG, CFG, Conditional, TailLoop, block control port).  "
            "builders are also used as context managers: conditional sessions whose calls run uncaught inside "
            "`with cond:` / `with case:` / `with dfg:` blocks (whole programs over all cases with one inconsistency "
            "at a random position), and calls of every other class inside `with` blocks of their enclosing builders.  "
            "round 5: programs of parts (functions with undeclared / declared outputs at module level or nested, Dfgs, "
            "Conditionals, CFGs, loops, partial operations; hosts = the innermost chain builder or the body of an earlier "
            "part) with mostly exactly one thing left unfinished at a random position (incl. the chain itself), then one of "
            "Hugr.to_json / Package.to_json / to_bytes (binary, text) / to_str.  "
            "non-trivial = the call is refused, or it is an accepted inter-graph / inter-block wire, or a "
            "session with >= 2 accepted calls")
    trusted = ["the interpreter of case descriptions (harness/props/c13.py) and its knowledge of which kind of "
               "port each constructed source node has and which guarded fields a container leaves unset",
               "hierarchy read back as hugr[n].parent, nodes named canonically (rank by depth, index); types "
               "interned by Python == together with their spelling",
               "exception classes are compared by name (first class of the MRO the property knows)",
               "which refusals hugr-py documents a class for (C13Run.documented)",
               "`with` blocks are real Python `with` statements on the builders (in_ctx); of a body only the calls "
               "that actually ran are presented; `with cond.add_case(i) as c: c.set_outputs(r)` is presented as the "
               "two calls in sequence (the Case context is transparent in the model)"]
    trusted = trusted + ["the part interpreter obs_serparts makes exactly the calls its literal names (which finishing "
                         "calls were made, which outputs were only declared, which operations were never wired); "
                         "nothing is read back from the HUGR for KSerParts"]
    assumptions = ["the wire's target is the operation of the target builder, recorded or not by a refusal"]

    def __init__(self):
        self.T = TypeIds()

    def corpus(self, ctx):
        return [
            # D18: negative case indices were accepted (-1 built the last case, below -n gave IndexError)
            {"kind": "cond", "depth": 0, "variants": [["B"], []], "others": ["Q"], "ops": [["add_case", -1]]},
            {"kind": "cond", "depth": -1, "variants": [["B"], []], "others": [], "ops": [["add_case", -3]]},
            {"kind": "cond", "depth": 1, "variants": [[], [], []], "others": [],
             "ops": [["add_case", 2], ["add_case", -1], ["exit"]]},
            # D29: negative tracked indices
            {"kind": "tidx", "nin": 2, "track": True, "pre": [], "i": -1, "via": "add"},
            {"kind": "tidx", "nin": 2, "track": True, "pre": [], "i": -2, "via": "untrack_wire"},
            {"kind": "tidx", "nin": 1, "track": True, "pre": [["untrack", 0]], "i": 0, "via": "set_indexed_outputs"},
            # one trigger per class
            {"kind": "wire", "root": "dfg", "steps": [["nested", 0], ["op", 1, 1, False], ["nested", 0]], "tgt": 2, "src": 2, "via": "add_op"},
            {"kind": "wire", "root": "cfg", "steps": [["nested", 1], ["op", 2, 1, False]], "tgt": 0, "src": 3, "via": "add_op"},
            {"kind": "wire", "root": "dfg", "steps": [["cfg", 0, 1], ["nested", 0], ["op", 3, 1, False]], "tgt": 1, "src": 4, "via": "add_op"},
            {"kind": "wire", "root": "dfg", "steps": [["const", 0]], "tgt": 0, "src": 1, "via": "add_op"},
            {"kind": "exit", "depth": 0, "blocks": [{"variants": [["B"]], "others": [], "branch": 0, "via": "branch_exit"},
                                                    {"variants": [["Q"]], "others": [], "branch": 0, "via": "branch"}]},
            {"kind": "fnout", "declared": ["B"], "given": ["Q"], "how": "define", "depth": 0},
            {"kind": "call", "target": "defn", "np": 1, "inst": False, "nt": None, "depth": 0, "via": "call"},
            {"kind": "call", "target": "decl", "np": 2, "inst": True, "nt": 1, "depth": 1, "via": "load_function"},
            {"kind": "call", "target": "const", "np": 0, "inst": False, "nt": None, "depth": 0, "via": "call"},
            {"kind": "plainadd", "builder": "case", "depth": 0, "args": [[0, 0], 0], "nout": 1, "via": "add"},
            {"kind": "serialise", "root": "dfg", "depth": 1, "parts": [{"what": "cfg", "finish": False}]},
            {"kind": "ifelse", "depth": 1, "ops": [["add_else"], ["add_else"]]},
            # seeded round 2 (C13-c): the wire's source is the root node itself (no parent, so no sibling):
            # root Dfg with established outputs -> direct child / nested Dfg; unestablished root; root Cfg
            # with established exit type -> one of its blocks / a Dfg nested in a block; Module root
            {"kind": "wire", "root": "dfg", "steps": [["close", 0]], "tgt": 0, "src": 0, "srcsel": "root", "via": "add_op"},
            {"kind": "wire", "root": "dfg", "steps": [["close", 0], ["nested", 0], ["nested", 1]], "tgt": 2, "src": 0, "srcsel": "root", "via": "add_op"},
            {"kind": "wire", "root": "dfg", "steps": [["nested", 0]], "tgt": 1, "src": 0, "srcsel": "root", "via": "set_outputs"},
            {"kind": "wire", "root": "cfg", "steps": [["exitcfg", 0]], "tgt": 1, "src": 0, "srcsel": "root", "via": "add_op"},
            {"kind": "wire", "root": "cfg", "steps": [["exitcfg", 0], ["nested", 1]], "tgt": 2, "src": 0, "srcsel": "root", "via": "add_op"},
            {"kind": "wire", "root": "module", "steps": [["close", 0]], "tgt": 0, "src": 0, "srcsel": "root", "via": "add_op"},
            # a container's own output port as the source: sibling wire (accepted), from a sibling region
            # (refused), a block's control port (ValueError), a nested CFG's output into another CFG's block
            {"kind": "wire", "root": "dfg", "steps": [["nested", 0], ["close", 1]], "tgt": 0, "src": 0, "srcsel": "cont", "via": "add_op"},
            {"kind": "wire", "root": "dfg", "steps": [["nested", 0], ["nested", 1], ["close", 2], ["nested", 0]], "tgt": 3, "src": 0, "srcsel": "cont", "via": "add_op"},
            {"kind": "wire", "root": "cfg", "steps": [["close", 0]], "tgt": 1, "src": 0, "srcsel": "cont", "via": "add_op"},
            {"kind": "wire", "root": "dfg", "steps": [["cfg", 0, 0], ["exitcfg", 0], ["cfg", 0, 1]], "tgt": 3, "src": 1, "srcsel": "cont", "via": "add_op"},
            # seeded round 4 (C13-g): builders as context managers - an error raised inside `with` blocks must reach
            # the caller.  Both cases requested inside `with cond:`, the last one's outputs disagree (standalone /
            # nested in a Dfg, also `with dfg: with cond:`); the same with the calls written out; a case requested
            # twice / out of range once all are built; a block that leaves a case unbuilt; the consistent block
            {"kind": "cond", "depth": -1, "variants": [[], []], "others": [],
             "ops": [["with", ["cond"], [["with_case", 0, ["B"]], ["with_case", 1, ["U"]]]]]},
            {"kind": "cond", "depth": 0, "variants": [[], []], "others": ["U"],
             "ops": [["with", ["outer", "cond"], [["with_case", 1, ["B"]], ["with_case", 0, ["U"]]]]]},
            {"kind": "cond", "depth": 1, "variants": [["B"], []], "others": [],
             "ops": [["add_case", 0], ["add_case", 1], ["set_outputs", 0, ["Q"]], ["with", ["cond", ["case", 1]], [["set_outputs", 1, []]]]]},
            {"kind": "cond", "depth": -1, "variants": [[]], "others": [],
             "ops": [["with", ["cond"], [["with_case", 0, []], ["add_case", 0]]]]},
            {"kind": "cond", "depth": -1, "variants": [[], []], "others": [],
             "ops": [["with", ["cond"], [["with_case", 0, []], ["with_case", 1, []], ["add_case", 2]]]]},
            {"kind": "cond", "depth": 0, "variants": [[], []], "others": [],
             "ops": [["with", ["cond"], [["with_case", 0, ["B"]]]]]},
            {"kind": "cond", "depth": 2, "variants": [[], ["Q"], []], "others": ["B"],
             "ops": [["with", ["cond"], [["with_case", 2, ["B"]], ["with_case", 0, ["B"]], ["with_case", 1, ["B"]]]],
                     ["with", ["cond"], []]]},
            {"kind": "ifelse", "depth": 1, "ops": [["with", ["outer", "if"], [["set_outputs", 0, ["Q"]], ["with_else", ["B"]]]]]},
            {"kind": "ifelse", "depth": 0, "ops": [["add_else"], ["with", [["case", 1]], [["add_else"]]]]},
            # a refused call of every other class inside `with` blocks of its enclosing builders: a wire without
            # relation made in a case inside `with cond: with case:` (all cases requested) and in a block inside
            # `with cfg: with block:`; exit mismatch inside `with cfg:`; declared outputs inside `with f:`; ...
            {"kind": "wire", "root": "dfg", "steps": [["cond", 0, 2], ["nested", 0], ["op", 3, 1, False]], "tgt": 2, "src": 4, "via": "add_op", "ctx": 3},
            {"kind": "wire", "root": "dfg", "steps": [["cfg", 0, 1], ["nested", 0], ["op", 3, 1, False]], "tgt": 1, "src": 4, "via": "add_op", "ctx": 3},
            {"kind": "wire", "root": "dfg", "steps": [["nested", 0], ["op", 1, 1, False], ["nested", 0]], "tgt": 2, "src": 2, "via": "add_op", "ctx": 255},
            {"kind": "exit", "depth": 0, "ctx": 1, "blocks": [{"variants": [["B"]], "others": [], "branch": 0, "via": "branch_exit"},
                                                              {"variants": [["Q"]], "others": [], "branch": 0, "via": "branch"}]},
            {"kind": "fnout", "declared": ["B"], "given": ["Q"], "how": "define", "depth": 0, "ctx": 1},
            {"kind": "call", "target": "defn", "np": 1, "inst": False, "nt": None, "depth": 1, "via": "call", "ctx": 3},
            {"kind": "plainadd", "builder": "loop", "depth": 0, "args": [[0, 0], 0], "nout": 1, "via": "add", "ctx": 1},
            {"kind": "tidx", "nin": 2, "track": True, "pre": [], "i": 5, "via": "add", "ctx": 1},
            {"kind": "serialise", "root": "dfg", "depth": 1, "parts": [{"what": "cfg", "finish": False}], "ctx": 3},
            # seeded round 5 (C13-i): declaring a function's outputs is not building them.  define_function(name,
            # ins, outs) used by the finished main, never built (to_json / Package); declare_outputs on a function
            # nested in a Dfg; body partly built; main itself declared and left open; the ordinary use (declared,
            # called, built) serialises.  Then the other ways of leaving something open: no case requested, a case
            # never requested next to an open one, CFG without exit branch, partial operations never wired
            {"kind": "serparts", "root": "module", "depth": 0, "via": "to_json",
             "parts": [{"what": "func", "declared": "define", "finished": False, "body": 0, "called": True, "host": "module"}]},
            {"kind": "serparts", "root": "module", "depth": 0, "via": "pkg_json",
             "parts": [{"what": "func", "declared": "define", "finished": False, "body": 0, "called": False, "host": "module"}]},
            {"kind": "serparts", "root": "module", "depth": 0, "via": "pkg_bytes",
             "parts": [{"what": "func", "declared": "declare_outputs", "finished": False, "body": 0, "called": True, "host": "module"}]},
            {"kind": "serparts", "root": "dfg", "depth": 0, "via": "to_json",
             "parts": [{"what": "func", "declared": "declare_outputs", "finished": False, "body": 0, "called": False, "host": 0}]},
            {"kind": "serparts", "root": "module", "depth": 0, "via": "to_json",
             "parts": [{"what": "func", "declared": "define", "finished": False, "body": 1, "called": False, "host": "module"}]},
            {"kind": "serparts", "root": "module", "depth": 1, "chainfin": [False, True], "via": "pkg_str", "parts": []},
            {"kind": "serparts", "root": "dfg", "depth": 2, "via": "to_json", "ctx": 3,
             "parts": [{"what": "dfg", "finished": True, "host": 0},
                       {"what": "func", "declared": "define", "finished": False, "body": 2, "called": True, "host": 1}]},
            {"kind": "serparts", "root": "module", "depth": 0, "via": "to_json",
             "parts": [{"what": "func", "declared": "define", "finished": True, "body": 1, "called": True, "host": "module"},
                       {"what": "func", "declared": None, "finished": True, "body": 0, "called": True, "host": 0}]},
            {"kind": "serparts", "root": "module", "depth": 0, "via": "to_json",
             "parts": [{"what": "func", "declared": None, "finished": False, "body": 0, "called": False, "host": "module"}]},
            {"kind": "serparts", "root": "dfg", "depth": 0, "via": "pkg_text_bytes", "parts": [{"what": "cond", "cases": ["n", "n"], "host": 0}]},
            {"kind": "serparts", "root": "dfg", "depth": 1, "via": "to_json", "parts": [{"what": "cond", "cases": ["f", "r", "n"], "host": 0}]},
            {"kind": "serparts", "root": "dfg", "depth": 0, "via": "pkg_json", "parts": [{"what": "cfg", "blocks": [True, True], "exit": False, "host": 0}]},
            {"kind": "serparts", "root": "module", "depth": 0, "via": "to_json",
             "parts": [{"what": "loop", "finished": True, "host": 0}, {"what": "op", "op": "maketuple", "wired": False, "host": 1}]},
            {"kind": "serparts", "root": "dfg", "depth": 0, "via": "to_json",
             "parts": [{"what": "op", "op": o, "wired": True, "host": 0} for o in sorted(POPS)]
                      + [{"what": "cond", "cases": ["f", "f"], "host": 0}, {"what": "cfg", "blocks": [True, True], "exit": True, "host": 0}]},
            {"kind": "serparts", "root": "dfg", "depth": 0, "via": "to_json", "parts": [{"what": "op", "op": "callindirect", "wired": False, "host": 0}]},
        ]

    def generate(self, rng, tier, ctx):
        k = 1 if tier == "quick" else 25
        cases = []
        for g, w in GENS:
            for _ in range(40 * w * k):
                cases.append(g(rng))
        return cases

    def observe(self, case, ctx):
        return OBSERVERS[case["kind"]](case, self.T)

    def literal(self, case, o, ctx):
        lit = self.literal0(case, o, ctx)
        n = o.get("nctx", 0)
        return gapp("KIn", gnat(n), lit) if n else lit

    def literal0(self, case, o, ctx):
        k = case["kind"]
        grow = lambda r: glist(gN(x) for x in r)
        if k == "wire":
            return gapp("KWire", gopt(None if o["blk"] is None else gpair(gnat(o["blk"][0]), gnat(o["blk"][1]))),
                        glist(gopt(None if p is None else gnat(p)) for p in o["pt"]),
                        gnat(o["src"]), gnat(o["tgt"]), o["k"], gexc(o["exc"]))
        if k in ("cond", "ifelse"):
            return gapp("KCond", gnat(o["n"]), glist(o["ops_lit"]), glist(gexc(e) for e in o["res"]))
        if k == "exit":
            return gapp("KExit", glist(grow(r) for r in o["rows"]), glist(gexc(e) for e in o["res"]))
        if k == "fnout":
            return gapp("KFnOut", gopt(None if o["declared"] is None else grow(o["declared"])), grow(o["given"]), gexc(o["exc"]))
        if k == "call":
            return gapp("KCall", o["k"], gnat(o["np"]), gbool(o["inst"]), gnat(o["nt"]), gexc(o["exc"]))
        if k == "plainadd":
            return gapp("KPlainAdd", glist(gapp("AI", gZ(a)) if is_int(a) else gapp("AW", gpair(gN(0), gN(a[1] % 2)))
                                          for a in case["args"]), gexc(o["exc"]))
        if k == "tidx":
            return gapp("KTrackedIdx", glist(gopt(None if w is None else gpair(gN(w[0]), gN(w[1]))) for w in o["table"]),
                        gZ(case["i"]), gexc(o["exc"]))
        if k == "serialise":
            return gapp("KSerialise", glist(glist("(Some [])" if f else "None" for f in n) for n in o["nodes"]), gexc(o["exc"]))
        if k == "serparts":
            return gapp("KSerParts", glist(o["parts_lit"]), gexc(o["exc"]))
        raise AssertionError(k)

    def nontrivial(self, case, o):
        k = case["kind"]
        if k == "wire":
            return o["exc"] is not None or o["inter"] or o["blk"] is not None
        if k in ("cond", "ifelse", "exit"):
            res = o["res"][:o.get("session", len(o["res"]))]          # the final probes do not count
            return any(e is not None for e in res) or sum(1 for e in res if e is None) >= 2
        return o["exc"] is not None

    def describe(self, case, obs):
        o = {k: v for k, v in obs.items() if k not in ("ops_lit", "parts_lit")}
        return {"input": case, "observed": o}

    def signature(self, case, o, ctx):
        k = case["kind"]
        if k == "cond" and any(op[0] == "add_case" and op[1] < 0 for op in case["ops"]):
            return "builder-errors:negative-case-index"
        if k == "tidx" and case["i"] < 0:
            return "builder-errors:negative-tracked-index"
        if k == "wire":
            return "builder-errors:wire:" + str(o["exc"])
        return "builder-errors:" + k

    def shrink(self, case):
        k = case["kind"]
        if k == "wire":
            st = case["steps"]
            for i in range(len(st)):
                yield {**case, "steps": st[:i] + st[i + 1:]}
        elif k in ("cond", "ifelse"):
            ops_ = case["ops"]
            for i in range(len(ops_)):
                yield {**case, "ops": ops_[:i] + ops_[i + 1:]}
            for i, o in enumerate(ops_):
                if o[0] != "with":
                    continue
                for j in range(len(o[2])):                       # drop one call of a body
                    yield {**case, "ops": ops_[:i] + [["with", o[1], o[2][:j] + o[2][j + 1:]]] + ops_[i + 1:]}
                for j in range(len(o[1])):                       # drop one context
                    yield {**case, "ops": ops_[:i] + [["with", o[1][:j] + o[1][j + 1:], o[2]]] + ops_[i + 1:]}
            if case["depth"] > 0:
                yield {**case, "depth": case["depth"] - 1}
        elif k == "exit":
            b = case["blocks"]
            for i in range(len(b)):
                yield {**case, "blocks": b[:i] + b[i + 1:]}
        elif k == "serialise":
            p = case["parts"]
            for i in range(len(p)):
                yield {**case, "parts": p[:i] + p[i + 1:]}
            if case["depth"] > 0:
                yield {**case, "depth": case["depth"] - 1}
        elif k == "serparts":
            p = case["parts"]
            for i in range(len(p)):
                yield {**case, "parts": p[:i] + p[i + 1:]}
            if case["depth"] > 0:
                yield {**case, "depth": case["depth"] - 1, "chainfin": (case.get("chainfin") or [])[:case["depth"]] or None}
            if case.get("chainfin") and not all(case["chainfin"]):
                yield {**case, "chainfin": None}
            for i, q in enumerate(p):
                for key, simple in (("host", 0), ("called", False), ("body", 0)):
                    if key in q and q[key] != simple and not (key == "host" and q[key] == "module"):
                        yield {**case, "parts": p[:i] + [{**q, key: simple}] + p[i + 1:]}
            if case["via"] != "to_json":
                yield {**case, "via": "to_json"}
        elif k == "tidx":
            p = case["pre"]
            for i in range(len(p)):
                yield {**case, "pre": p[:i] + p[i + 1:]}
        elif k in ("fnout", "call", "plainadd") and case.get("depth", 0) > 0:
            yield {**case, "depth": case["depth"] - 1}
        m = case.get("ctx", 0)
        for j in range(8):                                       # fewer `with` blocks around the call
            if (m >> j) & 1:
                yield {**case, "ctx": m & ~(1 << j)}

    def neighbours(self, case, rng):
        out = list(self.shrink(case))
        gen = {"wire": gen_wire, "cond": gen_cond, "ifelse": gen_cond, "exit": gen_exit, "fnout": gen_fnout,
               "call": gen_call, "plainadd": gen_plainadd, "tidx": gen_tidx, "serialise": gen_serialise,
               "serparts": gen_serparts}[case["kind"]]
        if case["kind"] == "wire":
            for s in range(0, 256, 3):
                for t in range(0, 16):
                    out.append({**case, "src": s, "tgt": t})
        if case["kind"] in ("cond", "ifelse") and any(o[0] == "with" for o in case["ops"]):
            out.extend(gen_cond_with(rng) for _ in range(600))
        if case.get("ctx"):
            out.extend({**gen(rng), "ctx": case["ctx"]} for _ in range(300))
        out.extend(gen(rng) for _ in range(600))
        return out

    def distribution(self, cases, observations):
        d = {}
        for c, o in zip(cases, observations):
            k = c["kind"]
            e = d.setdefault(k, {"n": 0, "classes": {}})
            e["n"] += 1
            for x in (o["res"] if "res" in o else [o["exc"]]):
                e["classes"][str(x)] = e["classes"].get(str(x), 0) + 1
            if o.get("nctx"):
                ic = d.setdefault("calls inside `with` blocks of enclosing builders (KIn)", {})
                key = "%s:depth%d:%s" % (k, o["nctx"], "refused" if any(x is not None for x in (o["res"] if "res" in o else [o["exc"]])) else "accepted")
                ic[key] = ic.get(key, 0) + 1
            for ck, cx in o.get("blocks", []):
                wb = d.setdefault("`with` statements of conditional sessions (contexts:what reached the caller)", {})
                key = "%s:%s" % (ck, cx)
                wb[key] = wb.get(key, 0) + 1
            for dk, dv in o.get("diag", {}).items():
                df = d.setdefault("diagnostic only, no verdict (model drift): " + dk, {})
                df[str(dv)] = df.get(str(dv), 0) + 1
            if k == "serparts":
                u = e.setdefault("left_unfinished:serialiser:outcome", {})
                key = "%s:%s:%s" % ("+".join(o["unfinished"]) or "nothing", o["via"], o["exc"])
                u[key] = u.get(key, 0) + 1
            if k == "wire":
                dd = e.setdefault("target_depth", {})
                dd[str(o["depth_tgt"])] = dd.get(str(o["depth_tgt"]), 0) + 1
                tk = e.setdefault("target_builder", {})
                tk[o["tkind"]] = tk.get(o["tkind"], 0) + 1
                sk = e.setdefault("source", {})
                sk[o["stag"]] = sk.get(o["stag"], 0) + 1
                if o["stag"] != "plain":
                    ck = e.setdefault("container_or_root_source_classes", {})
                    key = "%s:%s:%s" % (o["stag"], o["k"], o["exc"])
                    ck[key] = ck.get(key, 0) + 1
                if o["exc"] is None:
                    a = e.setdefault("accepted", {"sibling": 0, "inter_graph_with_order_edge": 0, "inter_block": 0})
                    a["inter_graph_with_order_edge" if o["inter"] else
                      "inter_block" if o["blk"] and not o["sib"] else "sibling"] += 1
        return d


PROP = C13()
