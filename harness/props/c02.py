"""C02 — JSON round trip of a HUGR is lossless and a fixed point; C03 — emitted documents conform to
the wire format.  Shared harness (model: coq/model/SerialHugr.v, spec: coq/spec/SerialHugrS.v, proofs:
coq/proofs/SerialHugrP.v, run: coq/run/C02Run.v).  harness/props/c03.py subclasses RT with mon3.

A case is data: a builder program (seed for harness/progs.py, or a named minimal program) followed by a
mutation history on the resulting Hugr through its public API (add_node / add_const / add_link /
add_order_link / delete_node / delete_link / metadata assignment), or a package / an extension.
The observation is the public-API dump (harness/hobs.py) of the HUGR, the document `to_json()` gave,
the dump of `Hugr.load_json` of it and the document that one gives; pydantic's validate(dump)
identity; and the verdict of the published strict JSON schema on the document (jsonschema under
python3-vt, one server process per run).

Mutation histories (second pass; D4-D6 are repaired in the repository): delete_node of any childless node
other than the root (multi-linked ports, order links, unlinked counted ports included), delete_link of any
link (order links included).  Every history is also run on the store model (coq/model/Graph.v through
coq/model/HugrHist.v): kind "hist" = Hugr(root_op) followed by a history (case CHist), kind "hugr" with
mutations = the history applied to the builder program's HUGR, whose store state is rebuilt from the
public queries (case CMut).  corr demands that the model's view after the history is exactly the dump.

Seeded round 2: histories also add a link that exists AGAIN (every kind; order links through the raw add_link on offset
-1), serialize the HUGR in the middle (step "ser"; no call for the store model) and change the operation of an existing
node in place through public attributes (step "edit_op"; such a case is judged as a HUGR, CHugr); a quarter of the builder
programs are built with a serialization attempted after every statement (_Probing).  The dumps take the encoded operation
from the operation object, not through NodeData (function dump below)."""
from __future__ import annotations

import copy
import json
import os
import random
import subprocess

import fw
import hobs
import progs
from fw import gN, glist, gbool

SCHEMA = os.path.join(fw.REPO, "specification", "schema", "hugr_schema_strict_live.json")

# ----------------------------------------------------------------------------- reader's contract


def reader_ports(o: dict):
    """(has order port, value in, static in, value out, static out) of an encoded operation, as
    hugr-core assigns them (ops.rs: value_port_count / static_port / other_port; ops/dataflow.rs,
    ops/controlflow.rs: dataflow_signature of each operation).  Fails closed on an unknown tag."""
    k = o["op"]
    if k == "Input":
        return (True, 0, 0, len(o["types"]), 0)
    if k == "Output":
        return (True, len(o["types"]), 0, 0, 0)
    if k in ("DFG", "CFG", "Extension", "OpaqueOp"):
        return (True, len(o["signature"]["input"]), 0, len(o["signature"]["output"]), 0)
    if k == "Conditional":
        return (True, 1 + len(o["other_inputs"]), 0, len(o["outputs"]), 0)
    if k == "TailLoop":
        return (True, len(o["just_inputs"]) + len(o["rest"]), 0, len(o["just_outputs"]) + len(o["rest"]), 0)
    if k == "Call":
        return (True, len(o["instantiation"]["input"]), 1, len(o["instantiation"]["output"]), 0)
    if k == "CallIndirect":
        return (True, 1 + len(o["signature"]["input"]), 0, len(o["signature"]["output"]), 0)
    if k in ("LoadConstant", "LoadFunction"):
        return (True, 0, 1, 1, 0)
    if k == "Tag":
        if not 0 <= o["tag"] < len(o["variants"]):
            # the tag names no variant: the operation has no signature (hugr-core rejects the document); no port of
            # it is known to the reader, in particular no order port (coq/model/ComposeOps.v reader_ports agrees)
            return (False, 0, 0, 0, 0)
        return (True, len(o["variants"][o["tag"]]), 0, 1, 0)
    if k in ("Const", "FuncDefn", "FuncDecl"):
        return (False, 0, 0, 0, 1)
    if k in ("Module", "AliasDecl", "AliasDefn", "Case", "DataflowBlock", "ExitBlock"):
        return (False, 0, 0, 0, 0)
    raise ValueError("unknown operation tag " + repr(k))


# ----------------------------------------------------------------------------- programs and mutations

MD_VALUES = progs.MD_VALUES
MAX_NODES = 260
MUT_OPS = [["noop", "B"], ["not"], ["divmod"], ["mktup", ["B", "I"]], ["untup", ["B", "B", "Q"]],
           ["tag", 1, ["sum", [["B"], []]]], ["custom", "mut.op", ["B"], ["I", "I"], "a description"],
           ["const", ["true"]], ["const", ["int", 5, 7]], ["const", ["tuple", [["true"], ["false"]]]],
           # required-but-nullable schema fields: CustomConst.v = null, BoundedNatParam.bound = null (also nested)
           ["const", ["extnull"]], ["funcdecl", "poly.nat", "nat"], ["funcdecl", "poly.list", "listnat"]]


# the widened stream of a generated case: 0 = as before, 1 = + parallel links of every kind and serializations in the
# middle of the history, 2 = + operations changed in place
WIDE_OF = (0, 0, 1, 2)


class _Probing(progs._Interp):
    """the interpreter of harness/progs.py, serializing the HUGR under construction after every statement and after every
    completed region (the document, or the IncompleteOp exception, is dropped): builders complete operations in place
    (set_outputs, Conditional / Cfg output propagation), so whatever a serialization remembers must not survive that"""

    @staticmethod
    def _probe(b):
        try:
            b.hugr.to_json()
        except Exception:
            pass

    def stmt(self, b, st):
        super().stmt(b, st)
        self._probe(b)

    def body(self, b, region, set_out):
        super().body(b, region, set_out)
        self._probe(b)


def usable_seed(seed, root=None):
    """the generator of harness/progs.py occasionally emits a program its interpreter cannot run (a
    polymorphic function without a body); such seeds and HUGRs above the sampling bound are re-drawn"""
    try:
        return len(progs.run(progs.gen_program(random.Random(seed), root)).hugr) <= MAX_NODES
    except (TypeError, AssertionError, KeyError, IndexError):
        return False


# containers, so that raw histories build hierarchies of depth > 1
HIST_OPS = MUT_OPS + [["dfg", ["B"], ["B", "I"]], ["dfg", [], []], ["case", ["B"], ["B"]], ["input", ["B", "I"]],
                      ["output", ["B"]], ["module"]]
HIST_ROOTS = [["module"], ["module"], ["dfg", ["B"], ["B"]], ["case", [], ["I"]]]
# (seeded round 2) only in the palette of the widened cases, so that the stream of the others is the one of before:
# operation attributes no builder sets by default (seeded C02-b: the extension delta of a DFG)
WIDE_OPS = [["dfg", ["B"], ["B"], ["verif.ext", "a.b"]], ["dfg", [], ["I"], ["verif.ext"]]]
# (seeded C02-i) extension-requirement LISTS with >= 2 entries everywhere an operation carries a function type: the
# written order and repeated names are part of the encoded operation (ExtensionSet is a list), a loader that takes them
# through a Python set permutes / shortens them.  Which permutation a set yields depends on the hash seed, so every list
# comes in both orders (one of the two differs from the set order under ANY seed) and one list repeats a name (its
# de-duplication shows under any seed); under ./check's PYTHONHASHSEED=0 REQ_LISTS[0], [2], [3], [4], [5] all differ.
REQ_LISTS = [["a.b", "verif.ext"], ["verif.ext", "a.b"], ["prelude", "logic", "prelude"],
             ["prelude", "arithmetic.int", "arithmetic.float", "logic", "collections.list"],
             ["collections.list", "logic", "arithmetic.float", "arithmetic.int", "prelude"],
             ["z.ext", "verif.ext", "verif.ext", "a.b"]]
WIDE_OPS += [["dfg", ["B"], ["B"], REQ_LISTS[0]], ["dfg", ["I"], [], REQ_LISTS[2]],
             ["funcdecl", "reqs.decl", "nat", REQ_LISTS[3]], ["funcdecl", "reqs.twice", "none", REQ_LISTS[2]],
             ["customr", "reqs.op", ["B"], ["B", "I"], REQ_LISTS[4]], ["customr", "reqs.op2", ["Q"], ["Q"], REQ_LISTS[0]],
             ["callind", ["B"], ["B"], REQ_LISTS[5]], ["noopfn", ["B"], [], REQ_LISTS[3]],
             ["inputfn", ["I"], ["B"], REQ_LISTS[0]]]


def mk_mut_op(spec):
    from hugr import ops
    k = spec[0]
    if k == "const" and spec[1][0] == "extnull":
        from hugr import tys, val
        return ops.Const(val.Extension("ConstNothing", tys.Unit, None, ["verif.ext"]))
    if k == "const":
        return ops.Const(progs.mk_val(spec[1]))
    if k == "funcdecl":
        from hugr import tys
        params = {"nat": [tys.TypeTypeParam(tys.TypeBound.Any), tys.BoundedNatParam()], "none": [],
                  "listnat": [tys.ListParam(tys.BoundedNatParam()), tys.TupleParam([tys.BoundedNatParam(), tys.BoundedNatParam(3)])]}[spec[2]]
        if len(spec) > 3:       # (seeded C02-i) the body requires several extensions
            return ops.FuncDecl(spec[1], tys.PolyFuncType(params, tys.FunctionType([tys.Bool], [tys.Bool], list(spec[3]))))
        return ops.FuncDecl(spec[1], tys.PolyFuncType(params, tys.FunctionType([tys.Bool], [tys.Bool])))
    if k in ("customr", "callind", "noopfn", "inputfn") and len(spec) > 3:
        # (seeded C02-i) a function type with a list of requirements: signature of an extension operation / of an
        # indirect call, and as a VALUE type (type argument of Noop, type of an Input port)
        from hugr import tys
        ft = tys.FunctionType([progs.mk_ty(t) for t in spec[-3]], [progs.mk_ty(t) for t in spec[-2]], list(spec[-1]))
        if k == "customr":
            return ops.Custom(spec[1], ft, extension="verif.ext")
        if k == "callind":
            return ops.CallIndirect(ft)
        if k == "noopfn":
            return ops.Noop(ft)
        return ops.Input([ft, tys.Bool])
    if k == "dfg":
        if len(spec) > 3:       # with an extension delta (third constructor argument)
            return ops.DFG([progs.mk_ty(t) for t in spec[1]], [progs.mk_ty(t) for t in spec[2]], list(spec[3]))
        return ops.DFG([progs.mk_ty(t) for t in spec[1]], [progs.mk_ty(t) for t in spec[2]])
    if k == "case":
        return ops.Case([progs.mk_ty(t) for t in spec[1]], [progs.mk_ty(t) for t in spec[2]])
    if k == "input":
        return ops.Input([progs.mk_ty(t) for t in spec[1]])
    if k == "output":
        return ops.Output([progs.mk_ty(t) for t in spec[1]])
    if k == "module":
        return ops.Module()
    return progs.mk_op(spec)


def spec_opcode(spec):
    """the encoded form of the operation a history command adds (computed without a Hugr)"""
    from hugr.hugr.base import NodeData
    from hugr.hugr.node_port import Node
    return opcode(json.loads(NodeData(mk_mut_op(spec), None)._to_serial(Node(0)).model_dump_json()))


def named_program(name):
    """minimal programs for the corpus"""
    from hugr import ops, tys, val
    from hugr.build import Cfg, Dfg, Module
    from hugr.hugr import Hugr
    from hugr.std.int import DivMod, INT_T
    from hugr.std.logic import Not
    if name == "empty_module":
        return Hugr()
    if name == "bool_id":
        d = Dfg(tys.Bool)
        d.set_outputs(*d.inputs())
        return d.hugr
    if name == "two_consts":
        h = Hugr()
        h.add_const(val.TRUE)
        h.add_const(val.FALSE)
        return h
    if name == "nested_after_const":          # indices: 0 DFG, 1 In, 2 Out, 3 Const, 4 DFG, 5 In, 6 Out
        d = Dfg(tys.Bool)
        (b,) = d.inputs()
        d.hugr.add_const(val.TRUE, d.hugr.root)
        with d.add_nested(b) as inner:
            inner.set_outputs(*inner.inputs())
        d.set_outputs(inner)
        return d.hugr
    if name == "order":                        # D11: an order link between two value-connected nodes
        d = Dfg(tys.Bool)
        (b,) = d.inputs()
        n1 = d.add_op(Not, b)
        n2 = d.add_op(Not, b)
        d.add_state_order(n1, n2)
        d.set_outputs(n1, n2)
        return d.hugr
    if name == "divmod_partial":               # D7: order edge out of a node whose last output is unused
        d = Dfg(INT_T, INT_T)
        a, b = d.inputs()
        dm = d.add_op(DivMod, a, b)
        n = d.add_op(ops.Noop(), dm[0])
        d.add_state_order(dm, n)
        d.set_outputs(n)
        return d.hugr
    if name == "loadconst_order":              # D7: LoadConst (static input) with an order edge in and out
        d = Dfg(tys.Bool)
        (b,) = d.inputs()
        n = d.add_op(Not, b)
        l = d.load(val.TRUE)
        d.add_state_order(n, l)
        d.add_state_order(l, d.output_node)
        d.set_outputs(n)
        return d.hugr
    if name == "poly_func":                    # D8: polymorphic FuncDefn
        m = Module()
        f = m.define_function("id", [tys.Variable(0, tys.TypeBound.Any)], [tys.Variable(0, tys.TypeBound.Any)],
                              type_params=[tys.TypeTypeParam(tys.TypeBound.Any)])
        f.set_outputs(*f.inputs())
        return m.hugr
    if name == "poly_nat_unbounded":           # seeded C02-c: BoundedNatParam.bound = null is a required schema field
        m = Module()
        f = m.define_function("idn", [tys.Bool], [tys.Bool],
                              type_params=[tys.TypeTypeParam(tys.TypeBound.Any), tys.BoundedNatParam()])
        f.set_outputs(*f.inputs())
        m.declare_function("ext", tys.PolyFuncType([tys.ListParam(tys.BoundedNatParam())], tys.FunctionType.empty()))
        g = m.define_function("id8", [tys.Bool], [tys.Bool], type_params=[tys.BoundedNatParam(8)])
        g.set_outputs(*g.inputs())
        return m.hugr
    if name == "ext_const_null":               # seeded C02-c: CustomConst.v = null is a required schema field
        h = Hugr()
        h.add_const(val.Extension("ConstNothing", tys.Unit, None, ["my_ext"]))
        h.add_const(val.Extension("ConstSomething", tys.Unit, {"a": None, "b": [None, 0]}, ["my_ext"]))
        return h
    if name == "custom_desc":                  # D10: description of an extension operation
        d = Dfg(tys.Bool)
        (b,) = d.inputs()
        n = d.add_op(ops.Custom("x.op", tys.FunctionType([tys.Bool], [tys.Bool]), description="says what it does",
                                extension="verif.ext"), b)
        d.set_outputs(n)
        return d.hugr
    if name == "func_const":                   # seeded C02-h: 0 Module, 1 FuncDefn f, 2 Input, 3 Output, 4 Const, 5 LoadConst
        m = Module()
        f = m.define_function("f", [tys.Bool])
        (x,) = f.inputs()
        c = f.load(val.Tuple(val.TRUE, val.FALSE))
        f.set_outputs(x, c)
        return m.hugr
    if name == "ser_then_set_outputs":         # a builder completes operations in place AFTER the HUGR was serialized
        def probe(h):
            try:
                h.to_json()
            except Exception:                  # IncompleteOp while under construction
                pass
        d = Dfg(tys.Bool, INT_T)
        b, i = d.inputs()
        with d.add_nested(b, i) as inner:
            x, y = inner.inputs()
            probe(d.hugr)
            inner.set_outputs(x)
        probe(d.hugr)
        d.set_outputs(inner[0])
        d.hugr.to_json()                       # complete: 0 DFG, 1 Input, 2 Output, 3 DFG, 4 Input, 5 Output
        inner.set_outputs(y, x)                # a second set_outputs: Output 5 and DFG 3 get other types in place
        d.set_outputs(inner[1], b)             # ... and Output 2 and the root
        return d.hugr
    if name == "multi_reqs":                   # seeded C02-i: function types requiring SEVERAL extensions, in a written order
        # 0 Module, 1 FuncDecl many, 2 FuncDefn main, 3 Input, 4 Output, 5 Call, 6 LoadFunc, 7 CallIndirect, 8 Custom, 9 DFG ..
        m = Module()
        sig = tys.FunctionType([tys.Bool], [tys.Bool], list(REQ_LISTS[3]))
        decl = m.declare_function("many", tys.PolyFuncType([], sig))
        f = m.define_function("main", [tys.Bool], [tys.Bool])
        (x,) = f.inputs()
        c = f.call(decl, x)                                    # Call.func_sig / instantiation
        lf = f.load_function(decl)                             # LoadFunction; the wire's type is the function type
        ci = f.add_op(ops.CallIndirect(), lf, c)               # signature taken from the wire
        cu = f.add_op(ops.Custom("Rz", tys.FunctionType([tys.Bool], [tys.Bool], list(REQ_LISTS[0])), extension="my.ext"), ci)
        # the delta of a DFG (constructor argument only; a name written twice), built with the public Dfg.new_nested
        inner = Dfg.new_nested(ops.DFG([tys.Bool], None, list(REQ_LISTS[2])), m.hugr, f.parent_node)
        inner.set_outputs(*inner.inputs())
        m.hugr.add_link(cu.out(0), inner.parent_node.inp(0))
        f.set_outputs(inner.parent_node.out(0))
        return m.hugr
    if name == "cfg_delta":                    # D9: block with an extension delta
        c = Cfg(tys.Bool)
        with c.add_entry() as e:
            e.set_single_succ_outputs(*e.inputs())
        e.parent_op.extension_delta = ["verif.ext"] if hasattr(e.parent_op, "extension_delta") else None
        c.branch(e[0], c.exit)
        return c.hugr
    raise ValueError(name)


# ----------------------------------------------------------------------------- the operations a HUGR holds NOW
# (seeded round 2)  The dump of harness/hobs.py encodes a node's operation through NodeData._to_serial, the very call
# Hugr._to_serial makes: anything remembered there (a per-node cache of the encoded operation) is then shared by the
# observation and the document, and the harness's own calls overwrite it.  The encoded form of "the operation on the
# node" is therefore taken from the operation object itself (<Op>._to_serial), and for a node whose operation the
# history changed in place through public attributes it is the encoding of a FRESH object holding the assigned value
# (computed by the harness before the change), so that something remembered inside the operation object is seen too.


def _encode_op(op, idx):
    from hugr._serialization.ops import OpType as SerialOp
    from hugr.hugr.node_port import Node
    return json.loads(SerialOp(root=op._to_serial(Node(idx))).model_dump_json())


def op_direct(h, n):
    """the encoded form of the node's operation (parent field = the node itself, as hobs.op_serial writes it)"""
    try:
        return _encode_op(h[n].op, n.idx)
    except Exception as e:  # IncompleteOp etc.
        return {"error": type(e).__name__}


def expected_ops(h):
    """{node index: encoded operation} for the nodes whose operation a history changed in place (edit_op)"""
    return h.__dict__.setdefault("_verif_expected_ops", {})


def dump(h):
    d = hobs.dump(h, with_ops=False)
    live = {n.idx: n for n in h}
    exp = expected_ops(h)
    for nd in d["nodes"]:
        o = op_direct(h, live[nd["idx"]])
        e = exp.get(nd["idx"])
        if e is not None and "error" not in o and opcode(o) != opcode(e):
            # the operation object does not show the value assigned to its public attribute
            o = {**e, "parent": nd["idx"]}
        nd["op"] = o
    return d


# In-place changes of an operation through its public attributes: (attribute path, kind of value).  An integer in a path
# is a list index chosen among the existing elements: elements are REPLACED, never appended or changed themselves, and
# the path only passes through objects a builder / mk_mut_op makes afresh per operation (shared constants such as
# tys.Bool, val.TRUE, a std extension's type are never written to: their lists are empty or not on a path).
EDITS = {
    "FuncDefn": [(["f_name"], "str"), (["inputs", 0], "ty")],
    "FuncDecl": [(["f_name"], "str"), (["signature", "body", "input", 0], "ty")],
    "Const": [(["val"], "val"), (["val", "vals", 0], "val")],
    # (ops.Custom is a frozen dataclass: only what it refers to can change)
    # (so is tys.FunctionType: only the elements of its rows)
    "Custom": [(["signature", "input", 0], "ty"), (["signature", "output", 0], "ty")],
    "Tag": [(["tag"], "int"), (["sum_ty", "variant_rows", 0, 0], "ty")],
    "Input": [(["types", 0], "ty")],
    "DFG": [(["inputs", 0], "ty")],
    "Case": [(["inputs", 0], "ty")],
    "TailLoop": [(["rest", 0], "ty"), (["just_inputs", 0], "ty")],
    "Conditional": [(["other_inputs", 0], "ty")],
    "DataflowBlock": [(["extension_delta"], "strs"), (["inputs", 0], "ty")],
    "AliasDecl": [(["alias"], "str")],
}
EDIT_VALUES = {
    "str": [["str", "renamed"], ["str", ""], ["str", "ü.name"], ["str", "f"]],
    "val": [["val", ["false"]], ["val", ["true"]], ["val", ["int", 5, 9]], ["val", ["tuple", [["false"], ["int", 3, 1]]]],
            ["val", ["tuple", []]]],
    "ty": [["ty", "I"], ["ty", "B"], ["ty", "U"], ["ty", ["tup", ["B", "I"]]], ["ty", "Q"]],
    "strs": [["strs", ["verif.ext"]], ["strs", []], ["strs", ["a.b", "verif.ext"]]],
}
# exact classes an edit path may pass through below the operation (never a subclass standing for a shared constant)
_EDIT_THROUGH = ("FunctionType", "PolyFuncType", "Sum", "Tuple", "Some", "Left", "Right")


def mk_edit_value(v):
    from hugr import tys
    k = v[0]
    if k == "str":
        return v[1]
    if k == "val":
        return progs.mk_val(v[1])
    if k == "ty":
        return progs.mk_ty(v[1])
    if k == "int":
        return v[1]
    if k == "strs":
        return list(v[1])
    raise ValueError(v)


def _edit_template_ok(op, path, v):
    """the path instantiates a template of EDITS for the operation's class, with a value of the template's kind"""
    for tpath, kind in EDITS.get(type(op).__name__, []):
        if len(tpath) == len(path) and kind == v[0] and \
                all((isinstance(a, int) and isinstance(b, int) and b >= 0) or (a == b and not isinstance(b, int))
                    for a, b in zip(tpath, path)):
            return True
    return False


def _walk(obj, path):
    """-> the objects along the path (obj first; the last entry is the container of the final step), or None"""
    import dataclasses
    chain = [obj]
    for step in path[:-1]:
        cur = chain[-1]
        if isinstance(step, int):
            if not isinstance(cur, list) or step >= len(cur):
                return None
            nxt = cur[step]
        else:
            if not dataclasses.is_dataclass(cur) or step.startswith("_") or not hasattr(cur, step):
                return None
            nxt = getattr(cur, step)
        if not isinstance(nxt, list) and type(nxt).__name__ not in _EDIT_THROUGH:
            return None
        chain.append(nxt)
    last, cur = path[-1], chain[-1]
    if isinstance(last, int):
        if not isinstance(cur, list) or last >= len(cur):
            return None
    elif not dataclasses.is_dataclass(cur) or last.startswith("_") or not hasattr(cur, last):
        return None
    return chain


def _fresh_with(obj, path, value):
    """a new object equal to obj with the value at the path replaced: shallow copies along the path, keeping only the
    dataclass fields (whatever else an object remembers in its __dict__ is not copied)"""
    import dataclasses
    if not path:
        return value
    step = path[0]
    if isinstance(step, int):
        c = list(obj)
        c[step] = _fresh_with(obj[step], path[1:], value)
        return c
    c = copy.copy(obj)
    names = {f.name for f in dataclasses.fields(c)}
    for k in list(getattr(c, "__dict__", {})):
        if k not in names:
            del c.__dict__[k]
    object.__setattr__(c, step, _fresh_with(getattr(obj, step), path[1:], value))      # (the copy may be frozen)
    return c


def edit_in_place(h, n, path, v):
    """h[n].op.<path> = value, through public attributes / list items of the object the node holds.
    -> False if not applicable (no such path on this operation, or the value there is already equal)"""
    import dataclasses
    op = h[n].op
    if not _edit_template_ok(op, path, v):
        return False
    chain = _walk(op, path)
    if chain is None:
        return False
    value = mk_edit_value(v)
    last, cont = path[-1], chain[-1]
    old = cont[last] if isinstance(last, int) else getattr(cont, last)
    if old == value:
        return False
    try:
        expected = _encode_op(_fresh_with(op, path, mk_edit_value(v)), n.idx)
    except Exception:
        return False            # the changed operation has no encoded form: outside the property
    if isinstance(last, int):
        cont[last] = value
    else:
        try:
            setattr(cont, last, value)
        except dataclasses.FrozenInstanceError:
            return False        # not a change the public API allows
    # What a node shows is read off the objects themselves (op_direct).  For the node edited LAST the harness also knows
    # the encoding from the fresh copy; earlier expectations are dropped: a list changed now may be shared with the
    # operation of another node (a builder hands the same row to Input and to its parent), which then changes too.
    exp = expected_ops(h)
    exp.clear()
    exp[n.idx] = expected
    return True


def serialise_now(h, how):
    """an observation in the middle of a history: the HUGR is serialized (and the result dropped)"""
    import warnings
    from hugr.hugr import Hugr
    try:
        if how == "load":
            Hugr.load_json(h.to_json())
        elif how == "pkg":
            from hugr.package import Package
            with warnings.catch_warnings():
                warnings.simplefilter("ignore")
                Package([h]).to_json()
        else:
            h.to_json()
    except Exception:
        pass        # whether THIS state serializes is judged where it is the final state of a case


def port_links(h, port):
    return list(h.linked_ports(port))


def safe_to_delete_node(h, n):
    """inside the guard of the store (C04): a childless node other than the root"""
    return n != h.root and not h.children(n)


SRC_KINDS = ("add_node", "add_link", "add_order", "delete_node", "delete_link")


def apply_mut(h, m):
    """Applies one mutation if it is applicable (its node arguments are live, delete_node inside the guard).
    Returns (None, m) if it was not applied, else (outcome, mutation as applied): outcome "ok" if the call
    returned, the exception class name if it raised.  An insert carries the history of the inserted HUGR; the
    calls of it that were applicable are what the applied form records."""
    from hugr.hugr import Hugr
    live = {n.idx: n for n in h}
    k = m[0]
    call = None
    if k == "add_node":
        _, spec, parent, md, nouts = m
        if parent in live:
            call = lambda: h.add_node(mk_mut_op(spec), live[parent], num_outs=nouts, metadata=copy.deepcopy(md))
    elif k == "add_link":
        _, s, so, d, do = m
        if s in live and d in live:
            call = lambda: h.add_link(live[s].out(so), live[d].inp(do))
    elif k == "add_order":
        _, s, d = m
        if s in live and d in live:
            call = lambda: h.add_order_link(live[s], live[d])
    elif k == "delete_node":
        if m[1] in live and safe_to_delete_node(h, live[m[1]]):
            call = lambda: h.delete_node(live[m[1]])
    elif k == "delete_link":
        _, s, so, d, do = m
        if s in live and d in live:
            call = lambda: h.delete_link(live[s].out(so), live[d].inp(do))
    elif k == "set_md":
        _, n, key, v = m
        if n in live:
            call = lambda: h[live[n]].metadata.__setitem__(key, copy.deepcopy(v))
    elif k == "ser":
        # an observation in the middle of the history (seeded round 2); never counts as a failed call
        call = lambda: serialise_now(h, m[1])
    elif k == "edit_op":
        _, n, path, v = m
        if n in live:
            try:
                done = edit_in_place(h, live[n], path, v)
            except Exception as e:
                return type(e).__name__, m
            return ("ok", m) if done else (None, m)
    elif k == "insert":
        _, rootspec, src, parent = m
        if parent is None or parent in live:      # parent None: insert_hugr's documented default, below the root
            b = Hugr(mk_mut_op(rootspec))
            src_applied, _ = run_muts(b, [x for x in src if x[0] in SRC_KINDS])
            m = ["insert", rootspec, src_applied, parent]
            call = (lambda: h.insert_hugr(b)) if parent is None else (lambda: h.insert_hugr(b, live[parent]))
    else:
        raise ValueError(m)
    if call is None:
        return None, m
    try:
        call()
    except Exception as e:
        return type(e).__name__, m
    if k == "delete_node":
        expected_ops(h).pop(m[1], None)
    return "ok", m


def run_muts(h, muts):
    """-> (applied mutations, outcome of each)"""
    applied, rets = [], []
    for m in muts:
        r, m2 = apply_mut(h, m)
        if r is not None:
            applied.append(m2)
            rets.append(r)
    return applied, rets


def port_counts(h, n):
    """reader's-contract port counts of a live node (None when its op cannot be encoded)"""
    o = op_direct(h, n)
    if "error" in o:
        return None
    return reader_ports(o)


def gen_wide(rng, h, nodes, pcs_of, wide, off_port):
    """(seeded round 2) one step of the widened stream: a link of ANY kind a second (third ...) time between the same
    pair of ports -- order links included, which only the raw add_link on offset -1 can double, add_order_link skips an
    existing one --, a serialization in the middle of the history, or (wide >= 2) a change of an existing node's
    operation in place through its public attributes"""
    r = rng.random()
    if r < (0.4 if wide < 2 else 0.3):
        ls = list(h.links())
        orders = [l for l in ls if l[0].offset == -1 and l[1].offset == -1]
        if ls and rng.random() < 0.8:
            s_, t_ = rng.choice(orders if orders and rng.random() < 0.5 else ls)
            return ["add_link", s_.node.idx, s_.offset, t_.node.idx, t_.offset]
        pcs = pcs_of(nodes)
        ok = [x for x in nodes if (pcs[x] and pcs[x][0]) or off_port]
        if len(ok) >= 2:
            x, y = rng.sample(ok, 2)
            return ["add_link", x.idx, -1, y.idx, -1]       # an order link through the raw call
        return None
    if r < 0.55 or wide < 2:
        return ["ser", rng.choice(["json", "json", "load", "pkg"])]
    cands = [x for x in nodes if type(h[x].op).__name__ in EDITS]
    rng.shuffle(cands)
    for x in cands[:4]:
        tpath, kind = rng.choice(EDITS[type(h[x].op).__name__])
        # list indices: an existing element of the list the path reaches
        path, cur, ok = [], h[x].op, True
        for step in tpath:
            if isinstance(step, int):
                if not isinstance(cur, list) or not cur:
                    ok = False
                    break
                step = rng.randrange(len(cur))
                cur = cur[step]
            else:
                if not hasattr(cur, step):
                    ok = False
                    break
                cur = getattr(cur, step)
            path.append(step)
        if not ok:
            continue
        if kind == "int":
            # another variant with as many fields (the input ports the links of the node use stay)
            rows = h[x].op.sum_ty.variant_rows
            same = [i for i, row in enumerate(rows) if i != cur and 0 <= cur < len(rows) and len(row) == len(rows[cur])]
            if not same:
                continue
            v = ["int", rng.choice(same)]
        else:
            v = rng.choice(EDIT_VALUES[kind])
        return ["edit_op", x.idx, path, v]
    return ["ser", "json"]


def gen_muts(rng, h, n, off_port=False, reuse=False, palette=None, inserts=False, src_only=False, wide=0):
    """Generates (and applies to h) up to n mutations; -> (mutations applied, outcome of each).  Links are added on
    ports the operations have (unless off_port) so that the premise of C03's addressing clause holds.  Unless
    `reuse`, no node is added once a node has been deleted (histories without index reuse).  delete_node picks any
    childless non-root node, delete_link any link (order links included); add_link prefers ports that already
    carry a link, so that multi-linked ports are common."""
    palette = palette or MUT_OPS
    muts, rets = [], []
    deleted = False
    pc_cache = {}

    def pcs_of(nodes):
        out = {}
        for x in nodes:
            key = (x.idx, id(h[x].op))
            if key not in pc_cache:
                pc_cache[key] = port_counts(h, x)
            out[x] = pc_cache[key]
        return out

    for _ in range(n):
        nodes = list(h)
        if wide and rng.random() < 0.35:         # (no draw when wide = 0: the stream of the other cases is unchanged)
            m = gen_wide(rng, h, nodes, pcs_of, wide, off_port)
            if src_only and m is not None and m[0] != "add_link":
                m = None                         # the HUGR given to insert_hugr: parallel links only
            if m is not None:
                res, m = apply_mut(h, m)
                if res is not None:
                    muts.append(m)
                    rets.append(res)
                    if m[0] == "edit_op":
                        pc_cache.clear()         # the port counts of the node (and of a node sharing the row) changed
            continue
        r = rng.random()
        m = None
        if inserts and r < 0.06:
            if deleted and not reuse:
                continue
            # insert_hugr of a HUGR built by its own raw history (without index reuse, links on existing ports)
            from hugr.hugr import Hugr
            rootspec = rng.choice(HIST_ROOTS[2:] + [["dfg", [], []]])
            src, _ = gen_muts(rng, Hugr(mk_mut_op(rootspec)), rng.randint(1, 8), palette=palette, src_only=True,
                              wide=1 if wide else 0)
            containers = [x for x in nodes if h.children(x) or x == h.root]
            m = ["insert", rootspec, src, rng.choice(containers if containers and rng.random() < 0.7 else nodes).idx]
            if m[3] == h.root.idx and len(src) % 2 == 0:
                m[3] = None             # the same insertion through insert_hugr's default parent (no extra random draw)
        elif r < 0.3:
            if deleted and not reuse:
                continue
            containers = [x for x in nodes if h.children(x) or x == h.root]
            parent = rng.choice(containers if containers and rng.random() < 0.7 else nodes)
            spec = rng.choice(palette)
            md = {rng.choice(["k", "name", "ü", ""]): rng.choice(MD_VALUES)} if rng.random() < 0.4 else None
            m = ["add_node", spec, parent.idx, md, rng.choice([None, None, 0, 1, 3])]
        elif r < 0.5:
            cands = [x for x in nodes if safe_to_delete_node(h, x)]
            if cands:
                # prefer nodes that carry links (fan-outs, order links)
                linked = {p.node.idx for st in h.links() for p in st}
                hot = [x for x in cands if x.idx in linked]
                m = ["delete_node", rng.choice(hot if hot and rng.random() < 0.7 else cands).idx]
        elif r < 0.7:
            pcs = pcs_of(nodes)
            srcs = [(x, k) for x in nodes if pcs[x] for k in range(pcs[x][3] + pcs[x][4])]
            dsts = [(x, k) for x in nodes if pcs[x] for k in range(pcs[x][1] + pcs[x][2])]
            if off_port and rng.random() < 0.5:
                x, y = rng.choice(nodes), rng.choice(nodes)
                m = ["add_link", x.idx, rng.randint(0, 4), y.idx, rng.randint(0, 4)]
            elif srcs and dsts:
                (x, a), (y, b) = rng.choice(srcs), rng.choice(dsts)
                ls = [(s_, t_) for s_, t_ in h.links() if s_.offset >= 0]
                if ls and rng.random() < 0.5:
                    s_, t_ = rng.choice(ls)
                    if rng.random() < 0.5 and (s_.node, s_.offset) in srcs:
                        x, a = s_.node, s_.offset           # one more link out of a linked port
                    elif (t_.node, t_.offset) in dsts:
                        y, b = t_.node, t_.offset           # one more link into a linked port
                m = ["add_link", x.idx, a, y.idx, b]
        elif r < 0.8:
            pcs = pcs_of(nodes)
            ok = [x for x in nodes if (pcs[x] and pcs[x][0]) or off_port]
            if len(ok) >= 2:
                x, y = rng.sample(ok, 2)
                m = ["add_order", x.idx, y.idx]
        elif r < 0.9:
            ls = list(h.links())
            if ls:
                s_, t_ = rng.choice(ls)
                m = ["delete_link", s_.node.idx, s_.offset, t_.node.idx, t_.offset]
        elif not src_only:
            x = rng.choice(nodes)
            m = ["set_md", x.idx, rng.choice(["k", "x y", "ß"]), rng.choice(MD_VALUES)]
        if m is not None:
            res, m = apply_mut(h, m)
            if res is not None:
                muts.append(m)
                rets.append(res)
                deleted = deleted or m[0] == "delete_node"
    return muts, rets


def consistent(h):
    """the public queries agree with each other (screens out the effects of D4-D6)"""
    live = {n.idx for n in h}
    seen = {}
    for s, t in h.links():
        if s.node.idx not in live or t.node.idx not in live:
            return "link endpoint on a deleted node"
        seen.setdefault(("o", s.node.idx, s.offset), []).append((t.node.idx, t.offset))
        seen.setdefault(("i", t.node.idx, t.offset), []).append((s.node.idx, s.offset))
    for (d, n, k), peers in seen.items():
        from hugr.hugr.node_port import Node
        node = next(x for x in h if x.idx == n)
        port = node.out(k) if d == "o" else node.inp(k)
        got = sorted((p.node.idx, p.offset) for p in h.linked_ports(port))
        if got != sorted(peers):
            return "linked_ports disagrees with links()"
    for n in h:
        p = h[n].parent
        if p is not None and p.idx not in live:
            return "parent is a deleted node"
        for c in h.children(n):
            if c.idx not in live:
                return "child is a deleted node"
    return None


def store_snapshot(h):
    """The store state of a HUGR as its public queries show it: the dump plus, for every link in links() order,
    the sub-offsets of its two ports (its position in linked_ports of either end).  None when the HUGR has
    deleted nodes (the free stack is not observable), an incomplete operation, or two links between the same
    pair of ports (their sub-offsets cannot be told apart)."""
    d = dump(h)
    idxs = [n["idx"] for n in d["nodes"]]
    if idxs != list(range(len(idxs))) or any("error" in n["op"] for n in d["nodes"]):
        return None
    seen, fwd, lo, li = set(), [], {}, {}
    for s_, t_ in h.links():
        a, b = (s_.node.idx, s_.offset), (t_.node.idx, t_.offset)
        if (a, b) in seen:
            return None
        seen.add((a, b))
        if a not in lo:
            lo[a] = [(p.node.idx, p.offset) for p in h.linked_ports(s_)]
        if b not in li:
            li[b] = [(p.node.idx, p.offset) for p in h.linked_ports(t_)]
        if b not in lo[a] or a not in li[b]:
            return None
        fwd.append([a[0], a[1], lo[a].index(b), b[0], b[1], li[b].index(a)])
    return {"dump": d, "fwd": fwd}


def port_view(h, f=None):
    """{(direction, node, offset): sorted linked ports} over every counted port, the order ports and every port
    links() mentions; node indices mapped through f"""
    f = f or (lambda i: i)
    ports = set()
    for n in h:
        for k in range(-1, h.num_out_ports(n)):
            ports.add(("o", n.idx, k))
        for k in range(-1, h.num_in_ports(n)):
            ports.add(("i", n.idx, k))
    for s_, t_ in h.links():
        ports.add(("o", s_.node.idx, s_.offset))
        ports.add(("i", t_.node.idx, t_.offset))
    live = {n.idx: n for n in h}
    out = {}
    for d, i, k in ports:
        if i not in live:
            out[(d, i, k)] = "dead"
            continue
        port = live[i].out(k) if d == "o" else live[i].inp(k)
        peers = sorted((f(p.node.idx), p.offset) for p in h.linked_ports(port))
        if peers:
            out[(d, f(i), k)] = peers
    return out


# ----------------------------------------------------------------------------- schema validation


class SchemaServer:
    def __init__(self, work, plain=False):
        self.work = work
        cmd = ["python3-vt", os.path.join(fw.VERIF, "harness", "c03_schema_server.py"), SCHEMA] + (["--plain"] if plain else [])
        self.p = subprocess.Popen(cmd, stdin=subprocess.PIPE, stdout=subprocess.PIPE, text=True,
                                  env={k: v for k, v in os.environ.items() if k not in ("PYTHONPATH",)})
        first = self.p.stdout.readline().strip()
        if first != "READY":
            raise RuntimeError("schema server did not start: " + first)
        self.n = 0
        self.samples = None if plain else []

    def check(self, defname, text):
        ans = self._check(defname, text)
        # keep a sample of (definition, text, verdict) for the thorough tier's cross-check with the plain validator
        if self.samples is not None and len(text) < 150000 and (self.n % 7 == 1 or ans != "OK") and len(self.samples) < 30:
            self.samples.append((defname, text, ans))
        return ans

    def _check(self, defname, text):
        self.n += 1
        path = os.path.join(self.work, "doc_%d_%d.json" % (os.getpid(), self.n % 8))
        with open(path, "w") as f:
            f.write(text)
        self.p.stdin.write("%s\t%s\n" % (defname, path))
        self.p.stdin.flush()
        ans = self.p.stdout.readline().strip()
        if not ans:
            raise RuntimeError("schema server died")
        return ans

    def close(self):
        try:
            self.p.stdin.close()
            self.p.wait(timeout=10)
        except Exception:
            self.p.kill()


def schema_server(ctx, plain=False):
    key = "schema_server_plain" if plain else "schema_server"
    s = ctx.__dict__.get(key)
    if s is None or s.p.poll() is not None:
        s = SchemaServer(ctx.work, plain)
        ctx.__dict__[key] = s
    return s


# ----------------------------------------------------------------------------- observation


def std_extensions():
    import hugr.std.collections.array as arr
    import hugr.std.collections.list as lst
    import hugr.std.float as fl
    import hugr.std.int as it
    import hugr.std.logic as lg
    import hugr.std.prelude as pr
    from hugr.ext import Extension
    out = {}
    for mod in (pr, lg, it, fl, arr, lst):
        for name in dir(mod):
            v = getattr(mod, name)
            if isinstance(v, Extension):
                out[v.name] = v
    return out


def custom_extension(h=None):
    """an extension with type definitions, a polymorphic-free operation with misc data and, when h is given,
    a lowering of that operation to the HUGR h (ext.FixedHugr)"""
    from hugr import ext, tys
    import semver
    e = ext.Extension("verif.ext", semver.Version(0, 1, 2), runtime_reqs={"prelude", "logic"})
    e.add_type_def(ext.TypeDef("lin", "a linear type", [], ext.ExplicitBound(tys.TypeBound.Any)))
    e.add_type_def(ext.TypeDef("cop", "a copyable type ü", [tys.BoundedNatParam(5)], ext.FromParamsBound([0])))
    od = ext.OpDef("mut.op", ext.OpDefSig(tys.FunctionType([tys.Bool], [tys.Bool, tys.Bool])), "an op", {"m": [1, None]})
    if h is not None:
        od.lower_funcs.append(ext.FixedHugr({"prelude"}, h))
    e.add_op_def(od)
    e.add_op_def(ext.OpDef("bin.op", ext.OpDefSig(None, binary=True)))
    return e


def lowerings_ok(ext_doc, h, ctx):
    """every lowering HUGR inside an extension document is the wire-format document of h (schema-valid)"""
    own = doc_canon(doc_view(json.loads(h.to_json())))
    n = 0
    for od in ext_doc.get("operations", {}).values():
        for lf in od.get("lower_funcs", []):
            n += 1
            d = lf.get("hugr")
            if not isinstance(d, dict) or "nodes" not in d or "edges" not in d:
                return False
            if schema_server(ctx).check("SerialHugr", json.dumps(d)) != "OK":
                return False
            if doc_canon(doc_view(d)) != own or d.get("version") != "live":
                return False
            if d.get("encoder") is not None:
                drift(ctx, "nested_documents_with_encoder_string")
    return n == 1


def opcode(o: dict):
    o = {k: v for k, v in o.items() if k != "parent"}
    return json.dumps(o, sort_keys=True)


def doc_view(doc):
    """a document as plain data: nodes [(op json without parent, parent)], edges, metadata"""
    return {"nodes": [[opcode(n), n["parent"]] for n in doc["nodes"]],
            "edges": doc["edges"], "metadata": doc.get("metadata")}


def doc_canon(v):
    """a document view up to what neither C02 nor C03 fixes: the order of the `edges` array, and the writing of the
    metadata table (a missing table, a table of nulls, null and {} entries all read as {}); None stays None"""
    if v is None:
        return None
    md = v.get("metadata")
    md = [m or None for m in md] if md else []
    if not any(md):
        md = None
    return {"nodes": v["nodes"], "edges": sorted(v["edges"], key=json.dumps), "metadata": md}


def listing_order(a, doc):
    """The order in which the document `doc` (doc_view) lists the live nodes of the dumped HUGR `a`: document position k
    holds node L[k].  For C03 this order is the writer's choice (C02 licenses only increasing index order); it is FOUND
    here and CHECKED in Coq (run/C02Run.v nodes_listed_in_b, run/C03Run.v M_to_serial_in): a wrong answer can only make
    the check fail.  Candidates: increasing index; then the matching along the hierarchy -- the root at the position
    that names itself as parent, the children of a matched node against the document nodes naming its position as
    parent, in order (by encoded operation when the two orders disagree).  The first candidate under which every
    document node carries the operation and the parent position of its node wins; else increasing index."""
    nodes = {n["idx"]: n for n in a["nodes"]}
    index_order = [n["idx"] for n in a["nodes"]]
    dn = doc["nodes"]

    def fits(L):
        if len(L) != len(dn) or sorted(L) != sorted(nodes):
            return False
        pos = {i: k for k, i in enumerate(L)}
        for k, i in enumerate(L):
            n = nodes[i]
            par = i if n["parent"] is None else n["parent"]
            if par not in pos or dn[k] != [opcode(n["op"]), pos[par]]:
                return False
        return True

    if fits(index_order):
        return index_order
    if len(dn) == len(nodes) and a["root"] in nodes:
        kids = {}
        roots = []
        for k, (_, p) in enumerate(dn):
            if p == k:
                roots.append(k)
            else:
                kids.setdefault(p, []).append(k)
        if len(roots) == 1:
            L = {roots[0]: a["root"]}
            queue = [(roots[0], a["root"])]
            ok = True
            while queue and ok:
                k, i = queue.pop(0)
                dk, hk = kids.get(k, []), list(nodes[i]["children"])
                if len(dk) != len(hk) or any(c not in nodes for c in hk):
                    ok = False
                    break
                if [dn[x][0] for x in dk] != [opcode(nodes[c]["op"]) for c in hk]:
                    # siblings listed in another order than the children list: match them by encoded operation
                    free, pairs = list(dk), []
                    for c in hk:
                        x = next((x for x in free if dn[x][0] == opcode(nodes[c]["op"])), None)
                        if x is None:
                            ok = False
                            break
                        free.remove(x)
                        pairs.append((x, c))
                else:
                    pairs = list(zip(dk, hk))
                for x, c in pairs:
                    L[x] = c
                    queue.append((x, c))
            if ok and len(L) == len(dn):
                cand = [L[k] for k in range(len(dn))]
                if fits(cand):
                    return cand
    return index_order


def drift(ctx, key, n=1):
    """DIAGNOSTICS, never verdicts: how often the implementation's unconstrained choices differ from the ones the
    Gallina model of the code as it stood bakes in (evidence: input_distribution / stats model_drift)"""
    if ctx is None:
        return
    d = ctx.stats.setdefault("model_drift_diagnostics_not_verdicts", {})
    d[key] = d.get(key, 0) + n


def note_drift(ctx, a, doc, order, raw_doc=None):
    drift(ctx, "documents_examined")
    if order != [n["idx"] for n in a["nodes"]]:
        drift(ctx, "documents_listing_nodes_out_of_index_order")
    pos = {i: k for k, i in enumerate(order)}
    try:
        if [(pos[s], pos[d]) for s, _, d, _ in a["links"]] != [(e[0][0], e[1][0]) for e in doc["edges"]]:
            drift(ctx, "documents_with_edges_not_in_links_order")
    except KeyError:
        pass
    if doc.get("metadata") is None:
        drift(ctx, "documents_with_null_metadata_table")
    if raw_doc is not None and not isinstance(raw_doc.get("encoder"), str):
        drift(ctx, "to_json_documents_without_encoder_string")


def note_count_drift(ctx, b):
    """recorded port counts of a LOADED HUGR: the loader of the code as it stood knows only the linked ports"""
    hi = {}
    for s, so, d, do in b["links"]:
        hi[("o", s)] = max(hi.get(("o", s), 0), so + 1)
        hi[("i", d)] = max(hi.get(("i", d), 0), do + 1)
    if any(n["nout"] != hi.get(("o", n["idx"]), 0) or n["nin"] != hi.get(("i", n["idx"]), 0) for n in b["nodes"]):
        drift(ctx, "loaded_hugrs_whose_recorded_port_counts_are_not_highest_linked_port_plus_one")


def observe_hugr(h, ctx, schema=True):
    from hugr.hugr import Hugr
    from hugr._serialization.serial_hugr import SerialHugr
    o = {}
    bad = consistent(h)
    if bad:
        # (first pass: skipped.)  With D4-D6 repaired this is not expected; the case goes on and is judged
        o["inconsistent"] = bad
    o["a"] = dump(h)
    if any("error" in n["op"] for n in o["a"]["nodes"]):
        return {"skip": "incomplete operation"}
    try:
        j = h.to_json()
    except Exception as e:
        o["doc_error"] = type(e).__name__
        return o
    doc = json.loads(j)
    o["doc"] = doc_view(doc)
    o["header"] = [doc.get("version"), doc.get("encoder")]
    try:
        o["ord"] = listing_order(o["a"], o["doc"])
        note_drift(ctx, o["a"], o["doc"], o["ord"], doc)
    except Exception:       # a malformed document: the checks in Coq judge it
        o.pop("ord", None)
    try:
        s = h._to_serial()
        s.to_json()
        s2 = SerialHugr.load_json(json.loads(j))
        # validate(dump(s)) dumps to the same document, "compared as JSON values" (identity of the TEXT is a diagnostic)
        j2 = s2.model_dump_json()
        o["pyd"] = bool(json.loads(j2) == json.loads(j))
        if j2 != j:
            drift(ctx, "pydantic_redump_text_differs_from_to_json_text")
    except Exception as e:
        o["pyd"] = False
        o["pyd_error"] = type(e).__name__
    if schema:
        o["schema"] = schema_server(ctx).check("SerialHugr", j)
    try:
        h2 = Hugr.load_json(j)
    except Exception as e:
        o["load_error"] = type(e).__name__
        return o
    o["b"] = dump(h2)
    try:
        # the links every port shows through linked_ports, before and after (nodes renumbered by rank)
        rank = {n["idx"]: k for k, n in enumerate(o["a"]["nodes"])}
        o["ports_same"] = bool(port_view(h, lambda i: rank.get(i, -1 - i)) == port_view(h2))
    except Exception as e:
        o["ports_same"] = False
        o["ports_error"] = type(e).__name__
    try:
        j2 = h2.to_json()
        doc2 = json.loads(j2)
        o["doc2"] = doc_view(doc2)
        o["json_same"] = bool(doc2 == doc)
        try:
            o["ord2"] = listing_order(o["b"], o["doc2"])
            note_count_drift(ctx, o["b"])
        except Exception:
            o.pop("ord2", None)
    except Exception as e:
        o["doc2_error"] = type(e).__name__
        o["json_same"] = False
    return o


# ----------------------------------------------------------------------------- literals


class Lit:
    def __init__(self, ctx):
        self.ops = ctx.__dict__.setdefault("c02_ops", fw.Interner())
        md = ctx.__dict__.get("c02_md")
        if md is None:
            md = fw.Interner()
            md("{}")                 # 0 = the empty dict
            ctx.__dict__["c02_md"] = md
        self.md = md

    def opinfo(self, code: str):
        ordp, vi, si, vo, so = reader_ports(json.loads(code))
        return "(O %s %s %d %d %d %d)" % (gN(self.ops(code)), gbool(ordp), vi, si, vo, so)

    def mdv(self, m):
        return gN(self.md(json.dumps(m, sort_keys=True)))

    def off(self, k):
        return "AOrder" if k == -1 else "(APort %d)" % k

    def hugr(self, d):
        nodes = {n["idx"]: n for n in d["nodes"]}
        size = max(nodes) + 1 if nodes else 0
        out = []
        for i in range(size):
            n = nodes.get(i)
            if n is None:
                out.append("None")
                continue
            par = "None" if n["parent"] is None else "(Some %d)" % n["parent"]
            out.append("(Some (Nd %s %s %s %s %d %d))" % (self.opinfo(opcode(n["op"])), par,
                       glist(str(c) for c in n["children"]), self.mdv(n["md"]), n["nin"], n["nout"]))
        links = glist("(Lk %d %s %d %s)" % (a, self.off(b), c, self.off(e)) for a, b, c, e in d["links"])
        return "(Hg %s %d %s)" % (glist(out), d["root"], links)

    def sp(self, p):
        return "%d %s" % (p[0], "None" if p[1] is None else "(Some %d)" % p[1])

    def serial(self, v):
        nodes = glist("(Sn %s %d)" % (gN(self.ops(c)), p) for c, p in v["nodes"])
        edges = glist("(Ed %s %s)" % (self.sp(a), self.sp(b)) for a, b in v["edges"])
        if v["metadata"] is None:
            meta = "None"
        else:
            meta = "(Some %s)" % glist("None" if m is None else "(Some %s)" % self.mdv(m) for m in v["metadata"])
        return "(Sr %s %s %s)" % (nodes, edges, meta)

    def spec_opinfo(self, spec):
        key = json.dumps(spec)
        cache = self.__dict__.setdefault("_spec_codes", {})
        if key not in cache:
            cache[key] = spec_opcode(spec)
        return self.opinfo(cache[key])

    @staticmethod
    def _alloc(sh):
        if sh["free"]:
            return sh["free"].pop()
        sh["size"] += 1
        return sh["size"] - 1

    def cmds(self, start, applied, rets, basic=False):
        """The history as commands of coq/run/C02Run.v (basic=True: the calls of an inserted HUGR's own history).
        Metadata assignment passes the whole dictionary after the assignment, so the metadata (and, for insert_hugr,
        the parent) of every node is tracked here from the case data alone: `start` = {idx: [metadata, parent]};
        the index of an added node follows the allocation rule (the last freed index, else the next one), the nodes
        of an inserted HUGR are added in index order, not yet inserted ancestors first.
        -> (commands, outcomes, final tracking state)"""
        sh = {"nodes": {i: [dict(v[0]), v[1]] for i, v in start.items()}, "free": [], "size": (max(start) + 1) if start else 0}
        host_root = next((i for i, v in start.items() if v[1] is None), 0)
        A, L, O, DN, DL = ("BAdd", "BLink", "BOrd", "BDelN", "BDelL") if basic else ("HAdd", "HLink", "HOrd", "HDelN", "HDelL")
        out = []
        for m, r in zip(applied, rets):
            k = m[0]
            if k == "add_node":
                _, spec, parent, mdv, nouts = m
                out.append("(%s %s (Some %d) %s %s)" % (A, self.spec_opinfo(spec), parent,
                           "None" if nouts is None else "(Some %s)" % fw.gZ(nouts), self.mdv(mdv or {})))
                if r == "ok":
                    sh["nodes"][self._alloc(sh)] = [dict(mdv or {}), parent]
            elif k == "add_link":
                out.append("(%s %d %s %d %s)" % (L, m[1], fw.gZ(m[2]), m[3], fw.gZ(m[4])))
            elif k == "add_order":
                out.append("(%s %d %d)" % (O, m[1], m[2]))
            elif k == "delete_node":
                out.append("(%s %d)" % (DN, m[1]))
                if r == "ok":
                    sh["free"].append(m[1])
                    sh["nodes"].pop(m[1], None)
            elif k == "delete_link":
                out.append("(%s %d %s %d %s)" % (DL, m[1], fw.gZ(m[2]), m[3], fw.gZ(m[4])))
            elif k == "ser":
                continue            # a serialization is no call of the store model: it must leave the state alone
            elif k == "set_md":
                _, n, key, v = m
                cur = sh["nodes"].setdefault(n, [{}, None])[0]
                cur[key] = v
                out.append("(HMeta %d %s)" % (n, self.mdv(cur)))
            elif k == "insert":
                _, rootspec, src, parent = m
                bc, _, bsh = self.cmds({0: [{}, None]}, src, ["ok"] * len(src), basic=True)
                out.append("(HIns %s %s %s)" % (self.spec_opinfo(rootspec), bc, "None" if parent is None else "(Some %d)" % parent))
                if parent is None:                  # the default parent is the root of the host
                    parent = host_root
                if r == "ok":
                    mapping = {}
                    for n in sorted(bsh["nodes"]):
                        chain, cur = [], n
                        while cur is not None and cur not in mapping and cur in bsh["nodes"] and len(chain) <= len(bsh["nodes"]):
                            chain.append(cur)
                            cur = bsh["nodes"][cur][1]
                        for c in reversed(chain):
                            bp = bsh["nodes"][c][1]
                            mapping[c] = self._alloc(sh)
                            sh["nodes"][mapping[c]] = [dict(bsh["nodes"][c][0]), parent if bp is None else mapping.get(bp)]
            else:
                raise ValueError(m)
        return glist(out), glist(gbool(r == "ok") for m, r in zip(applied, rets) if m[0] != "ser"), sh

    def store(self, start):
        d = start["dump"]
        nodes = []
        for n in d["nodes"]:
            par = "None" if n["parent"] is None else "(Some %d)" % n["parent"]
            nodes.append("(Some (Gd %s %s %s %s %s %s))" % (self.opinfo(opcode(n["op"])), par, fw.gZ(n["nin"]), fw.gZ(n["nout"]),
                         glist(str(c) for c in n["children"]), self.mdv(n["md"])))
        fwd = glist("(Sl %d %s %d %d %s %d)" % (a, fw.gZ(x), i, b, fw.gZ(y), j) for a, x, i, b, y, j in start["fwd"])
        return "(St %s %s %d)" % (glist(nodes), fwd, d["root"])

    def rt(self, o):
        h = self.hugr(o["a"])
        doc = "(Some d)" if "doc" in o else "None"
        if "b" in o:
            if "doc2" not in o:
                d2 = "None"
            elif o["doc2"] == o["doc"]:
                d2 = "(Some d)"          # the same literal: shared through the let below
            else:
                d2 = "(Some %s)" % self.serial(o["doc2"])
            load = "(Some (%s, %s))" % (self.hugr(o["b"]), d2)
            codes = []
            for n in o["b"]["nodes"]:
                c = opcode(n["op"])
                if c not in codes:
                    codes.append(c)
            dec = glist(self.opinfo(c) for c in codes)
        else:
            load, dec = "None", "[]"
        # (the `encoder` member is optional in the wire format and named by neither property: whether it is a string is
        # a diagnostic, see note_drift; `version` must be the published format's)
        header_ok = o.get("header", [None, None])[0] == "live"
        same = o.get("json_same", False) and header_ok and o.get("ports_same", True) and "inconsistent" not in o
        ord1 = o.get("ord", [n["idx"] for n in o["a"]["nodes"]])
        ord2 = o.get("ord2", [n["idx"] for n in o["b"]["nodes"]] if "b" in o else [])
        body = "(Rt %s %s %s %s %s %s %s %s %s)" % (h, doc, load, dec, gbool(same),
                                                   gbool(o.get("pyd", False)), gbool(o.get("schema", "OK") == "OK"),
                                                   glist(str(i) for i in ord1), glist(str(i) for i in ord2))
        if "doc" in o:
            return "(let d : serialT := %s in %s)" % (self.serial(o["doc"]), body)
        return body


TRIVIAL = "(CExt true true)"

# ----------------------------------------------------------------------------- the property


def classify_guard(a):
    """which premise of the theorems the original HUGR breaks, from its dump"""
    nodes = {n["idx"]: n for n in a["nodes"]}
    out = []
    if any(n["parent"] is not None and n["parent"] > i for i, n in nodes.items()):
        out.append("index-reuse:child-before-parent")
    elif any(n["children"] != sorted(n["children"]) for n in nodes.values()):
        out.append("index-reuse:sibling-order")
    info = {i: reader_ports(n["op"]) for i, n in nodes.items()}

    if any(s not in nodes or d not in nodes for s, so, d, do in a["links"]):
        out.append("link-on-deleted-node")

    def bad_port(i, k, inp):
        if i not in info:
            return False
        ordp, vi, si, vo, so = info[i]
        if not ordp:
            return k == -1
        return k != -1 and k >= ((vi + si) if inp else (vo + so))
    if any(bad_port(s, so, False) or bad_port(d, do, True) for s, so, d, do in a["links"]):
        out.append("link-on-missing-port")
    return out


def history_reuses(muts):
    """an index can only be reused by an add_node that follows a delete_node"""
    deleted = False
    for m in muts:
        if m[0] == "delete_node":
            deleted = True
        elif m[0] in ("add_node", "insert") and deleted:
            return True
        if m[0] == "insert" and history_reuses(m[2]):
            return True
    return False


class RT(fw.Prop):
    id = "C02"
    props_file = "props/C02.v"
    run_file = "run/C02Run.v"
    run_module = "run.C02Run"
    shard = 16
    which = 2
    rule = ("HUGRs built by generated well-formed builder programs (harness/progs.py) followed by a public-API "
            "mutation history, and HUGRs built by a raw public-API history from Hugr(root_op); non-trivial = the HUGR "
            "has non-empty metadata, an order link or a hole in its node table (deleted node), and at least 4 nodes")
    trusted = [
        "harness/props/c02.py: reader_ports (port counts of an encoded operation, transcribed from hugr-core/src/ops.rs "
        "and ops/dataflow.rs, ops/controlflow.rs; fails closed on unknown tags); interning of encoded operations and "
        "metadata by canonical JSON text",
        "pydantic (JSON text <-> serial models) is outside the model; validate(dump(s)) == s is checked per case",
        "harness/props/c02.py: store_snapshot rebuilds the store state of a builder program's HUGR from the public queries "
        "(sub-offsets = positions in linked_ports; free stack empty because the node table has no hole); Lit.cmds tracks "
        "metadata dictionaries and the indices of added / inserted nodes from the case data by the allocation rule",
        "jsonschema 4.26 (python3-vt) decides schema validity; its oneOf is short-cut through the discriminator only "
        "where the mapped branches are verified mutually exclusive (harness/c03_schema_server.py); thorough tier "
        "re-validates a sample with the plain validator",
    ]
    assumptions = [
        "operations round-trip through their encoding (C05): enc (dec (enc o)) = enc o and the port counts of dec (enc o) "
        "equal those of o (Section hypotheses of the theorems)",
        "the history theorems start from Hugr(root_op); for histories applied to a builder program's HUGR the guard is "
        "evaluated per case (builder programs are not modelled call by call)",
    ]

    # -- cases
    def corpus(self, ctx):
        P = lambda name, muts=(), **kw: {"kind": "hugr", "prog": name, "muts": [list(m) for m in muts], **kw}
        return [
            # D1: node metadata must appear in the document (falsy values, non-ASCII, nested)
            P("bool_id", [["set_md", 1, "k", 0], ["set_md", 2, "ü", [1, {"a": None}]], ["set_md", 0, "", ""]]),
            # D2: serialise after delete_node (parents and edge endpoints renumbered)
            P("nested_after_const", [["delete_node", 3]]),
            P("two_consts", [["delete_node", 1], ["set_md", 2, "k", "v"]]),
            # D7: order edge of a node with unconnected trailing ports / static input
            P("divmod_partial"), P("loadconst_order"),
            P("bool_id", [["add_node", ["custom", "mut.op", ["B"], ["I", "I"], "d"], 0, None, None],
                          ["add_link", 1, 0, 3, 0], ["add_order", 3, 2]]),
            # D11: order links survive the reload
            P("order"),
            P("bool_id", [["add_order", 1, 2]]),
            # D8-D10: operation attributes
            P("poly_func"), P("custom_desc"), P("cfg_delta"),
            # required schema fields that legitimately hold null must be written (seeded C02-c: to_json with exclude_none)
            P("poly_nat_unbounded"), P("ext_const_null"),
            {"kind": "hist", "root": ["module"], "muts": [["add_node", ["funcdecl", "poly.list", "listnat"], 0, None, None],
                                                          ["add_node", ["const", ["extnull"]], 0, {"k": None}, None]]},
            # D3 (known): index reuse puts a child before its parent / siblings out of index order
            P("nested_after_const", [["delete_node", 3], ["add_node", ["const", ["true"]], 4, None, None]]),
            P("two_consts", [["delete_node", 1], ["add_node", ["const", ["true"]], 0, None, None]]),
            # a link on a port the operation does not have aliases the order port (known, wire format)
            P("bool_id", [["add_link", 1, 1, 2, 1]]),
            P("two_consts", [["add_order", 1, 2]]),
            P("empty_module"),
            # D4-D6 (fixed b1a854e, 8297215, 8f40e09): deletion inside a fan-out / fan-in, of a node with order links
            # and unlinked counted ports; delete_link of the first of several links of a port
            {"kind": "hist", "root": ["module"], "muts": [
                ["add_node", ["noop", "B"], 0, None, 3], ["add_node", ["noop", "B"], 0, {"k": 1}, None],
                ["add_node", ["noop", "B"], 0, None, None], ["add_link", 1, 0, 2, 0], ["add_link", 1, 0, 3, 0],
                ["add_link", 2, 0, 3, 0], ["add_order", 1, 2], ["add_order", 2, 3], ["delete_node", 2],
                ["add_order", 1, 3], ["set_md", 3, "k", [0]]]},
            {"kind": "hist", "root": ["dfg", ["B"], ["B"]], "muts": [
                ["add_node", ["input", ["B", "I"]], 0, None, None], ["add_node", ["output", ["B"]], 0, None, None],
                ["add_node", ["not"], 0, None, None], ["add_link", 1, 0, 3, 0], ["add_link", 1, 0, 2, 0], ["add_link", 1, 0, 2, 0],
                ["add_link", 3, 0, 2, 0], ["delete_link", 1, 0, 3, 0], ["delete_link", 1, 0, 2, 0]]},
            P("order", [["delete_node", 3], ["delete_link", 1, 0, 4, 0]]),
            P("nested_after_const", [["add_link", 1, 0, 4, 0], ["delete_link", 1, 0, 4, 0], ["delete_node", 3], ["add_order", 1, 4]]),
            # insert_hugr inside a history: the inserted HUGR has a deleted node, a fan-out and an order link
            {"kind": "hist", "root": ["module"], "muts": [
                ["add_node", ["dfg", ["B"], ["B", "I"]], 0, {"k": 0}, None],
                ["insert", ["dfg", ["B"], ["B"]], [["add_node", ["input", ["B", "I"]], 0, None, None],
                                                   ["add_node", ["not"], 0, {"name": "n"}, None], ["add_node", ["not"], 0, None, None],
                                                   ["add_node", ["output", ["B"]], 0, None, None], ["add_link", 1, 0, 2, 0],
                                                   ["add_link", 1, 0, 3, 0], ["add_link", 3, 0, 4, 0], ["add_order", 1, 3],
                                                   ["delete_node", 2]], 1],
                ["add_link", 3, 0, 1, 0], ["set_md", 4, "k", "v"], ["delete_node", 5]]},
            # index reuse in a raw history (known D3)
            {"kind": "hist", "root": ["module"], "muts": [
                ["add_node", ["dfg", [], []], 0, None, None], ["add_node", ["const", ["true"]], 0, None, None],
                ["add_node", ["dfg", [], []], 0, None, None], ["delete_node", 2], ["add_node", ["const", ["true"]], 3, None, None]]},
            # an operation with NO value port in a direction but a recorded port count > 0 (add_node(..., num_outs=2)) and an
            # order link: the order port is addressed at offset 0, the operation's own count -- a count of 0 is not "no count"
            # (hand mutation X02-m2: `_num_dataflow_ports(...) or self.num_ports(...)`)
            {"kind": "hist", "root": ["dfg", [], []], "muts": [
                ["add_node", ["dfg", [], []], 0, None, 2], ["add_node", ["dfg", [], []], 0, None, None], ["add_order", 1, 2]]},
            # a Tag whose tag names no variant has no signature: ops._num_dataflow_ports must answer "no count" for it, not
            # raise IndexError while the library loads its own document (fixed f60e9c0)
            {"kind": "hist", "root": ["dfg", ["B"], ["B"]], "muts": [
                ["add_node", ["input", ["B"]], 0, None, None], ["add_node", ["tag", 5, ["sum", [["B"]]]], 0, {"k": 1}, None],
                ["add_link", 1, 0, 2, 0]]},
            # seeded C02-g: the SAME link several times (a multiset): only the raw add_link on offset -1 doubles an order
            # link (add_order_link skips an existing one); the reload must not go through a call that skips
            P("bool_id", [["add_link", 1, -1, 2, -1], ["add_link", 1, -1, 2, -1]]),
            P("order", [["add_link", 3, -1, 4, -1]]),
            {"kind": "hist", "root": ["dfg", ["B"], ["B"]], "muts": [
                ["add_node", ["input", ["B"]], 0, None, None], ["add_node", ["output", ["B"]], 0, None, None],
                ["add_node", ["not"], 0, None, None], ["add_link", 1, 0, 3, 0], ["add_link", 1, 0, 3, 0],
                ["add_order", 1, 3], ["add_link", 1, -1, 3, -1], ["add_link", 1, -1, 3, -1], ["add_link", 3, 0, 2, 0],
                ["add_link", 3, 0, 2, 0], ["add_link", 3, 0, 2, 0], ["delete_link", 1, -1, 3, -1]]},
            # seeded C02-h: serialize, change an existing operation in place through its public attributes, round trip:
            # the document shows the operations the HUGR holds NOW (renamed function, changed constant - whole value and
            # one element of a tuple -, the root, after a deletion that keeps the parent's index, builder completion)
            P("func_const", [["ser", "json"], ["edit_op", 1, ["f_name"], ["str", "renamed"]],
                             ["edit_op", 4, ["val"], ["val", ["false"]]]]),
            P("func_const", [["ser", "load"], ["edit_op", 4, ["val", "vals", 1], ["val", ["int", 5, 9]]]]),
            P("bool_id", [["ser", "json"], ["edit_op", 0, ["inputs", 0], ["ty", "I"]]]),
            P("custom_desc", [["ser", "pkg"], ["edit_op", 3, ["signature", "input", 0], ["ty", "I"]], ["ser", "json"],
                              ["edit_op", 3, ["signature", "output", 0], ["ty", "U"]]]),
            {"kind": "hist", "root": ["module"], "muts": [
                ["add_node", ["const", ["true"]], 0, None, None], ["add_node", ["funcdecl", "poly.nat", "nat"], 0, {"k": 1}, None],
                ["add_node", ["const", ["tuple", [["true"], ["false"]]]], 0, None, None], ["ser", "json"], ["delete_node", 1],
                ["edit_op", 3, ["val", "vals", 0], ["val", ["false"]]], ["edit_op", 2, ["f_name"], ["str", ""]],
                ["set_md", 3, "k", [0]], ["ser", "json"], ["edit_op", 3, ["val"], ["val", ["int", 5, 9]]]]},
            {"kind": "hist", "root": ["dfg", ["B"], ["B"]], "muts": [
                ["add_node", ["input", ["B"]], 0, None, None], ["add_node", ["tag", 1, ["sum", [["B"], ["B"]]]], 0, None, None],
                ["add_link", 1, 0, 2, 0], ["ser", "json"], ["edit_op", 2, ["tag"], ["int", 0]],
                ["edit_op", 2, ["sum_ty", "variant_rows", 1, 0], ["ty", "I"]], ["edit_op", 1, ["types", 0], ["ty", "U"]]]},
            P("ser_then_set_outputs"),
            # seeded C02-b: the extension delta of a DFG (root and nested) is an attribute of the operation
            {"kind": "hist", "root": ["dfg", ["B"], ["B"], ["verif.ext"]], "muts": [
                ["add_node", ["input", ["B"]], 0, None, None], ["add_node", ["output", ["B"]], 0, None, None],
                ["add_node", ["dfg", ["B"], ["B"], ["verif.ext", "a.b"]], 0, {"k": 0}, None], ["add_link", 1, 0, 3, 0],
                ["add_link", 3, 0, 2, 0]]},
            # seeded C02-i: lists of >= 2 extension requirements (written order, a repeated name) on every function type an
            # operation carries: FuncDecl body, Call / LoadFunction / CallIndirect, Custom signature, DFG delta, and as a
            # value type (Noop's type argument, Input row)
            {"kind": "hist", "root": ["module"], "muts": [["add_node", ["funcdecl", "reqs.twice", "none", REQ_LISTS[2]], 0, None, None]]},
            P("multi_reqs"),
            {"kind": "hist", "root": ["dfg", ["B"], ["B"], REQ_LISTS[4]], "muts": [
                ["add_node", ["inputfn", ["I"], ["B"], REQ_LISTS[0]], 0, None, None], ["add_node", ["output", ["B"]], 0, None, None],
                ["add_node", ["callind", ["B"], ["B"], REQ_LISTS[5]], 0, {"k": 1}, None],
                ["add_node", ["customr", "reqs.op", ["B"], ["B", "I"], REQ_LISTS[1]], 0, None, None],
                ["add_node", ["noopfn", ["B"], [], REQ_LISTS[3]], 0, None, None],
                ["add_node", ["funcdecl", "reqs.decl", "nat", REQ_LISTS[3]], 0, None, None],
                ["add_node", ["dfg", ["I"], [], REQ_LISTS[2]], 0, None, None],
                ["add_link", 1, 0, 3, 0], ["add_link", 1, 1, 3, 1], ["add_link", 3, 0, 4, 0], ["add_link", 4, 0, 2, 0],
                ["add_link", 4, 1, 7, 0], ["add_order", 1, 5], ["delete_node", 5]]},
            {"kind": "pkg", "progs": ["multi_reqs"], "ext": False},
            {"kind": "pkg", "progs": ["poly_func", "two_consts"], "ext": True},
            {"kind": "ext", "which": "custom"},
            # a lowering HUGR inside an extension must be a wire-format document (FixedHugr, fixed c8729f5);
            # with an extension operation inside, serialization used to raise PydanticSerializationError
            {"kind": "ext", "which": "custom_hugr", "prog": "custom_desc"},
            {"kind": "ext", "which": "custom_hugr", "prog": "order"},
        ]

    def generate(self, rng, tier, ctx):
        n = 90 if tier == "quick" else 900
        cases = []
        for i in range(45 if tier == "quick" else 600):
            r = rng.random()
            cases.append({"kind": "hist", "root": rng.choice(HIST_ROOTS), "nmuts": rng.randint(3, 30),
                          "mseed": rng.randrange(1 << 30), "reuse": r > 0.85, "off_port": 0.75 < r <= 0.85})
            cases[-1]["wide"] = WIDE_OF[cases[-1]["mseed"] % 4]
        for i in range(n):
            r = rng.random()
            seed = rng.randrange(1 << 30)
            if r < 0.08:
                seeds = [rng.randrange(1 << 30) for _ in range(rng.randint(0, 3))]
                cases.append({"kind": "pkg", "seeds": [x for x in seeds if usable_seed(x, "module")],
                              "ext": rng.random() < 0.5})
            elif r < 0.12:
                es = rng.randrange(1 << 30)
                while not usable_seed(es):
                    es = rng.randrange(1 << 30)
                cases.append({"kind": "ext", "which": rng.choice(["custom", "custom_hugr", "custom_hugr"] + sorted(std_extensions())),
                              "seed": es})
            else:
                nm = 0 if r < 0.3 else rng.randint(1, 12)
                reuse = r > 0.8          # allow re-adding after deletion (index reuse: the known D3 corner)
                off = 0.72 < r <= 0.8    # edge stream: links on ports the operations do not have
                # sampling bound: HUGRs of at most MAX_NODES nodes (larger programs are re-drawn)
                while not usable_seed(seed):
                    seed = rng.randrange(1 << 30)
                cases.append({"kind": "hugr", "seed": seed, "nmuts": nm, "mseed": rng.randrange(1 << 30),
                              "reuse": reuse, "off_port": off})
                # (seeded round 2; decided by the numbers already drawn, so that the sequence of cases is the one of before)
                cases[-1]["wide"] = WIDE_OF[cases[-1]["mseed"] % 4]
                cases[-1]["probe"] = seed % 4 == 0
        return cases

    def program(self, case):
        """the HUGR before the mutation history"""
        from hugr.hugr import Hugr
        if case["kind"] == "hist":
            return Hugr(mk_mut_op(case["root"]))
        if "prog" in case:
            return named_program(case["prog"])
        kw = {k: case[k] for k in ("size", "max_depth") if k in case}
        prog = progs.gen_program(random.Random(case["seed"]), case.get("root"), **kw)
        if case.get("probe"):
            return _Probing().root(prog).hugr
        return progs.run(prog).hugr

    def mutate(self, h, case):
        """-> (mutations applied, outcome of each)"""
        if "muts" in case:
            return run_muts(h, copy.deepcopy(case["muts"]))
        hist = case["kind"] == "hist"
        return gen_muts(random.Random(case["mseed"]), h, case["nmuts"], off_port=case.get("off_port", False),
                        reuse=case.get("reuse", False),
                        palette=(HIST_OPS if hist else MUT_OPS) + (WIDE_OPS if case.get("wide") else []), inserts=True,
                        wide=case.get("wide", 0))

    def build(self, case):
        """-> (hugr, mutations applied)"""
        h = self.program(case)
        applied, _ = self.mutate(h, case)
        return h, applied

    def observe(self, case, ctx):
        from hugr.package import Package
        self._ctx = ctx
        k = case["kind"]
        if k in ("hugr", "hist"):
            h = self.program(case)
            planned = bool(case.get("muts")) or case.get("nmuts", 0) > 0
            start = store_snapshot(h) if (k == "hugr" and planned) else None
            applied, rets = self.mutate(h, case)
            o = observe_hugr(h, ctx, schema=True)
            o["muts"], o["rets"] = copy.deepcopy(applied), rets
            if start is not None and applied:
                o["start"] = start
            return o
        if k == "pkg":
            hs = [named_program(p) for p in case.get("progs", [])]
            hs += [progs.run(progs.gen_program(random.Random(s), "module")).hugr for s in case.get("seeds", [])]
            exts = [custom_extension(hs[0] if hs else None)] if case.get("ext") else []
            import warnings
            with warnings.catch_warnings():
                warnings.simplefilter("ignore")
                try:
                    j = Package(hs, exts).to_json()
                    jb = Package(hs, exts).to_bytes()
                except Exception as e:
                    return {"pkg_error": type(e).__name__}
            doc = json.loads(j)
            mods = []
            same = isinstance(doc.get("modules"), list) and len(doc["modules"]) == len(hs)
            # (the envelope is C09's subject: C03 only wants the JSON payload, where it can be read, to be this document)
            try:
                payload = json.loads(jb[10:].decode("utf-8"))
            except Exception:
                payload = None
                drift(ctx, "package_to_bytes_payload_not_json_after_10_byte_header")
            if payload is not None:
                same = same and payload == json.loads(j)
                if jb[10:].decode("utf-8") != j:
                    drift(ctx, "package_to_bytes_payload_text_differs_from_to_json_text")
            for h, md in zip(hs, doc.get("modules", [])):
                o = observe_hugr(h, ctx, schema=False)
                if "skip" in o:
                    continue
                o.pop("b", None)
                o.pop("doc2", None)
                own = o.get("doc")
                same = same and doc_canon(own) == doc_canon(doc_view(md)) and md.get("version") == "live"
                if md.get("encoder") is not None:
                    drift(ctx, "nested_documents_with_encoder_string")
                # the typed document of a module is the module's entry in the Package document
                if own is not None and isinstance(md, dict) and "nodes" in md and "edges" in md:
                    o["doc"] = doc_view(md)
                    o["ord"] = listing_order(o["a"], o["doc"])
                mods.append(o)
            if exts and hs:
                same = same and len(doc.get("extensions", [])) == 1 and lowerings_ok(doc["extensions"][0], hs[0], ctx)
            return {"mods": mods, "same": bool(same), "schema": schema_server(ctx).check("Package", j),
                    "n_ext": len(exts)}
        if k == "ext":
            w = case["which"]
            h = None
            if w == "custom":
                e = custom_extension()
            elif w == "custom_hugr":
                h = (progs.run(progs.gen_program(random.Random(case["seed"]))).hugr if "seed" in case
                     else named_program(case.get("prog", "custom_desc")))
                e = custom_extension(h)
            else:
                e = std_extensions()[w]
            try:
                j = e.to_json()
            except Exception as ex:
                return {"ext_error": type(ex).__name__}
            ok = True if h is None else lowerings_ok(json.loads(j), h, ctx)
            return {"schema": schema_server(ctx).check("Extension", j), "ext": w, "lowering_ok": ok}
        raise ValueError(case)

    def literal(self, case, obs, ctx):
        L = Lit(ctx)
        if "skip" in obs:
            ctx.stats.setdefault("skipped_incomplete_operation", 0)
            ctx.stats["skipped_incomplete_operation"] += 1
            return TRIVIAL
        k = case["kind"]
        if k in ("hist", "hugr") and any(m[0] == "edit_op" for m in obs.get("muts", [])):
            # an operation changed in place is no call of the store model (coq/model/HugrHist.v): the final HUGR is judged
            # as a HUGR (round-trip correspondence and monitor), the history is not tied
            ctx.stats["histories_with_in_place_edits_not_tied"] = ctx.stats.get("histories_with_in_place_edits_not_tied", 0) + 1
            return "(CHugr %s)" % L.rt(obs)
        if k == "hist":
            cs, rets, _ = L.cmds({0: [{}, None]}, obs["muts"], obs["rets"])
            ctx.stats["histories_tied_to_the_store_model"] = ctx.stats.get("histories_tied_to_the_store_model", 0) + 1
            noreuse = not history_reuses(obs["muts"])
            if noreuse:
                ctx.stats["raw_histories_without_index_reuse"] = ctx.stats.get("raw_histories_without_index_reuse", 0) + 1
            return "(CHist %s %s %s %s %s)" % (L.spec_opinfo(case["root"]), cs, rets, gbool(noreuse), L.rt(obs))
        if k == "hugr":
            if "start" in obs:
                d0 = obs["start"]["dump"]
                cs, rets, _ = L.cmds({n["idx"]: [n["md"], n["parent"]] for n in d0["nodes"]}, obs["muts"], obs["rets"])
                ctx.stats["histories_tied_to_the_store_model"] = ctx.stats.get("histories_tied_to_the_store_model", 0) + 1
                return "(CMut %s %s %s %s)" % (L.store(obs["start"]), cs, rets, L.rt(obs))
            if obs.get("muts"):
                ctx.stats["histories_not_tied"] = ctx.stats.get("histories_not_tied", 0) + 1
            return "(CHugr %s)" % L.rt(obs)
        if k == "pkg":
            if "pkg_error" in obs:
                return "(CPkg [] false false)"
            return "(CPkg %s %s %s)" % (glist(L.rt(o) for o in obs["mods"]), gbool(obs["same"]), gbool(obs["schema"] == "OK"))
        if "ext_error" in obs:
            return "(CExt false false)"
        return "(CExt %s %s)" % (gbool(obs.get("lowering_ok", True)), gbool(obs["schema"] == "OK"))

    # -- classification
    def nontrivial(self, case, obs):
        a = obs.get("a")
        if not a:
            return case["kind"] not in ("hugr", "hist") and "skip" not in obs
        idxs = [n["idx"] for n in a["nodes"]]
        hole = idxs != list(range(len(idxs)))
        return len(idxs) >= 4 and (hole or any(n["md"] for n in a["nodes"]) or any(l[1] == -1 for l in a["links"]))

    def describe(self, case, obs):
        small = {k: obs.get(k) for k in ("skip", "doc_error", "load_error", "doc2_error", "json_same", "pyd", "schema",
                                         "muts", "rets", "ports_same", "inconsistent", "header", "same", "pkg_error",
                                         "ext_error", "lowering_ok", "ext") if k in obs}
        if "a" in obs:
            small["nodes"] = len(obs["a"]["nodes"])
            small["links"] = len(obs["a"]["links"])
            small["guard_broken"] = classify_guard(obs["a"])
            if len(obs["a"]["nodes"]) <= 12:
                small["hugr"] = [[n["idx"], n["kind"], n["parent"], n["children"], n["md"]] for n in obs["a"]["nodes"]]
                small["hugr_links"] = obs["a"]["links"]
                if "doc" in obs:
                    small["document"] = {"parents": [p for _, p in obs["doc"]["nodes"]], "edges": obs["doc"]["edges"],
                                         "metadata": obs["doc"]["metadata"]}
                if "b" in obs:
                    small["reloaded"] = [[n["idx"], n["kind"], n["parent"], n["children"], n["md"]] for n in obs["b"]["nodes"]]
                    small["reloaded_links"] = obs["b"]["links"]
        return {"input": case, "observed": small}

    def signature(self, case, obs, ctx):
        if case["kind"] not in ("hugr", "hist"):
            if "ext_error" in obs or "pkg_error" in obs:
                return "%s:serialization-raises:%s" % (case["kind"], obs.get("ext_error", obs.get("pkg_error")))
            return "%s:%s" % (case["kind"], "schema" if obs.get("schema", "OK") != "OK" else "document")
        if "a" not in obs:
            return "unclassified"
        raised = [r for r in obs.get("rets", []) if r != "ok"]
        if raised:
            return "history:call-raises:" + raised[0]
        if "doc_error" in obs:
            return "to_json-raises:" + obs["doc_error"]
        if "inconsistent" in obs:
            return "store:queries-inconsistent"
        g = classify_guard(obs["a"])
        if any(x.startswith("index-reuse") for x in g) and not history_reuses(obs.get("muts", [])):
            # the known finding D3 needs an index to be reused: an add_node after a delete_node
            return "index-order-broken-without-index-reuse"
        if self.which == 2:
            if "index-reuse:child-before-parent" in g:
                # expected symptom: the child is listed before its parent, load_json raises KeyError
                return "index-reuse:child-before-parent" if obs.get("load_error") == "KeyError" else \
                    "index-reuse:child-before-parent:unexpected:" + str(obs.get("load_error"))
            if "load_error" in obs:
                return "load_json-raises:" + obs["load_error"]
            if "index-reuse:sibling-order" in g:
                # expected symptom: only the order of children differs
                ok = obs.get("json_same") and obs.get("pyd") and self._same_but_child_order(obs)
                return "index-reuse:sibling-order" if ok else "index-reuse:sibling-order:unexpected"
            if "link-on-missing-port" in g:
                # expected symptom: only the offsets of those links change (they alias the order port)
                ok = obs.get("json_same") and obs.get("pyd") and self._same_but_aliased_ports(obs)
                return "link-on-missing-port" if ok else "link-on-missing-port:unexpected"
            if not obs.get("json_same"):
                return "roundtrip:document-differs"
            if not obs.get("pyd"):
                return "roundtrip:pydantic-validate-dump"
            if not obs.get("ports_same", True):
                return "roundtrip:linked-ports-differ"
            return "roundtrip:structure-differs" if case["kind"] == "hugr" else "roundtrip:structure-differs-or-history-guard-lost"
        # C03
        if obs.get("schema", "OK") != "OK":
            return "schema:" + obs["schema"][:80]
        if "index-reuse:child-before-parent" in g:
            return "index-reuse:child-before-parent"
        if "link-on-missing-port" in g:
            return "link-on-missing-port"
        return "wire-format:index-or-port-addressing"

    @staticmethod
    def _same_but_aliased_ports(obs):
        a, b = obs["a"], obs.get("b")
        if not b:
            return False
        ia = [n["idx"] for n in a["nodes"]]
        f = {i: k for k, i in enumerate(ia)}
        ra = hobs.rename(a, f)
        if len(ra["nodes"]) != len(b["nodes"]):
            return False
        for x, y in zip(ra["nodes"], b["nodes"]):
            if opcode(x["op"]) != opcode(y["op"]) or x["parent"] != y["parent"] or x["md"] != y["md"] or x["children"] != y["children"]:
                return False
        info = {n["idx"]: (reader_ports(n["op"]), n["nin"], n["nout"]) for n in ra["nodes"]}

        def alias(i, k, inp):
            (ordp, vi, si, vo, so), nin, nout = info[i]
            c = (vi + si) if inp else (vo + so)
            if ordp:
                return -1 if k == c else k
            return (nin if inp else nout) if k == -1 else k
        exp = [[s, alias(s, so, False), d, alias(d, do, True)] for s, so, d, do in ra["links"]]
        return hobs.canon_links(exp) == hobs.canon_links(b["links"])

    @staticmethod
    def _same_but_child_order(obs):
        a, b = obs["a"], obs.get("b")
        if not b:
            return False
        ia = [n["idx"] for n in a["nodes"]]
        f = {i: k for k, i in enumerate(ia)}
        ra = hobs.rename(a, f)
        for x, y in zip(ra["nodes"], b["nodes"]):
            if opcode(x["op"]) != opcode(y["op"]) or x["parent"] != y["parent"] or x["md"] != y["md"]:
                return False
            if sorted(x["children"]) != sorted(y["children"]):
                return False
        return len(ra["nodes"]) == len(b["nodes"]) and hobs.canon_links(ra["links"]) == hobs.canon_links(b["links"])

    # -- shrinking / search
    def _explicit(self, case):
        """the case with its mutation list written out"""
        if case["kind"] not in ("hugr", "hist") or "muts" in case:
            return case
        _, applied = self.build(case)
        c = {k: v for k, v in case.items() if k not in ("nmuts", "mseed", "reuse", "off_port", "wide")}
        c["muts"] = applied
        return c

    def shrink(self, case):
        """smaller variants that fail in the same way: a candidate whose failure has another signature (dropping a
        mutation renumbers the nodes added later, which can turn the case into one of the known findings) is not
        offered to the driver"""
        ctx = getattr(self, "_ctx", None)
        if ctx is None or case["kind"] not in ("hugr", "hist"):
            yield from self._shrink_raw(case)
            return
        try:
            sig0 = self.signature(case, self.observe(case, ctx), ctx)
        except Exception:
            yield from self._shrink_raw(case)
            return
        for c in self._shrink_raw(case):
            try:
                if self.signature(c, self.observe(c, ctx), ctx) == sig0:
                    yield c
            except Exception:
                continue

    def _shrink_raw(self, case):
        if case["kind"] == "pkg":
            for key in ("seeds", "progs"):
                xs = case.get(key, [])
                for i in range(len(xs)):
                    yield {**case, key: xs[:i] + xs[i + 1:]}
            if case.get("ext"):
                yield {**case, "ext": False}
            return
        if case["kind"] not in ("hugr", "hist"):
            return
        c = self._explicit(case)
        ms = c["muts"]
        for i in range(len(ms)):
            yield {**c, "muts": ms[:i] + ms[i + 1:]}
        for i, m in enumerate(ms):
            if m[0] == "insert":                    # shorten the history of an inserted HUGR
                for j in range(len(m[2])):
                    yield {**c, "muts": ms[:i] + [["insert", m[1], m[2][:j] + m[2][j + 1:], m[3]]] + ms[i + 1:]}
        if "seed" in c:
            size, depth = c.get("size", 6), c.get("max_depth", 3)
            for s, d in ((size // 2, depth), (size - 1, depth), (size, depth - 1)):
                if 0 <= s < size or (0 <= d < depth and s == size):
                    if s >= 0 and d >= 0:
                        yield {**c, "size": s, "max_depth": d}

    def neighbours(self, case, rng):
        if case["kind"] == "hist":
            for k in range(60):
                yield {"kind": "hist", "root": case["root"], "nmuts": rng.randint(2, 25), "mseed": rng.randrange(1 << 30),
                       "reuse": False, "off_port": False, "wide": case.get("wide", 0)}
            return
        if case["kind"] != "hugr":
            return
        for k in range(40):
            if "seed" in case:
                yield {"kind": "hugr", "seed": case["seed"], "nmuts": rng.randint(0, 10), "mseed": rng.randrange(1 << 30),
                       "reuse": False, "off_port": False, "wide": case.get("wide", 0), "probe": case.get("probe", False)}
            else:
                c = self._explicit(case)
                yield {**c, "muts": c["muts"] + [["set_md", 0, "k", rng.choice(MD_VALUES)]]}

    def undescribe(self, case):
        return case

    def distribution(self, cases, observations):
        d = {"kinds": {}, "nodes": [], "mutations": {}, "with_holes": 0, "with_metadata": 0, "with_order_links": 0,
             "guard_broken": {}, "skipped": 0, "load_errors": {}, "schema_failures": 0, "with_parallel_links": 0,
             "with_parallel_order_links": 0, "serialized_mid_history": 0, "op_changed_in_place_after_serialization": 0,
             "built_with_serialization_after_every_statement": 0, "with_a_requirement_list_of_2_or_more": 0,
             "with_a_requirement_list_a_python_set_would_change": 0}

        def req_lists(v):
            """every extension-requirement list inside an encoded operation"""
            if isinstance(v, dict):
                for k, x in v.items():
                    if k in ("runtime_reqs", "extension_delta") and isinstance(x, list):
                        yield x
                    else:
                        yield from req_lists(x)
            elif isinstance(v, list):
                for x in v:
                    yield from req_lists(x)

        for c, o in zip(cases, observations):
            d["kinds"][c["kind"]] = d["kinds"].get(c["kind"], 0) + 1
            if "skip" in o:
                d["skipped"] += 1
            if o.get("schema", "OK") != "OK":
                d["schema_failures"] += 1
            a = o.get("a")
            if not a:
                continue
            idxs = [n["idx"] for n in a["nodes"]]
            d["nodes"].append(len(idxs))
            d["with_holes"] += idxs != list(range(len(idxs)))
            d["with_metadata"] += any(n["md"] for n in a["nodes"])
            d["with_order_links"] += any(l[1] == -1 for l in a["links"])
            for m in o.get("muts", []):
                d["mutations"][m[0]] = d["mutations"].get(m[0], 0) + 1
            # (seeded round 2) the same link more than once; an operation changed in place after a serialization
            mult = {}
            for l in a["links"]:
                mult[tuple(l)] = mult.get(tuple(l), 0) + 1
            d["with_parallel_links"] += any(v > 1 for v in mult.values())
            d["with_parallel_order_links"] += any(v > 1 and l[1] == -1 for l, v in mult.items())
            ks = [m[0] for m in o.get("muts", [])]
            d["serialized_mid_history"] += "ser" in ks
            d["op_changed_in_place_after_serialization"] += "ser" in ks and "edit_op" in ks[ks.index("ser"):]
            d["built_with_serialization_after_every_statement"] += bool(c.get("probe"))
            # (seeded C02-i) written order / repeated names of extension requirements
            rls = [r for n in a["nodes"] for r in req_lists(n["op"]) if len(r) >= 2]
            d["with_a_requirement_list_of_2_or_more"] += bool(rls)
            d["with_a_requirement_list_a_python_set_would_change"] += any(list(set(r)) != r for r in rls)
            for g in classify_guard(a):
                d["guard_broken"][g] = d["guard_broken"].get(g, 0) + 1
            if "load_error" in o:
                d["load_errors"][o["load_error"]] = d["load_errors"].get(o["load_error"], 0) + 1
        ns = sorted(d["nodes"])
        d["nodes"] = {"min": ns[0], "median": ns[len(ns) // 2], "max": ns[-1]} if ns else {}
        return d

    def extra(self, ctx, tier):
        out = []
        s = ctx.__dict__.get("schema_server")
        if s is not None and tier == "thorough" and s.samples:
            # the discriminator short-cut of the schema server must agree with the plain jsonschema validator
            plain = schema_server(ctx, plain=True)
            bad = []
            for defname, text, ans in s.samples:
                ans2 = plain._check(defname, text)
                if (ans == "OK") != (ans2 == "OK"):
                    bad.append({"definition": defname, "fast": ans, "plain": ans2, "document": text[:2000]})
            ctx.stats["schema_crosscheck_plain_validator"] = {"documents": len(s.samples), "disagreements": len(bad)}
            plain.close()
            if bad:
                out.append(("schema-validator-disagreement", "discriminator short-cut and plain jsonschema disagree",
                            {"cases": bad[:3]}))
        if s is not None:
            s.close()
        return out


PROP = RT()
