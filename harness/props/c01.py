"""C01 — builder-constructed HUGRs satisfy the specification's validity rules
(validity predicate: coq/model/Validity.v; builder model: coq/model/Builder.v; proofs: coq/proofs/BuilderP.v).

Trusted harness code in this file: the conversion of a serialised HUGR document into the compact
`vhugr` literal (conv_doc) and the interning of types to integers (class Tab: structural equality of
types = equality of ids, with Rust's normal forms: a sum with only empty rows is the unit sum of that
size, extension sets are sets)."""
from __future__ import annotations

import copy
import importlib.machinery
import importlib.util
import json
import os
import random
import subprocess
import sys
import tempfile

import fw
import progs
from fw import gN, gbool, glist, gopt, gapp

TYPE_TAGS = {"Q", "I", "G", "Sum", "Opaque", "Alias", "V", "R"}


class ConvError(Exception):
    """the document has a shape the converter does not know: fail closed"""


# ----------------------------------------------------------------------------- type interning


class Tab:
    def __init__(self):
        self.ids: dict = {}
        self.info: list = []      # ("sum", copy, rows) | ("fn", ins, outs, reqs) | ("atom", copy)
        self.polys = fw.Interner()
        self.reqs = fw.Interner()
        self.params = fw.Interner()      # parameter lists of polymorphic signatures; id 0 = no parameters
        self.params("[]")

    def _add(self, key, info):
        if key not in self.ids:
            self.ids[key] = len(self.info)
            self.info.append(info)
        return self.ids[key]

    def copy_of(self, i):
        inf = self.info[i]
        return True if inf[0] == "fn" else inf[1]

    def sum_of(self, rows):
        rows = tuple(tuple(r) for r in rows)
        return self._add(("Sum", rows), ("sum", all(self.copy_of(t) for r in rows for t in r), rows))

    def fn_of(self, ins, outs, reqs=()):
        rk = self.reqs(tuple(sorted(set(reqs))))
        return self._add(("G", tuple(ins), tuple(outs), rk), ("fn", tuple(ins), tuple(outs), rk))

    def norm_json(self, a):
        """type arguments etc.: plain JSON with every embedded type replaced by its id"""
        if isinstance(a, dict):
            if isinstance(a.get("t"), str) and a["t"] in TYPE_TAGS:
                return ["#ty", self.ty(a)]
            return {k: self.norm_json(v) for k, v in sorted(a.items())}
        if isinstance(a, list):
            return [self.norm_json(x) for x in a]
        return a

    def ty(self, t) -> int:
        k = t.get("t")
        if k == "Sum":
            if t["s"] == "Unit":
                return self.sum_of([[] for _ in range(t["size"])])
            if t["s"] == "General":
                return self.sum_of([self.row(r) for r in t["rows"]])
            raise ConvError("sum form " + str(t.get("s")))
        if k == "G":
            return self.fn_of(self.row(t["input"]), self.row(t["output"]), t.get("runtime_reqs", []))
        if k == "Q":
            return self._add(("Q",), ("atom", False))
        if k == "I":
            return self._add(("I",), ("atom", True))
        if k == "Opaque":
            key = ("Opaque", t["extension"], t["id"], json.dumps(self.norm_json(t["args"]), sort_keys=True), t["bound"])
            return self._add(key, ("atom", t["bound"] == "C"))
        if k in ("V", "R"):
            return self._add((k, t["i"], t["b"]), ("atom", t["b"] == "C"))
        if k == "Alias":
            return self._add(("Alias", t["name"], t["bound"]), ("atom", t["bound"] == "C"))
        raise ConvError("type tag " + str(k))

    def row(self, r):
        return [self.ty(t) for t in r]

    def poly(self, sig) -> int:
        body = sig["body"]
        return self.polys((json.dumps(self.norm_json(sig["params"]), sort_keys=True),
                           self.ty({"t": "G", **body})))

    def params_id(self, params) -> int:
        return self.params(json.dumps(self.norm_json(params), sort_keys=True))

    def sigs(self):
        """the table of interned polymorphic signatures: [(parameter-list id, body inputs, body outputs)] by signature id"""
        out = []
        for pj, fid in self.polys.rev:
            inf = self.info[fid]
            out.append((self.params(pj), list(inf[1]), list(inf[2])))
        return out

    def recompute_copy(self):
        for i, inf in enumerate(self.info):
            if inf[0] == "sum":
                self.info[i] = ("sum", all(self.copy_of(t) for r in inf[2] for t in r), inf[2])


# ----------------------------------------------------------------------------- document -> literal structure


def conv_val(v, tab: Tab, subs: list, on_function=None):
    k = v["v"]
    if k == "Sum":
        typ = v["typ"] if "t" in v["typ"] else {"t": "Sum", **v["typ"]}
        return ("VSum", tab.ty(typ), v["tag"], [conv_val(x, tab, subs, on_function) for x in v["vs"]])
    if k == "Tuple":
        vs = [conv_val(x, tab, subs, on_function) for x in v["vs"]]
        return ("VTuple", tab.sum_of([[x[1] for x in vs]]), vs)
    if k == "Extension":
        return ("VExt", tab.ty(v["typ"]))
    if k == "Function" and on_function is not None:
        return on_function(v["hugr"])
    if k == "Function":
        doc = v["hugr"]
        if isinstance(doc, str):
            doc = json.loads(doc)
        g = conv_graph(doc, tab, subs)
        subs.append(g)
        root = doc["nodes"][0]
        if root["op"] == "DFG":
            sig = root["signature"]
        elif root["op"] == "FuncDefn":
            sig = root["signature"]["body"]
        else:
            raise ConvError("function constant rooted in " + root["op"])
        return ("VFun", tab.ty({"t": "G", **sig}), len(subs) - 1)
    raise ConvError("value " + str(k))


def conv_op(n, tab: Tab, subs: list):
    k = n["op"]
    R = tab.row
    if k == "Module":
        return ("Module",)
    if k == "FuncDefn":
        b = n["signature"]["body"]
        return ("FuncDefn", tab.poly(n["signature"]), R(b["input"]), R(b["output"]))
    if k == "FuncDecl":
        return ("FuncDecl", tab.poly(n["signature"]))
    if k in ("AliasDecl", "AliasDefn"):
        return (k,)
    if k == "Const":
        return ("Const", conv_val(n["v"], tab, subs))
    if k in ("Input", "Output"):
        return (k, R(n["types"]))
    if k == "Call":
        i = n["instantiation"]
        return ("Call", tab.poly(n["func_sig"]), R(i["input"]), R(i["output"]))
    if k == "CallIndirect":
        s = n["signature"]
        return ("CallIndirect", R(s["input"]), R(s["output"]), tab.ty({"t": "G", **s}))
    if k == "LoadConstant":
        return ("LoadConst", tab.ty(n["datatype"]))
    if k == "LoadFunction":
        i = n["instantiation"]
        return ("LoadFunc", tab.poly(n["func_sig"]), R(i["input"]), R(i["output"]), tab.ty({"t": "G", **i}))
    if k in ("DFG", "CFG"):
        s = n["signature"]
        return (k, R(s["input"]), R(s["output"]))
    if k == "DataflowBlock":
        rows = [R(r) for r in n["sum_rows"]]
        return ("Block", R(n["inputs"]), rows, R(n["other_outputs"]), tab.sum_of(rows))
    if k == "ExitBlock":
        return ("ExitB", R(n["cfg_outputs"]))
    if k == "Conditional":
        rows = [R(r) for r in n["sum_rows"]]
        return ("Conditional", rows, R(n["other_inputs"]), R(n["outputs"]), tab.sum_of(rows))
    if k == "Case":
        s = n["signature"]
        return ("Case", R(s["input"]), R(s["output"]))
    if k == "TailLoop":
        ji, jo, rest = R(n["just_inputs"]), R(n["just_outputs"]), R(n["rest"])
        return ("TailLoop", ji, jo, rest, tab.sum_of([ji, jo]))
    if k == "Tag":
        rows = [R(r) for r in n["variants"]]
        return ("Tag", n["tag"], rows, tab.sum_of(rows))
    if k in ("Extension", "OpaqueOp", "CustomOp"):
        s = n["signature"]
        return ("ExtOp", R(s["input"]), R(s["output"]))
    raise ConvError("operation " + str(k))


def conv_graph(doc, tab: Tab, subs: list):
    nodes = [[conv_op(n, tab, subs), n["parent"]] for n in doc["nodes"]]
    edges = []
    for e in doc["edges"]:
        (s, so), (d, do) = e
        edges.append([s, so, d, do])
    return {"nodes": nodes, "edges": edges}


def conv_doc(doc):
    """-> {"tab": Tab, "main": graph, "subs": [graph]}"""
    tab, subs = Tab(), []
    main = conv_graph(doc, tab, subs)
    return {"tab": tab, "main": main, "subs": subs}


# ----------------------------------------------------------------------------- Gallina printing

def grow(r):
    return glist(gN(t) for t in r)


def grows(rs):
    return glist(grow(r) for r in rs)


def gval(v):
    if v[0] == "VSum":
        return gapp("VSum", gN(v[1]), gN(v[2]), glist(gval(x) for x in v[3]))
    if v[0] == "VTuple":
        return gapp("VTuple", gN(v[1]), glist(gval(x) for x in v[2]))
    if v[0] == "VExt":
        return gapp("VExt", gN(v[1]))
    return gapp("VFun", gN(v[1]), gN(v[2]))


OP_ARGS = {   # constructor -> argument printers
    "Module": "", "AliasDecl": "", "AliasDefn": "", "FuncDefn": "nrr", "FuncDecl": "n", "Const": "v",
    "Input": "r", "Output": "r", "Call": "nrr", "CallIndirect": "rrn", "LoadConst": "n", "LoadFunc": "nrrn",
    "DFG": "rr", "CFG": "rr", "Block": "rRrn", "ExitB": "r", "Conditional": "Rrrn", "Case": "rr",
    "TailLoop": "rrrn", "Tag": "nRn", "ExtOp": "rr",
}
PRN = {"n": gN, "r": grow, "R": grows, "v": gval}


def gop(o):
    spec = OP_ARGS[o[0]]
    assert len(spec) == len(o) - 1, o
    return gapp(o[0], *[PRN[c](a) for c, a in zip(spec, o[1:])])


def ggraph(g):
    ns = glist("{| n_op := %s; n_parent := %s |}" % (gop(o), gN(p)) for o, p in g["nodes"])
    es = glist("{| e_src := %s; e_soff := %s; e_dst := %s; e_doff := %s |}" % (
        gN(s), gopt(None if so is None else gN(so)), gN(d), gopt(None if do is None else gN(do)))
        for s, so, d, do in g["edges"])
    return "{| g_nodes := %s; g_edges := %s |}" % (ns, es)


def gtab(tab: Tab):
    def one(inf):
        if inf[0] == "sum":
            return gapp("TSum", gbool(inf[1]), grows(inf[2]))
        if inf[0] == "fn":
            return gapp("TFn", grow(inf[1]), grow(inf[2]), gN(inf[3]))
        return gapp("TAtom", gbool(inf[1]))
    return glist(one(i) for i in tab.info)


def gvhugr(c):
    return "{| v_tys := %s; v_main := %s; v_subs := %s |}" % (
        gtab(c["tab"]), ggraph(c["main"]), glist(ggraph(g) for g in c["subs"]))


# ----------------------------------------------------------------------------- program -> Coq literal (model/Builder.v)


class OutOfModel(Exception):
    """the program uses a builder call that model/Builder.v does not cover"""


def ser_ty(t):
    return json.loads(progs.mk_ty(t)._to_serial_root().model_dump_json())


def conv_opspec(o, tab: Tab):
    from hugr import ops
    k = o[0]
    if k == "noop":
        return "ONoop"
    if k == "mktup":
        return "OMakeTuple"
    if k == "untup":
        return "OUnpackTuple"
    if k == "callind":
        raise OutOfModel("CallIndirect")
    op = progs.mk_op(o)
    if isinstance(op, ops.Tag):
        rows = [[tab.ty(json.loads(t._to_serial_root().model_dump_json())) for t in r] for r in op.sum_ty.variant_rows]
        return gapp("OTag", gN(op.tag), grows(rows), gN(tab.sum_of(rows)))
    sig = op.outer_signature()
    ins = [tab.ty(json.loads(t._to_serial_root().model_dump_json())) for t in sig.input]
    outs = [tab.ty(json.loads(t._to_serial_root().model_dump_json())) for t in sig.output]
    return gapp("OFixed", grow(ins), grow(outs))


def gwids(ws):
    return glist(gN(w) for w in ws)


def conv_region(r, tab):
    return gapp("Region", gwids(r["ins"]), conv_stmts(r["stmts"], tab), gwids(r["outs"]))


def conv_stmts(sts, tab):
    out = "SNil"
    for st in reversed(sts):
        out = gapp("SCons", conv_stmt(st, tab), out)
    return out


def gref(r):
    return {"in": "RIn", "out": "ROut"}.get(r) or gapp("RStmt", gN(r))


def conv_stmt(st, tab):
    k = st["k"]
    if k == "op":
        return gapp("SOp", gN(st["id"]), conv_opspec(st["op"], tab), gwids(st["args"]), gwids(st.get("outs", [])))
    if k == "load":
        v = json.loads(progs.mk_val(st["val"])._to_serial_root().model_dump_json())
        subs = []
        cv = conv_val(v, tab, subs)
        if subs:
            raise OutOfModel("function constant")
        cp = "CRoot" if st.get("const_parent", "here") == "root" else "CHere"
        (w,) = st["outs"]
        return gapp("SLoad", gN(st["id"]), gval(cv), cp, gN(w))
    if k == "nested":
        if st.get("insert"):
            raise OutOfModel("insert_nested")
        return gapp("SNested", gN(st["id"]), gwids(st["args"]), conv_region(st["body"], tab), gwids(st.get("outs", [])))
    if k == "order":
        return gapp("SOrder", gref(st["src"]), gref(st["dst"]))
    raise OutOfModel(k)


def conv_prog(p, tab: Tab):
    """the Coq `prog` literal of a program, or OutOfModel"""
    if p["root"] != "dfg":
        raise OutOfModel("root " + p["root"])
    ins = [tab.ty(ser_ty(t)) for t in p["ins"]]
    return gapp("PDfg", grow(ins), conv_region(p["body"], tab))


# ----------------------------------------------------------------------------- program -> Coq literal (model/Builder2.v)


def sum_rows_ids(t, tab: Tab):
    """variant rows (as interned ids) and the id of the sum type a program's type spec denotes, as the interpreter of
    progs.py builds it (mk_ty, or tys.Sum over sum_rows when mk_ty gives a non-Sum class)"""
    from hugr import tys
    sty = progs.mk_ty(t)
    if not isinstance(sty, tys.Sum):
        sty = tys.Sum([[progs.mk_ty(x) for x in rw] for rw in progs.sum_rows(t)])
    rows = [[tab.ty(json.loads(x._to_serial_root().model_dump_json())) for x in r] for r in sty.variant_rows]
    return rows, tab.sum_of(rows)


def conv_region2(r, tab, cond_root):
    return gapp("Reg", gwids(r["ins"]), conv_stmts2(r["stmts"], tab, cond_root), gwids(r["outs"]))


def conv_stmts2(sts, tab, cond_root):
    out = "TNil"
    for st in reversed(sts):
        out = gapp("TCons", conv_stmt2(st, tab, cond_root), out)
    return out


def conv_stmt2(st, tab, cond_root):
    """cond_root: the Hugr the statement is executed on is rooted in a Conditional (the interpreter then puts a
    constant asked for at the root into the current container instead)"""
    k = st["k"]
    outs = gwids(st.get("outs", []))
    if k == "op":
        if st["op"][0] == "callind":
            return gapp("TCallInd", gN(st["id"]), gwids(st["args"]), outs)
        return gapp("TOp", gN(st["id"]), conv_opspec(st["op"], tab), gwids(st["args"]), outs)
    if k == "load":
        v = json.loads(progs.mk_val(st["val"])._to_serial_root().model_dump_json())
        subs = []
        cv = conv_val(v, tab, subs)
        if subs:
            raise OutOfModel("function constant")
        cp = "CRoot" if st.get("const_parent", "here") == "root" and not cond_root else "CHere"
        (w,) = st["outs"]
        return gapp("TLoad", gN(st["id"]), gval(cv), cp, gN(w))
    if k == "nested":
        if st.get("insert"):
            ins = [tab.ty(ser_ty(t)) for t in st["in_tys"]]
            sub = gapp("QDfg", grow(ins), conv_region2(st["body"], tab, False))
            return gapp("TInsert", gN(st["id"]), sub, gwids(st["args"]), outs)
        return gapp("TNested", gN(st["id"]), gwids(st["args"]), conv_region2(st["body"], tab, cond_root), outs)
    if k == "order":
        return gapp("TOrder", gref(st["src"]), gref(st["dst"]))
    if k == "loop":
        if st.get("insert"):
            sub = gapp("QLoop", grow([tab.ty(ser_ty(t)) for t in st["just_tys"]]),
                       grow([tab.ty(ser_ty(t)) for t in st["rest_tys"]]), conv_region2(st["body"], tab, False))
            return gapp("TInsert", gN(st["id"]), sub, gwids(st["just"] + st["rest"]), outs)
        return gapp("TLoop", gN(st["id"]), gwids(st["just"]), gwids(st["rest"]), conv_region2(st["body"], tab, cond_root), outs)
    if k == "cond":
        style = st.get("style", "cases")
        cases = st["cases"]
        if style == "insert":
            rows, sid_ = sum_rows_ids(st["sum_ty"], tab)
            others = [tab.ty(ser_ty(t)) for t in st["other_tys"]]
            cs = conv_cases2(cases, st.get("order", range(len(cases))), tab, True)
            sub = gapp("QCond", grows(rows), grow(others), gN(sid_), cs)
            return gapp("TInsert", gN(st["id"]), sub, gwids([st["cond"]] + st["args"]), outs)
        order = [1, 0] if style == "ifelse" else st.get("order", range(len(cases)))
        return gapp("TCond", gN(st["id"]), gN(st["cond"]), gwids(st["args"]), conv_cases2(cases, order, tab, cond_root), outs)
    raise OutOfModel(k)


def conv_cases2(cases, order, tab, cond_root):
    out = "CNil"
    for i in reversed(list(order)):
        out = gapp("CCons", gN(i), conv_region2(cases[i], tab, cond_root), out)
    return out


def conv_prog2(p, tab: Tab):
    """the Coq `prog2` literal of a program, or OutOfModel"""
    root = p["root"]
    if root == "dfg":
        ins = [tab.ty(ser_ty(t)) for t in p["ins"]]
        return gapp("QDfg", grow(ins), conv_region2(p["body"], tab, False))
    if root == "loop":
        return gapp("QLoop", grow([tab.ty(ser_ty(t)) for t in p["just_tys"]]),
                    grow([tab.ty(ser_ty(t)) for t in p["rest_tys"]]), conv_region2(p["body"], tab, False))
    if root == "cond":
        rows, sid_ = sum_rows_ids(p["sum_ty"], tab)
        others = [tab.ty(ser_ty(t)) for t in p["other_tys"]]
        cs = conv_cases2(p["cases"], p.get("order", range(len(p["cases"]))), tab, True)
        return gapp("QCond", grows(rows), grow(others), gN(sid_), cs)
    raise OutOfModel("root " + root)


# ----------------------------------------------------------------------------- program -> Coq literal (model/Builder3.v)


def gsigs(tab: Tab):
    return glist("{| si_params := %s; si_ins := %s; si_outs := %s |}" % (gN(p), grow(i), grow(o)) for p, i, o in tab.sigs())


def gorow(r):
    return gopt(None if r is None else grow(r))


_SINGLE_SUCC = None


def single_succ_as_modelled():
    """How Block.set_single_succ_outputs obtains the unit branch value is the builders' choice (the property promises a
    valid document, not particular operations).  model/Builder3.v supports ONE choice: a Const(Unit) node and a
    LoadConstant node appended to the block.  Probe the implementation once; if it chooses otherwise, programs with a
    single-successor block are outside the third model (their documents are still monitored)."""
    global _SINGLE_SUCC
    if _SINGLE_SUCC is None:
        try:
            from hugr import tys
            from hugr.build.cfg import Cfg
            c = Cfg(tys.Bool)
            with c.add_entry() as b:
                b.set_single_succ_outputs(*b.inputs())
            c.branch_exit(b[0])
            doc = json.loads(c.hugr.to_json())
            blk = next(i for i, n in enumerate(doc["nodes"]) if n["op"] == "DataflowBlock")
            kids = [n for i, n in enumerate(doc["nodes"]) if n["parent"] == blk and i != blk]
            _SINGLE_SUCC = ([n["op"] for n in kids] == ["Input", "Output", "Const", "LoadConstant"]
                            and kids[2]["v"].get("v") in ("Sum", "Tuple") and not kids[2]["v"].get("vs"))
        except Exception:
            _SINGLE_SUCC = False
    return _SINGLE_SUCC


class Conv3:
    """program (harness/progs.py format) -> prog3 literal; function names are interned per program; `funcs` maps a function
    name to its (ins, outs) type specs as the program text gives them (needed for the type of load_function)"""

    def __init__(self, tab: Tab, top=True):
        self.tab = tab
        self.names = fw.Interner()
        self.funcs = {}
        self.freqs = {}           # function name -> runtime requirements of a declared function's type (progs.with_reqs)
        self.subs = []            # prog3 literals of the function constants, in document order
        self.top = top

    def row(self, ts):
        return [self.tab.ty(ser_ty(t)) for t in ts]

    def poly_parts(self, params, ins, outs, reqs=None):
        """(parameter-list id, interned signature id) of PolyFuncType(params, FunctionType(ins, outs, reqs))"""
        from hugr import tys
        sig = tys.PolyFuncType([progs.mk_param(x) for x in (params or [])],
                               tys.FunctionType([progs.mk_ty(t) for t in ins], [progs.mk_ty(t) for t in outs],
                                                runtime_reqs=list(reqs or [])))
        d = json.loads(sig._to_serial().model_dump_json())
        return self.tab.params_id(d["params"]), self.tab.poly(d)

    def value(self, vspec):
        """a value spec of the program -> value literal.  Plain data goes through the library's serialisation (conv_val);
        a function constant ["fn", prog] becomes VFun(type of Dfg(ins) -> outs, k) with k the position of its sub-program in
        `self.subs` (document order = program order: conv_val visits the members of sums / tuples in order)"""
        fns = list(fn_specs(vspec))
        v = json.loads(progs.mk_val(vspec)._to_serial_root().model_dump_json())
        it = iter(fns)

        def on_function(_doc):
            sub = next(it)
            ty = self.tab.ty(ser_ty(["fn", list(sub["ins"]), list(sub["body"]["out_tys"])]))
            self.subs.append(Conv3(self.tab, top=False).prog(sub))
            return ("VFun", ty, len(self.subs) - 1)
        cv = conv_val(v, self.tab, None, on_function=on_function)
        if next(it, None) is not None:
            raise OutOfModel("function constant inside an extension value")
        return gval(cv)

    def inst(self, st):
        if st.get("inst") is None:
            return "None"
        _, ins, outs = st["inst"]
        return "(Some (%s, %s))" % (grow(self.row(ins)), grow(self.row(outs)))

    def region(self, r, noconst):
        return gapp("Rg", gwids(r["ins"]), self.stmts(r["stmts"], noconst), gwids(r["outs"]))

    def stmts(self, sts, noconst):
        out = "UNil"
        for st in reversed([self.stmt(st, noconst) for st in sts]):
            out = gapp("UCons", st, out)
        return out

    def cases(self, cases, order, noconst):
        out = "KNil"
        for i, c in reversed([(i, self.region(cases[i], noconst)) for i in list(order)]):
            out = gapp("KCons", gN(i), c, out)
        return out

    def cfg_parts(self, c, noconst):
        """(blocks3 literal, branches literal) of a cfg statement / root; blocks are converted in program order"""
        bls = []
        for bl in c["blocks"]:
            if bl.get("single") and not single_succ_as_modelled():
                raise OutOfModel("set_single_succ_outputs does not build Const(Unit) + LoadConstant")
            if bl["kind"] == "entry":
                k = "BEntry"
            elif bl["kind"] == "succ":
                k = gapp("BSucc", gN(bl["pred"]))
            else:
                k = gapp("BBlock", grow(self.row(bl["in_tys"])))
            bls.append((bl["id"], k, self.region(bl["body"], noconst), bool(bl.get("single")), bl["branch_wires"]))
        out = "BNil"
        for bid, k, body, single, bw in reversed(bls):
            out = gapp("BCons", gN(bid), k, body, gbool(single), gwids(bw), out)
        brs = []
        for src, dst in c["branches"]:
            tgt = "BExit" if dst in ("exit", "exit_via_branch") else gapp("BTo", gN(dst))
            brs.append("(%s, %s)" % (gN(src), tgt))
        return out, glist(brs)

    def stmt(self, st, noconst):
        """noconst: the Hugr the statement is executed on is rooted in a Conditional or a CFG (the interpreter then puts a
        constant asked for at the root into the current container instead)"""
        tab = self.tab
        k = st["k"]
        outs = gwids(st.get("outs", []))
        if k == "op":
            if st["op"][0] == "callind":
                return gapp("UCallInd", gN(st["id"]), gwids(st["args"]), outs)
            return gapp("UOp", gN(st["id"]), conv_opspec(st["op"], tab), gwids(st["args"]), outs)
        if k == "load":
            if not self.top and any(True for _ in fn_specs(st["val"])):
                raise OutOfModel("function constant inside a function constant")
            cp = "CRoot" if st.get("const_parent", "here") == "root" and not noconst else "CHere"
            (w,) = st["outs"]
            return gapp("ULoad", gN(st["id"]), self.value(st["val"]), cp, gN(w))
        if k == "loadc":
            (w,) = st["outs"]
            return gapp("ULoadC", gN(st["id"]), gN(st["const"]), gN(w))
        if k == "nested":
            if st.get("insert"):
                sub = gapp("RDfg", grow(self.row(st["in_tys"])), self.region(st["body"], False))
                return gapp("UInsert", gN(st["id"]), sub, gwids(st["args"]), outs)
            return gapp("UNested", gN(st["id"]), gwids(st["args"]), self.region(st["body"], noconst), outs)
        if k == "order":
            return gapp("UOrder", gref(st["src"]), gref(st["dst"]))
        if k == "loop":
            if st.get("insert"):
                sub = gapp("RLoop", grow(self.row(st["just_tys"])), grow(self.row(st["rest_tys"])), self.region(st["body"], False))
                return gapp("UInsert", gN(st["id"]), sub, gwids(st["just"] + st["rest"]), outs)
            return gapp("ULoop", gN(st["id"]), gwids(st["just"]), gwids(st["rest"]), self.region(st["body"], noconst), outs)
        if k == "cond":
            style = st.get("style", "cases")
            cases = st["cases"]
            if style == "insert":
                rows, sid_ = sum_rows_ids(st["sum_ty"], tab)
                sub = gapp("RCond", grows(rows), grow(self.row(st["other_tys"])), gN(sid_),
                           self.cases(cases, st.get("order", range(len(cases))), True))
                return gapp("UInsert", gN(st["id"]), sub, gwids([st["cond"]] + st["args"]), outs)
            order = [1, 0] if style == "ifelse" else st.get("order", range(len(cases)))
            return gapp("UCond", gN(st["id"]), gN(st["cond"]), gwids(st["args"]), self.cases(cases, order, noconst), outs)
        if k == "cfg":
            if st.get("insert"):
                bls, brs = self.cfg_parts(st, True)
                sub = gapp("RCfg", grow(self.row(st["in_tys"])), bls, brs)
                return gapp("UInsert", gN(st["id"]), sub, gwids(st["args"]), outs)
            bls, brs = self.cfg_parts(st, noconst)
            return gapp("UCfg", gN(st["id"]), gwids(st["args"]), bls, brs, outs)
        if k == "call":
            return gapp("UCall", gN(st["id"]), gN(self.names(st["func"])), gwids(st["args"]), outs, self.inst(st))
        if k == "loadfn":
            if st.get("inst") is not None:
                _, ins, ous = st["inst"]
            else:
                if st["func"] not in self.funcs:
                    raise OutOfModel("load_function of an unknown function")
                ins, ous = self.funcs[st["func"]]
            # a function DECLARED with runtime requirements (progs.with_reqs): the loaded value has the declared type
            rq = self.freqs.get(st["func"]) if st.get("inst") is None else None
            fnty = tab.ty(ser_ty(["fn", list(ins), list(ous)] + ([list(rq)] if rq else [])))
            (w,) = st["outs"]
            return gapp("ULoadFn", gN(st["id"]), gN(self.names(st["func"])), gN(w), self.inst(st), gN(fnty))
        if k == "localfn":
            body = self.region(st["body"], noconst)
            douts = self.row(st["body"]["out_tys"]) if st.get("declare") else None
            self.poly_parts([], st["ins"], st["body"]["out_tys"])          # the signature is in the table
            self.funcs[st["name"]] = (st["ins"], st["body"]["out_tys"])
            return gapp("ULocalFn", gN(st["id"]), gN(self.names(st["name"])), gN(0), grow(self.row(st["ins"])), gorow(douts), body)
        raise OutOfModel(k)

    def prog(self, p):
        tab = self.tab
        root = p["root"]
        if root == "dfg":
            return gapp("RDfg", grow(self.row(p["ins"])), self.region(p["body"], False))
        if root == "loop":
            return gapp("RLoop", grow(self.row(p["just_tys"])), grow(self.row(p["rest_tys"])), self.region(p["body"], False))
        if root == "cond":
            rows, sid_ = sum_rows_ids(p["sum_ty"], tab)
            return gapp("RCond", grows(rows), grow(self.row(p["other_tys"])), gN(sid_),
                        self.cases(p["cases"], p.get("order", range(len(p["cases"]))), True))
        if root == "func":
            douts = self.row(p["body"]["out_tys"]) if p.get("declare") else None
            self.poly_parts([], p["ins"], p["body"]["out_tys"])
            return gapp("RFunc", gN(0), grow(self.row(p["ins"])), gorow(douts), self.region(p["body"], False))
        if root == "cfg":
            bls, brs = self.cfg_parts(p, True)
            return gapp("RCfg", grow(self.row(p["in_tys"])), bls, brs)
        if root == "module":
            consts = [self.value(v) for v in p.get("consts", [])]
            for f in p["funcs"]:
                self.funcs[f["name"]] = (f["ins"], f["outs"])
                if f.get("decl") and f.get("reqs"):
                    self.freqs[f["name"]] = f["reqs"]
            fs = []
            for f in p["funcs"]:
                fid = gN(self.names(f["name"]))
                if f.get("decl"):
                    _, sg = self.poly_parts(f.get("params"), f["ins"], f["outs"], f.get("reqs"))
                    fs.append(("FDecl", fid, gN(sg)))
                else:
                    pid, _ = self.poly_parts(f.get("params"), f["ins"], f["outs"])
                    douts = self.row(f["outs"]) if f.get("declare") else None
                    fs.append(("FDefn", fid, gN(pid), grow(self.row(f["ins"])), gorow(douts), self.region(f["body"], False)))
            out = "FNil"
            for f in reversed(fs):
                out = gapp(*f, out)
            return gapp("RModule", glist(consts), out)
        raise OutOfModel("root " + root)


def fn_specs(v):
    """the sub-programs of the function constants inside a value spec, in the order conv_val meets them"""
    k = v[0]
    if k == "fn":
        yield v[1]
    elif k in ("tuple", "some", "left"):
        for x in v[1]:
            yield from fn_specs(x)
    elif k == "right":
        for x in v[2]:
            yield from fn_specs(x)
    elif k == "sum":
        for x in v[3]:
            yield from fn_specs(x)
    elif k in ("arr", "list", "sarr"):
        for x in v[1]:
            yield from fn_specs(x)


def conv_prog3(p, tab: Tab):
    """(the Coq `prog3` literal of a program, the literal of the list of its function constants' sub-programs), or
    OutOfModel"""
    c = Conv3(tab)
    pl = c.prog(p)
    sg = tab.sigs()
    if len({(pi, tuple(i), tuple(o)) for pi, i, o in sg}) < len(sg):
        # the signature table of model/Builder3.v (sinfo: parameters, inputs, outputs) has no requirement sets: FuncDefn's
        # find_sig cannot tell two signatures that differ only in runtime_reqs apart.  Such a program is outside the
        # third model (its document is still monitored)
        raise OutOfModel("signatures that differ only in runtime requirements")
    return pl, glist(c.subs)


# ----------------------------------------------------------------------------- the design-time transcription (cross-check)

_FAKE = None


def fake():
    global _FAKE
    if _FAKE is None:
        path = os.path.join(fw.VERIF, "proto", "fakehugr", "hugr")
        loader = importlib.machinery.SourceFileLoader("fakehugr_validator", path)
        spec = importlib.util.spec_from_loader("fakehugr_validator", loader)
        _FAKE = importlib.util.module_from_spec(spec)
        loader.exec_module(_FAKE)
    return _FAKE


def fake_verdict(doc):
    try:
        fake().validate_hugr(doc)
        return True, ""
    except fake().Invalid as e:
        return False, str(e)
    except Exception as e:           # the prototype is not total on malformed documents
        return False, "error:" + type(e).__name__


def decode_envelope(data: bytes):
    if data[:8] != b"HUGRiHJv":
        raise ConvError("envelope magic")
    if data[8] != 0x3F and data[8] != ord("?"):
        pass
    payload = data[10:]
    if data[9] & 1:
        import pyzstd
        payload = pyzstd.decompress(payload)
    return json.loads(payload)


# ----------------------------------------------------------------------------- negative stream: one rule violated by mutation

RULE_NAMES = ["index", "child_tags", "first_second", "io_rows", "derived_types", "port_counts", "root_no_edges",
              "edge_kinds", "inputs_once", "linear_once", "acyclic", "nonlocal_copyable", "nonlocal_relation",
              "no_edge_into_func", "ext_order_edge", "dominance", "cfg_edges", "const", "table", "nested"]

DF_PARENTS = ("DFG", "FuncDefn", "Case", "TailLoop", "Block")


def op_sig(o):
    """(value ins, static in?, order in?, value outs, static out?, order out?) of an op tuple"""
    k = o[0]
    if k == "Input":
        return [], False, False, o[1], False, True
    if k == "Output":
        return o[1], False, True, [], False, False
    if k == "Call":
        return o[2], True, True, o[3], False, True
    if k == "CallIndirect":
        return [o[3]] + o[1], False, True, o[2], False, True
    if k == "LoadConst":
        return [], True, True, [o[1]], False, True
    if k == "LoadFunc":
        return [], True, True, [o[4]], False, True
    if k in ("DFG", "CFG", "ExtOp"):
        return o[1], False, True, o[2], False, True
    if k == "Conditional":
        return [o[4]] + o[2], False, True, o[3], False, True
    if k == "TailLoop":
        return o[1] + o[3], False, True, o[2] + o[3], False, True
    if k == "Tag":
        return (o[2][o[1]] if o[1] < len(o[2]) else []), False, True, [o[3]], False, True
    if k in ("FuncDefn", "FuncDecl", "Const"):
        return [], False, False, [], True, False
    return [], False, False, [], False, False


def mutate(c, rule, rng):
    """c: converted document (deep-copied here).  Returns the mutated conversion or None."""
    c = {"tab": copy.deepcopy(c["tab"]), "main": copy.deepcopy(c["main"]), "subs": copy.deepcopy(c["subs"])}
    g, tab = c["main"], c["tab"]
    nodes, edges = g["nodes"], g["edges"]
    N = len(nodes)
    par = lambda i: nodes[i][1]
    kids = {}
    for i in range(1, N):
        kids.setdefault(par(i), []).append(i)

    def pick(xs):
        xs = list(xs)
        return rng.choice(xs) if xs else None

    def order_off(i, d):
        s = op_sig(nodes[i][0])
        if d == "out":
            return len(s[3]) + (1 if s[4] else 0) if s[5] else None
        return len(s[0]) + (1 if s[1] else 0) if s[2] else None

    def is_value_edge(e):
        s = op_sig(nodes[e[0]][0])
        return e[1] is not None and e[1] < len(s[3])

    def vty(e):
        return op_sig(nodes[e[0]][0])[3][e[1]]
    name = RULE_NAMES[rule]
    if name == "index":
        i = pick(i for i in range(1, N - 1) if par(i) != 0 or True)
        if i is None:
            return None
        nodes[i][1] = N - 1 if i != N - 1 else i
    elif name == "child_tags":
        p = pick(i for i in range(N) if nodes[i][0][0] in DF_PARENTS)
        if p is None:
            return None
        nodes.append([("ExitB", []), p])
    elif name == "first_second":
        p = pick(i for i in range(N) if nodes[i][0][0] in DF_PARENTS and len(kids.get(i, [])) >= 2)
        if p is None:
            return None
        a, b = kids[p][0], kids[p][1]
        nodes[a][0], nodes[b][0] = nodes[b][0], nodes[a][0]
    elif name == "io_rows":
        i = pick(i for i in range(N) if nodes[i][0][0] in ("Input", "Output"))
        if i is None or not tab.info:
            return None
        nodes[i][0] = (nodes[i][0][0], nodes[i][0][1] + [0])
    elif name == "derived_types":
        i = pick(i for i in range(N) if nodes[i][0][0] in ("Tag", "Conditional", "Block", "TailLoop"))
        if i is None:
            return None
        o = list(nodes[i][0])
        o[-1] = (o[-1] + 1) % len(tab.info) if len(tab.info) > 1 else None
        if o[-1] is None:
            return None
        nodes[i][0] = tuple(o)
    elif name == "port_counts":
        i = pick(i for i in range(1, N) if order_off(i, "out") is not None)
        j = pick(j for j in range(1, N) if order_off(j, "in") is not None)
        if i is None or j is None:
            return None
        edges.append([i, order_off(i, "out") + 1, j, order_off(j, "in")])
    elif name == "root_no_edges":
        j = pick(j for j in range(1, N) if order_off(j, "in") is not None)
        if j is None or order_off(0, "out") is None:
            return None
        edges.append([0, order_off(0, "out"), j, order_off(j, "in")])
    elif name == "edge_kinds":
        ve = [k for k, e in enumerate(edges) if is_value_edge(e)]
        pairs = [(a, b) for a in ve for b in ve if vty(edges[a]) != vty(edges[b])]
        pr = pick(pairs[:200])
        if pr is None:
            return None
        a, b = pr
        edges[a][2], edges[a][3], edges[b][2], edges[b][3] = edges[b][2], edges[b][3], edges[a][2], edges[a][3]
    elif name == "inputs_once":
        k = pick(k for k, e in enumerate(edges) if is_value_edge(e))
        if k is None:
            return None
        del edges[k]
    elif name == "linear_once":
        k = pick(k for k, e in enumerate(edges) if is_value_edge(e) and not tab.copy_of(vty(e)))
        if k is None:
            return None
        del edges[k]
    elif name == "acyclic":
        k = pick(k for k, e in enumerate(edges) if is_value_edge(e) and par(e[0]) == par(e[2])
                 and order_off(e[2], "out") is not None and order_off(e[0], "in") is not None)
        if k is None:
            return None
        e = edges[k]
        edges.append([e[2], order_off(e[2], "out"), e[0], order_off(e[0], "in")])
    elif name == "nonlocal_copyable":
        k = pick(k for k, e in enumerate(edges) if is_value_edge(e) and par(e[0]) != par(e[2])
                 and tab.info[vty(e)][0] == "atom")
        if k is None:
            return None
        tab.info[vty(edges[k])] = ("atom", False)
        tab.recompute_copy()
    elif name == "nonlocal_relation":
        # a value edge from inside a nested container to a node of the enclosing region
        cands = []
        for x in range(1, N):
            outs = op_sig(nodes[x][0])[3]
            p = par(x)
            if p == 0 or not outs:
                continue
            for o, t in enumerate(outs):
                if tab.copy_of(t):
                    for y in kids.get(par(p), []):
                        if y != p and op_sig(nodes[y][0])[0]:
                            cands.append((x, o, y))
        pr = pick(cands[:300])
        if pr is None:
            return None
        edges.append([pr[0], pr[1], pr[2], 0])
    elif name == "no_edge_into_func":
        cands = []
        for f in range(1, N):
            if nodes[f][0][0] == "FuncDefn" and nodes[par(f)][0][0] in DF_PARENTS:
                for s in kids.get(par(f), []):
                    for o, t in enumerate(op_sig(nodes[s][0])[3]):
                        if tab.copy_of(t) and order_off(s, "out") is not None:
                            for y in kids.get(f, []):
                                if op_sig(nodes[y][0])[0]:
                                    cands.append((s, o, y))
        pr = pick(cands[:300])
        if pr is None:
            return None
        edges.append([pr[0], pr[1], pr[2], 0])
    elif name == "ext_order_edge":
        ext = [e for e in edges if is_value_edge(e) and par(e[0]) != par(e[2])]
        cands = []
        for k, e in enumerate(edges):
            oo = order_off(e[0], "out")
            if oo is not None and e[1] == oo and par(e[0]) == par(e[2]):
                # an order edge s -> a: is it the companion of an Ext edge from s into a?
                def inside(t, a):
                    while t != 0:
                        t = par(t)
                        if t == a:
                            return True
                    return False
                if any(x[0] == e[0] and inside(x[2], e[2]) for x in ext):
                    cands.append(k)
        k = pick(cands)
        if k is None:
            return None
        del edges[k]
    elif name == "dominance":
        # a value edge between nodes directly inside two blocks of one CFG, neither dominating the other:
        # the two successors of a branching block
        cands = []
        for cfg in range(N):
            if nodes[cfg][0][0] != "CFG":
                continue
            blocks = [b for b in kids.get(cfg, []) if nodes[b][0][0] == "Block"]
            for b in blocks:
                if len(nodes[b][0][2]) >= 2:
                    succ = [e[2] for e in edges if e[0] == b and e[1] is not None and e[1] < len(nodes[b][0][2])]
                    succ = [s for s in succ if nodes[s][0][0] == "Block" and s != b]
                    if len(set(succ)) >= 2:
                        b1, b2 = sorted(set(succ))[:2]
                        for s in kids.get(b1, []):
                            for o, t in enumerate(op_sig(nodes[s][0])[3]):
                                if tab.copy_of(t):
                                    for y in kids.get(b2, []):
                                        if op_sig(nodes[y][0])[0]:
                                            cands.append((s, o, y))
        pr = pick(cands[:300])
        if pr is None:
            return None
        edges.append([pr[0], pr[1], pr[2], 0])
    elif name == "cfg_edges":
        cands = [e for e in edges if nodes[e[0]][0][0] == "Block" and e[1] is not None
                 and e[1] < len(nodes[e[0]][0][2]) and nodes[e[2]][0][0] in ("Block", "ExitB")]
        e = pick(cands)
        if e is None or not tab.info:
            return None
        o = list(nodes[e[2]][0])
        o[1] = o[1] + [0]
        nodes[e[2]][0] = tuple(o)
    elif name == "const":
        cands = [i for i in range(N) if nodes[i][0][0] == "Const" and nodes[i][0][1][0] in ("VSum", "VTuple")]
        i = pick(cands)
        if i is None:
            return None
        v = nodes[i][0][1]
        if v[0] == "VSum":
            rows = tab.info[v[1]][2]
            nodes[i][0] = ("Const", ("VSum", v[1], len(rows), v[3]))
        else:
            other = pick(t for t in range(len(tab.info)) if t != v[1])
            if other is None:
                return None
            nodes[i][0] = ("Const", ("VTuple", other, v[2]))
    else:
        return None
    return c


# ----------------------------------------------------------------------------- near-miss programs
# A well-formed generated program with ONE inconsistency that the builders document as an error (and have to refuse):
#   cond      one case of a Conditional (add_conditional / add_if+add_else / Conditional(...) / insert_conditional) sets a
#             different output row than the others: all outputs dropped (empty vs non-empty) or one output added; the
#             changed case is the first one finished or a later one            -> ConditionalError "Mismatched case outputs"
#   cfg_exit  one of several blocks branching to the exit sets a different row  -> MismatchedExit
#   declared  the outputs declared for a function differ from what set_outputs is given -> ValueError
# If a builder call raises, the program is outside the property (counted, not a violation); if every call is accepted the
# serialised HUGR has to be valid, and `mon` decides with the program as the concrete failing input.


def _nm_sites(p):
    sites = []

    def region_sites(r):
        for st in r.get("stmts", []):
            stmt_sites(st)

    def stmt_sites(st):
        k = st.get("k")
        if k == "cond":
            if len(st["cases"]) >= 2:
                sites.append(("cond", st))
            for c in st["cases"]:
                region_sites(c)
        elif k in ("nested", "loop"):
            region_sites(st["body"])
        elif k == "cfg":
            cfg_sites(st)
        elif k == "localfn":
            if st.get("declare"):
                sites.append(("declared", ("localfn", st)))
            region_sites(st["body"])

    def cfg_sites(c):
        exits = [b for b in c["branches"] if b[1] in ("exit", "exit_via_branch")]
        if len(exits) >= 2:
            sites.append(("cfg_exit", c))
        for bl in c["blocks"]:
            region_sites(bl["body"])
    root = p["root"]
    if root in ("dfg", "loop"):
        region_sites(p["body"])
    elif root == "func":
        if p.get("declare"):
            sites.append(("declared", ("func", p)))
        region_sites(p["body"])
    elif root == "cond":
        if len(p["cases"]) >= 2:
            sites.append(("cond", p))
        for c in p["cases"]:
            region_sites(c)
    elif root == "cfg":
        cfg_sites(p)
    elif root == "module":
        for f in p["funcs"]:
            if not f.get("decl") and f.get("body") is not None:
                if f.get("declare") and not (f["name"] == "main" and not f.get("params")):
                    sites.append(("declared", ("modfn", f)))
                region_sites(f["body"])
    return sites


def _nm_change_outs(region, in_tys, rng, force=None):
    """changes the output row of a region: 'drop' (all outputs removed) or 'add' (one more, copyable, output);
    returns the description or None"""
    outs, tys_ = list(region["outs"]), list(region["out_tys"])
    cands = [(w, t) for w, t in zip(outs, tys_) if not progs.is_linear(t)]
    cands += [(w, t) for w, t in zip(region["ins"], in_tys) if not progs.is_linear(t)]
    kinds = (["drop"] if outs else []) + (["add"] if cands else [])
    if force in kinds:
        kinds = [force]
    if not kinds:
        return None
    kind = rng.choice(kinds)
    if kind == "drop":
        region["outs"], region["out_tys"] = [], []
    else:
        w, t = rng.choice(cands)
        region["outs"], region["out_tys"] = outs + [w], tys_ + [t]
    return kind


def near_miss(prog, rng):
    """-> (program, description) with description None when the program offers no site"""
    p = copy.deepcopy(prog)
    sites = _nm_sites(p)
    if not sites:
        return prog, None
    kind, site = rng.choice(sites)
    if kind == "cond":
        cases = site["cases"]
        style = site.get("style", "cases")
        order = [1, 0] if style == "ifelse" else list(site.get("order", range(len(cases))))
        pos = 0 if rng.random() < 0.5 else rng.randrange(1, len(order))
        rows = progs.sum_rows(site["sum_ty"])
        i = order[pos]
        how = _nm_change_outs(cases[i], rows[i] + list(site["other_tys"]), rng)
        if how is None:
            return prog, None
        return p, "cond:%s:%s" % (how, "first" if pos == 0 else "later")
    if kind == "cfg_exit":
        exits = [k for k, b in enumerate(site["branches"]) if b[1] in ("exit", "exit_via_branch")]
        blocks_by_wire = {}
        for bl in site["blocks"]:
            for w in bl["branch_wires"]:
                blocks_by_wire[w] = bl
        pos = 0 if rng.random() < 0.5 else rng.randrange(1, len(exits))
        bl = blocks_by_wire.get(site["branches"][exits[pos]][0])
        if bl is None or not bl.get("single"):
            return prog, None
        how = _nm_change_outs(bl["body"], bl["in_tys"], rng)
        if how is None:
            return prog, None
        return p, "cfg_exit:%s:%s" % (how, "first" if pos == 0 else "later")
    where, f = site
    decl = f["outs"] if where == "modfn" else f["body"]["out_tys"]
    if decl and rng.random() < 0.5:
        decl.pop()
        how = "drop"
    else:
        decl.append("B")
        how = "add"
    return p, "declared:%s:%s" % (where, how)


# ----------------------------------------------------------------------------- the property


def build_docs(prog):
    """runs the program on the real builders; -> (doc from to_json, doc from the package envelope)"""
    from hugr.package import Package
    r = progs.run(prog)
    h = r.hugr
    d1 = json.loads(h.to_json())
    data = Package([h]).to_bytes()
    if data[:8] == b"HUGRiHJv" and data[8] != 63:
        # the default envelope format is not the JSON one (which format to_bytes() picks is not the property's
        # business): ask for the JSON envelope, the only one whose payload this harness can read
        from hugr.envelope import EnvelopeConfig, EnvelopeFormat
        data = Package([h]).to_bytes(EnvelopeConfig(format=EnvelopeFormat.JSON, zstd=None))
    pk = decode_envelope(data)
    d2 = pk["modules"][0]
    return d1, d2


def strip_doc(d):
    return {"nodes": d["nodes"], "edges": d["edges"]}


class C01(fw.Prop):
    id = "C01"
    props_file = "props/C01.v"
    run_file = "run/C01Run.v"
    run_module = "run.C01Run"
    shard = 12
    rule = ("programs of harness/progs.py (type-directed, well-formed: inputs wired once, linear values used once, "
            "Ext/Dom wires copyable only and only where the builders support them; all roots, nesting depth <= 3, "
            "all container kinds, insert variants, polymorphic calls, function constants, order edges) run on the "
            "real builders and serialised with to_json and through Package.to_bytes.  non-trivial = the document has "
            "a nested container, a non-local (Ext or Dom) value edge and an order edge")
    trusted = ["coq/model/Validity.v is a hand transcription of hugr-core/src/hugr/validate.rs + ops/validate.rs "
               "(the Rust validator cannot be built here); its TABLES (OpTag lattice, op tags, validity flags, port kinds "
               "and counts, signature rows) are proved equal to constants regenerated from the Rust source text on every "
               "run (gen/RustTables.v, C01_validity_tables_match_rust_*), the algorithms of rules 3-7 and 11-17 are "
               "guarded by sha256 digests of the transcribed Rust functions; it is exercised by a negative stream (each rule violated "
               "once by mutation), the documents of the 39 baseline builder tests and a second, independent "
               "transcription (proto/fakehugr/hugr)",
               "harness/props/c01.py: document -> vhugr literal conversion and type interning (Tab)"]
    assumptions = ["extension resolution, type-argument checking of polymorphic calls (C06) and extension-set "
                   "inference are outside `valid` (the property's list of rules does not name them)"]

    # -- data-derived Coq files: the validator's tables scanned from the Rust sources (fail closed)
    def regenerate(self, ctx):
        from translators import rust_tables
        try:
            rust_tables.regenerate(fw.REPO, fw.COQ)
        except rust_tables.TranslatorError as e:      # unknown shape of the Rust sources: the tie is broken
            raise RuntimeError("rust_tables: " + str(e)) from e
        return ["gen/RustTables.v"]

    # -- programs
    MAX_NODES = 260

    def corpus(self, ctx):
        return [{"named": n} for n in NAMED]

    def generate(self, rng, tier, ctx):
        n = 300 if tier == "quick" else 3500
        cases = []
        roots = [None, None, None, "dfg", "module", "func", "loop", "cond", "cfg"]
        # fourth pass: every program of these streams is now also run through a Coq builder model (run3s); to keep the quick
        # tier inside its budget the last 30 / 60 draws of the first two streams are made (the seeds of the later streams stay
        # what they were) but not used
        keep1, keep2 = (270, 190) if tier == "quick" else (n, 1800)
        for i in range(n):
            c = {"seed": rng.randrange(1 << 30), "root": roots[i % len(roots)]}
            if i < keep1:
                cases.append(c)
        # programs inside the builder model (model/Builder.v): the tie for the theorems
        for i in range(250 if tier == "quick" else 1800):
            c = {"seed": rng.randrange(1 << 30), "root": "dfg", "allow": ["nested", "order", "md"],
                 "size": rng.choice([5, 8, 10, 14]), "depth": rng.choice([2, 3, 4, 5])}
            if i < keep2:
                cases.append(c)
        # the tracked dataflow builder (TrackedDfg.add / extend / track_wire / untrack_wire / set_*_outputs): commands
        # mix tracked indices and explicit wires in any order (drawn last: the seeds of the streams above are unchanged)
        for i in range(48 if tier == "quick" else 500):
            cases.append({"seed": rng.randrange(1 << 30), "root": "tdfg"})
        # programs inside the extended builder model (model/Builder2.v): loops, conditionals (cases in any order,
        # if/else), every insert_* variant, CallIndirect, Dfg / TailLoop / Conditional roots (drawn last again)
        ext = []
        for i in range(120 if tier == "quick" else 1500):
            ext.append({"seed": rng.randrange(1 << 30), "root": ["dfg", "loop", "cond", "dfg"][i % 4],
                        "allow": ["nested", "cond", "loop", "order", "md", "insert"],
                        "size": rng.choice([4, 6, 8, 10]), "depth": rng.choice([2, 3, 3, 4])})
        # near-miss programs: a well-formed program with one inconsistency the builders have to refuse (see near_miss);
        # drawn last again
        nm_roots = ["dfg", "cond", "module", "cfg", "func", "cond", "dfg", "loop"]
        for i in range(96 if tier == "quick" else 900):
            cases.append({"seed": rng.randrange(1 << 30), "root": nm_roots[i % len(nm_roots)],
                          "nearmiss": rng.randrange(1 << 30), "size": rng.choice([3, 4, 6]), "depth": rng.choice([2, 3])})
        # one-shot iterables (seeded change C01-h; drawn last again): the program carries "oneshot": <seed> and
        # progs.run hands every argument the API types as Iterable (val.Left / val.Right / tys.Either, track_wires) or
        # takes as *args over as a generator / iter / map / tuple, and builds two-variant sum constants with val.Left /
        # val.Right / val.Some / val.None_; "sumconst" makes such constants frequent.  Every second program is inside
        # the extended builder model, whose constant comes from the list-built value: `corr` ties the two
        os_roots = ["dfg", "dfg", "loop", "module", "cond", "dfg", "cfg", "tdfg", "func", "dfg"]
        for i in range(60 if tier == "quick" else 500):
            allow = (["nested", "cond", "loop", "order", "md", "insert"] if i % 2 == 0 and os_roots[i % 10] in ("dfg", "loop", "cond")
                     else ["nested", "cond", "loop", "cfg", "call", "order", "md", "insert", "fnval", "poly", "localfn"])
            cases.append({"seed": rng.randrange(1 << 30), "root": os_roots[i % 10], "oneshot": rng.randrange(1 << 30),
                          "allow": allow + ["sumconst"], "size": rng.choice([3, 4, 6]), "depth": rng.choice([2, 3])})
        # function types with runtime requirements (seeded change C01-i; drawn last again): the program is rewritten by
        # progs.with_reqs (case key "reqs": every function type spec gets a requirement set that is a function of the
        # spec, declared functions are declared with it), generated with the opt-in "hof" flag (function types,
        # declarations, load_function and CallIndirect frequent).  Types that differ only in `runtime_reqs` are
        # different types (class Tab): FuncDecl -> Call / LoadFunction -> CallIndirect, function-typed inputs, rows of
        # sums / tuples, Noop / MakeTuple completed from wires, non-local wires of function type
        rq_roots = ["module", "dfg", "module", "loop", "module", "cfg", "module", "cond", "module", "func"]
        for i in range(32 if tier == "quick" else 450):
            allow = (["nested", "cond", "loop", "order", "md", "insert"] if rq_roots[i % 10] in ("dfg", "loop", "cond") and i % 20 < 10
                     else ["nested", "cond", "loop", "cfg", "call", "order", "md", "insert", "poly", "localfn"])
            if i % 4 == 3:
                allow = allow + ["fnval"]      # function constants: their types keep the empty requirement set
            cases.append({"seed": rng.randrange(1 << 30), "root": rq_roots[i % 10], "reqs": rng.randrange(1 << 30),
                          "allow": allow + ["hof"], "size": rng.choice([4, 6, 8]), "depth": rng.choice([2, 3])})
        # the programs of the extended stream are the most expensive to evaluate in Coq (large inserted / looping documents):
        # they are EVALUATED first (same draws, same seeds) so that their shards do not form the tail of the parallel run
        return ext + cases

    def program(self, case):
        if "named" in case:
            return NAMED[case["named"]]
        if "prog" in case:
            return case["prog"]
        kw = {}
        if case.get("size") is not None:
            kw["size"] = case["size"]
        if case.get("depth") is not None:
            kw["max_depth"] = case["depth"]
        if case.get("allow") is not None:
            kw["allow"] = tuple(case["allow"])
        p = progs.gen_program(random.Random(case["seed"]), case.get("root"), **kw)
        if case.get("nearmiss") is not None:
            # a program without a site for an inconsistency is replaced by the next seeds' (deterministic in the case)
            for t in range(8):
                q = p if t == 0 else progs.gen_program(random.Random(case["seed"] + t), case.get("root"), **kw)
                q, how = near_miss(q, random.Random(case["nearmiss"] + t))
                if how is not None:
                    return {**q, "_near_miss": how}
        if case.get("oneshot") is not None:
            p = {**p, "oneshot": case["oneshot"]}
        if case.get("reqs") is not None:
            # function types with non-empty runtime requirements (progs.with_reqs: a type-equality-preserving rewrite)
            p = progs.with_reqs(p, case["reqs"])
        return p

    def observe(self, case, ctx):
        p = self.program(case)
        try:
            d1, d2 = build_docs(p)
        except ConvError:
            raise
        except Exception as e:
            return {"error": type(e).__name__, "msg": str(e)[:200], "prog": p, "near_miss": p.get("_near_miss")}
        if len(d1["nodes"]) > self.MAX_NODES and "seed" in case and case.get("size") is None:
            # keep the Coq evaluation within the budget: regenerate the same seed with a smaller size
            return self.observe({**case, "size": 3, "depth": 2}, ctx)
        same = strip_doc(d1) == strip_doc(d2)
        fv, fmsg = fake_verdict(d1)
        o = {"doc": strip_doc(d1), "same": same, "fake": fv, "fake_msg": fmsg, "prog": p,
             "near_miss": p.get("_near_miss"),
             "eff": {k: case[k] for k in ("size", "depth") if k in case}}
        if not same:
            # the property promises that what is serialised is valid, through to_json and through the package envelope;
            # it does not promise that the two documents are the same text: the envelope's document is validated too
            o["doc2"] = strip_doc(d2)
        return o

    def literal(self, case, obs, ctx):
        if "error" in obs and obs.get("near_miss"):
            # a near-miss program (one inconsistency the builders document as an error) and a builder call raised:
            # outside the property ("whenever no builder call raises"); counted in the distribution
            return "(CSkip)"
        if "error" in obs:
            # the builders raised on a program the generator believes well formed: not a validity question;
            # reported by extra() as a generator/builder problem
            ctx.__dict__.setdefault("c01_raised", []).append({"case": case, "error": obs["error"], "msg": obs["msg"]})
            return "(CSkip)"
        c = conv_doc(obs["doc"])
        obs["_conv"] = c
        if obs["fake"] is not None:
            pass
        lit = None
        if obs.get("near_miss"):
            lit = gapp("CDoc", gvhugr(c), "true", gbool(obs["fake"]))
        if lit is None and obs["prog"]["root"] == "dfg":
            try:
                pl = conv_prog(obs["prog"], c["tab"])      # may intern further types: before the table is printed
                lit = gapp("CProg", pl, gvhugr(c), "true", gbool(obs["fake"]))
                obs["in_model"] = True
                obs["in_model2"] = True                     # by conservativity (C01_builder2_conservative)
                ctx.__dict__.setdefault("c01_prem", []).append((case, gapp("CPrem", gtab(c["tab"]), pl)))
            except OutOfModel as e:
                obs["out_of_model"] = str(e)
        if lit is None and obs["prog"]["root"] in ("dfg", "loop", "cond"):
            # the extended builder model (model/Builder2.v): TailLoop, Conditional, insert_*, CallIndirect
            try:
                pl2 = conv_prog2(obs["prog"], c["tab"])
                lit = gapp("CProg2", pl2, gvhugr(c), "true", gbool(obs["fake"]))
                obs["in_model2"] = True
                ctx.__dict__.setdefault("c01_prem", []).append((case, gapp("CPrem2", gtab(c["tab"]), pl2)))
                obs.pop("out_of_model", None)
            except OutOfModel as e:
                obs["out_of_model2"] = str(e)
        if lit is None and obs["prog"]["root"] in ("dfg", "loop", "cond", "func", "module", "cfg"):
            # the third builder model (model/Builder3.v): functions, modules, control-flow graphs
            try:
                pl3, subs3 = conv_prog3(obs["prog"], c["tab"])  # may intern further types / signatures: before the tables are printed
                lit = gapp("CProg3", gsigs(c["tab"]), pl3, subs3, gvhugr(c), "true", gbool(obs["fake"]))
                obs["in_model3"] = True
                # the premise of C01_builder3_child_tags (spec/Builder3S.v: croot3s) on the program alone
                ctx.__dict__.setdefault("c01_prem", []).append((case, gapp("CPrem3", pl3, subs3)))
            except OutOfModel as e:
                obs["out_of_model3"] = str(e)
        if lit is None:
            lit = gapp("CDoc", gvhugr(c), "true", gbool(obs["fake"]))
        ctx.__dict__.setdefault("c01_fake", []).append((case, obs["fake"], obs["fake_msg"], lit if not obs["fake"] else None))
        if obs.get("doc2") is not None:
            lit = gapp("CBoth", lit, gvhugr(conv_doc(obs["doc2"])))
        return lit

    def nontrivial(self, case, obs):
        if "doc" not in obs:
            return False
        d = obs["doc"]
        par = [n["parent"] for n in d["nodes"]]
        depth2 = any(par[par[i]] != 0 and par[i] != 0 for i in range(len(par)))
        nonlocal_ = any(par[e[0][0]] != par[e[1][0]] for e in d["edges"])
        return depth2 and nonlocal_

    def describe(self, case, obs):
        o = {k: v for k, v in obs.items() if k not in ("prog", "_conv", "doc", "doc2")}
        if obs.get("doc2") is not None:
            o["envelope_document_differs"] = True
        if "doc" in obs:
            o["nodes"] = len(obs["doc"]["nodes"])
            o["edges"] = len(obs["doc"]["edges"])
            if not obs.get("fake", True) or obs.get("_show_doc"):
                o["doc"] = obs["doc"]
                if obs.get("doc2") is not None:
                    o["envelope_doc"] = obs["doc2"]
        return {"input": case, "program": obs.get("prog"), "observed": o}

    def signature(self, case, obs, ctx):
        if "doc" not in obs:
            return "build:raises:" + obs.get("error", "?")
        fr = failing_rules_of(ctx, obs)
        if not fr and obs.get("doc2") is not None:
            fr2 = failing_rules_of(ctx, {"doc": obs["doc2"]})
            if fr2:
                return "envelope:invalid:" + ",".join(RULE_NAMES[i] for i in fr2)
        if obs.get("fake"):
            ctx.stats.setdefault("model_drift", []).append({"case": case, "valid": False, "fake": True, "rules": fr})
        if fr and has_rowpoly_call(obs["doc"]):
            # D13: Call._function_port_offset / num_out read the polymorphic body; if moving the function edge of
            # every row-polymorphic call to the port after the instantiation's inputs makes the document valid,
            # the failure is exactly that defect
            rep = repair_rowpoly(obs["doc"])
            if rep is not None and not failing_rules_of(ctx, {"doc": rep}):
                return "call:row-polymorphic-port-offset"
        return "invalid:" + ",".join(RULE_NAMES[i] for i in fr) if fr else "invalid:unknown"

    def shrink(self, case):
        if "seed" in case:
            for size in (1, 2, 3, 4):
                if case.get("size") is None or size < case["size"]:
                    for depth in (1, 2, 3):
                        if case.get("depth") is None or depth <= case["depth"]:
                            yield {**case, "size": size, "depth": depth}

    def neighbours(self, case, rng):
        if "seed" in case:
            for k in range(40):
                yield {**case, "seed": case["seed"] + 1 + k}

    def distribution(self, cases, observations):
        d = {"roots": {}, "nodes": [], "stmt_kinds": {}, "nonlocal_edges": 0, "order_edges": 0, "fake_rejects": 0,
             "builders_raised": 0, "inside_builder_model": 0, "out_of_model": {},
             "inside_extended_model": 0, "inside_extended_model_by_root": {}, "out_of_extended_model": {}}
        d["near_miss"] = {"applied": 0, "refused_by_builders": 0, "accepted": 0, "kinds": {}, "refused_with": {}}
        for c, o in zip(cases, observations):
            if o.get("near_miss"):
                nm = d["near_miss"]
                nm["applied"] += 1
                kind = o["near_miss"]
                kk = nm["kinds"].setdefault(kind, [0, 0])          # [refused, accepted]
                if "doc" not in o:
                    nm["refused_by_builders"] += 1
                    kk[0] += 1
                    nm["refused_with"][o["error"]] = nm["refused_with"].get(o["error"], 0) + 1
                    continue
                nm["accepted"] += 1
                kk[1] += 1
            if "doc" not in o:
                d["builders_raised"] += 1
                continue
            p = o["prog"]
            d["roots"][p["root"]] = d["roots"].get(p["root"], 0) + 1
            d["nodes"].append(len(o["doc"]["nodes"]))
            par = [n["parent"] for n in o["doc"]["nodes"]]
            d["nonlocal_edges"] += sum(1 for e in o["doc"]["edges"] if par[e[0][0]] != par[e[1][0]])
            d["fake_rejects"] += not o["fake"]
            # diagnostic (not a verdict): the envelope's document is not literally the to_json document
            d["envelope_document_differs"] = d.get("envelope_document_differs", 0) + (not o["same"])
            d["inside_builder_model"] += bool(o.get("in_model"))
            if o.get("out_of_model"):
                d["out_of_model"][o["out_of_model"]] = d["out_of_model"].get(o["out_of_model"], 0) + 1
            br = d["inside_extended_model_by_root"].setdefault(p["root"], [0, 0])     # [inside, generated]
            br[1] += 1
            # the general stream alone (no `allow` restriction, not near-miss): how much of what the unrestricted generator
            # produces is inside the extended model
            gen = c.get("allow") is None and c.get("nearmiss") is None and "seed" in c
            if gen:
                bg = d.setdefault("inside_extended_model_general_stream_by_root", {}).setdefault(p["root"], [0, 0])
                bg[1] += 1
            if o.get("in_model2"):
                d["inside_extended_model"] += 1
                br[0] += 1
                if gen:
                    bg[0] += 1
            if o.get("out_of_model2"):
                d["out_of_extended_model"][o["out_of_model2"]] = d["out_of_extended_model"].get(o["out_of_model2"], 0) + 1
            # the third model (model/Builder3.v): functions, modules, control-flow graphs; a program inside the first or
            # the second model is inside the third by conservativity (C01_builder3_conservative)
            in3 = bool(o.get("in_model") or o.get("in_model2") or o.get("in_model3"))
            b3 = d.setdefault("inside_model3_by_root", {}).setdefault(p["root"], [0, 0])       # [inside, generated]
            b3[1] += 1
            b3[0] += in3
            d["inside_model3"] = d.get("inside_model3", 0) + in3
            if gen:
                g3 = d.setdefault("inside_model3_general_stream_by_root", {}).setdefault(p["root"], [0, 0])
                g3[1] += 1
                g3[0] += in3
            if o.get("out_of_model3"):
                d.setdefault("out_of_model3", {})
                d["out_of_model3"][o["out_of_model3"]] = d["out_of_model3"].get(o["out_of_model3"], 0) + 1
            for k, v in progs.kinds_of(p).items():
                d["stmt_kinds"][k] = d["stmt_kinds"].get(k, 0) + v
            if c.get("reqs") is not None or any(n["op"] == "FuncDecl" and n["signature"]["body"].get("runtime_reqs")
                                                for n in o["doc"]["nodes"]):
                rq = d.setdefault("runtime_reqs", {"programs": 0, "programs_with_requirement_types": 0,
                                                   "CallIndirect_of_type_with_requirements": 0,
                                                   "LoadFunction_of_type_with_requirements": 0,
                                                   "FuncDecl_with_requirements": 0, "Call_with_requirements": 0})
                rq["programs"] += 1
                rq["programs_with_requirement_types"] += bool(progs.fn_reqs_count(p))
                for n in o["doc"]["nodes"]:
                    if n["op"] == "CallIndirect" and n["signature"].get("runtime_reqs"):
                        rq["CallIndirect_of_type_with_requirements"] += 1
                    elif n["op"] == "LoadFunction" and n["instantiation"].get("runtime_reqs"):
                        rq["LoadFunction_of_type_with_requirements"] += 1
                    elif n["op"] == "FuncDecl" and n["signature"]["body"].get("runtime_reqs"):
                        rq["FuncDecl_with_requirements"] += 1
                    elif n["op"] == "Call" and n["instantiation"].get("runtime_reqs"):
                        rq["Call_with_requirements"] += 1
            if p.get("oneshot") is not None:
                os_ = d.setdefault("oneshot", {"programs": 0, "sum_constants": 0})
                os_["programs"] += 1
                os_["sum_constants"] += sum(json.dumps(p).count(x) for x in ('["sum", 0, ["sum", [[', '["sum", 1, ["sum", [[', '["left", ', '["right", '))
        ns = sorted(d["nodes"])
        d["nodes"] = {"min": ns[0], "median": ns[len(ns) // 2], "max": ns[-1]} if ns else {}
        return d

    # -- validation of the transcription: cross-check, negative stream, baseline documents
    def extra(self, ctx, tier):
        out = []
        # (a) programs on which the builders raised
        raised = ctx.__dict__.get("c01_raised", [])
        ctx.stats["builders_raised"] = len(raised)
        for r in raised[:3]:
            out.append(("generator-or-builder-raises", "a program believed well formed made a builder call raise "
                        + r["error"], {"failing_input": r["case"], "signature": "build:raises:" + r["error"], **r}))
        # (b) the 39 baseline builder tests' documents must be accepted
        docs = baseline_documents(ctx)
        ctx.stats["baseline_documents"] = len(docs)
        if len(docs) < 39:
            out.append(("baseline-capture", "fewer documents captured from the baseline builder tests than expected",
                        {"captured": len(docs)}))
        lits, convs = [], []
        for name, d in docs:
            c = conv_doc(strip_doc(d))
            convs.append((name, d, c))
            lits.append(gapp("CDoc", gvhugr(c), "true", "true"))
        res = fw.eval_cases(ctx.work, self.run_module, lits, shard=8, checks=("mon",), tag="baseline")
        for i in res["mon"][:3]:
            name, d, c = convs[i]
            out.append(("baseline-document-rejected", "valid rejects a document upstream CI accepts: the transcription "
                        "is wrong", {"test_document": name, "fake": fake_verdict(strip_doc(d)), "doc": strip_doc(d)}))
        # (c) negative stream: each rule violated once by mutation must be rejected by that rule's boolean
        rng = random.Random(ctx.seed * 7919 + 1)
        pool = []
        for k in range(40 if tier == "quick" else 160):
            root = [None, "cfg", "module", "dfg", "cfg", "loop"][k % 6]
            p = progs.gen_program(random.Random(rng.randrange(1 << 30)), root, size=4, max_depth=2)
            try:
                d1, _ = build_docs(p)
            except Exception:
                continue
            if len(d1["nodes"]) <= 120 and fake_verdict(d1)[0]:
                pool.append(conv_doc(strip_doc(d1)))
        for n in NEG_NAMED:
            d1, _ = build_docs(NAMED[n])
            pool.append(conv_doc(strip_doc(d1)))
        per_rule = 3 if tier == "quick" else 10
        neg, meta, missing = [], [], []
        for rule in range(18):
            got = 0
            order = list(range(len(pool)))
            rng.shuffle(order)
            for pi in order:
                m = mutate(pool[pi], rule, rng)
                if m is not None:
                    neg.append(gapp("CNeg", gvhugr(m), gN(rule)))
                    meta.append((rule, pi))
                    got += 1
                    if got >= per_rule:
                        break
            if got == 0:
                missing.append(RULE_NAMES[rule])
        ctx.stats["negative_cases"] = len(neg)
        ctx.stats["negative_rules_not_exercised"] = missing
        if missing:
            out.append(("negative-stream-incomplete", "no applicable mutation found for rules " + ",".join(missing), {}))
        res = fw.eval_cases(ctx.work, self.run_module, neg, shard=10, checks=("mon",), tag="neg")
        for i in res["mon"][:3]:
            out.append(("mutation-not-rejected", "a document with rule `%s` violated by mutation is not rejected by "
                        "that rule" % RULE_NAMES[meta[i][0]], {"rule": RULE_NAMES[meta[i][0]]}))
        # (e) the decidable premises of the theorems of props/C01.v (spec/BuilderWFS.v) hold of every in-model program
        # the correspondence was sampled on: otherwise the theorems do not speak about the tested programs
        pr = ctx.__dict__.get("c01_prem", [])
        ctx.stats["premise_checked_programs"] = len(pr)
        ctx.stats["premise_checked_programs_model3"] = sum(1 for x in pr if x[1].startswith("(CPrem3 "))
        if pr:
            res = fw.eval_cases(ctx.work, self.run_module, [x[1] for x in pr], shard=60,
                                checks=("prem", "prem_ord", "prem_lin"), tag="prem")
            ctx.stats["premise_failures"] = len(res["prem"])
            # which of the liveness-aware premises (spec/Builder2LiveS.v: ord_prog2, lin_prog2) fail, if any
            ctx.stats["premise_failures_ord_prog2"] = len(res["prem_ord"])
            ctx.stats["premise_failures_lin_prog2"] = len(res["prem_lin"])
            for i in res["prem"][:3]:
                out.append(("premise-not-met", "an in-model program the generator believes well formed does not satisfy "
                            "the well-formedness premises (wt_prog ...) of the theorems of props/C01.v",
                            {"failing_input": pr[i][0], "signature": "premise:not-met", "program": self.program(pr[i][0])}))
        # (d) agreement with the design-time transcription on the generated documents (model drift, not a verdict)
        fk = ctx.__dict__.get("c01_fake", [])
        ctx.stats["fake_rejected_generated"] = sum(1 for x in fk if not x[1])
        rej = [x for x in fk if not x[1]]
        if rej:
            res = fw.eval_cases(ctx.work, self.run_module, [x[3] for x in rej], shard=self.shard, checks=("agree",), tag="agree")
            for i in res["agree"]:
                ctx.stats.setdefault("model_drift", []).append({"case": rej[i][0], "valid": True, "fake": False, "fake_msg": rej[i][2]})
        ctx.stats.setdefault("model_drift", [])
        return out


def has_rowpoly_call(doc):
    for n in doc["nodes"]:
        if n["op"] in ("Call", "LoadFunction"):
            if any(p.get("tp") == "List" for p in n["func_sig"]["params"]):
                return True
    return False


def repair_rowpoly(doc):
    doc = json.loads(json.dumps(doc))
    changed = False
    for i, n in enumerate(doc["nodes"]):
        if n["op"] == "Call" and any(p.get("tp") == "List" for p in n["func_sig"]["params"]):
            want = len(n["instantiation"]["input"])
            for e in doc["edges"]:
                if e[1][0] == i and doc["nodes"][e[0][0]]["op"] in ("FuncDecl", "FuncDefn") and e[1][1] != want:
                    e[1][1] = want
                    changed = True
    return doc if changed else None


def failing_rules_of(ctx, obs):
    """asks Coq which rules fail (used only to classify a failure)"""
    c = obs.get("_conv") or conv_doc(obs["doc"])
    src = ("From Coq Require Import List ZArith NArith Bool.\nImport ListNotations.\n"
           "From HV Require Import lib.Harness run.C01Run.\n"
           "Eval vm_compute in (failing_rules %s).\n" % gvhugr(c))
    path = os.path.join(ctx.work, "rules_%s.v" % fw.case_hash(obs["doc"]))
    open(path, "w").write(src)
    rc, out = fw.run_coqc(path)
    if rc != 0:
        return []
    import re
    m = re.search(r"=\s*\[([^\]]*)\]", out)
    return [int(x) for x in re.findall(r"\d+", m.group(1))] if m else []


RECORDER = """#!/venv/bin/python
import os, sys, hashlib
d = os.environ["C01_RECORD_DIR"]
data = sys.stdin.buffer.read()
args = sys.argv[1:]
if args and args[0] == "validate":
    n = len(os.listdir(d))
    with open(os.path.join(d, "%04d_%s.%s" % (n, hashlib.sha1(data).hexdigest()[:10],
                                               "json" if "--hugr-json" in args else "bin")), "wb") as f:
        f.write(data)
sys.exit(0)
"""


def baseline_documents(ctx):
    """runs the repo's own test suite with HUGR_BIN pointing at a recording script (tests/conftest.py::validate);
    returns the documents the builder tests hand to the validator"""
    rec_dir = os.path.join(ctx.work, "baseline_docs")
    os.makedirs(rec_dir, exist_ok=True)
    rec = os.path.join(ctx.work, "record_hugr.py")
    with open(rec, "w") as f:
        f.write(RECORDER)
    os.chmod(rec, 0o755)
    env = dict(os.environ)
    env.update({"HUGR_BIN": rec, "C01_RECORD_DIR": rec_dir,
                "PYTHONPATH": os.path.join(fw.REPO, "hugr-py", "src") + ":" + os.path.join(fw.VERIF, "proto", "fakehugr")})
    p = subprocess.run(["/venv/bin/python", "-m", "pytest", "-q", "-x", "-p", "no:cacheprovider", "-p", "snapstub",
                        "--timeout=600", "-n", "0", "tests"] if False else
                       ["/venv/bin/python", "-m", "pytest", "-q", "-p", "no:cacheprovider", "-p", "snapstub",
                        "--timeout=600", "tests"],
                       cwd=os.path.join(fw.REPO, "hugr-py"), env=env, stdout=subprocess.PIPE, stderr=subprocess.STDOUT,
                       text=True, timeout=900)
    ctx.notes.append("baseline suite under the recorder: " + p.stdout.strip().splitlines()[-1][:120])
    docs = []
    for fn in sorted(os.listdir(rec_dir)):
        data = open(os.path.join(rec_dir, fn), "rb").read()
        if fn.endswith(".json"):
            docs.append((fn, json.loads(data)))
        else:
            for k, m in enumerate(decode_envelope(data)["modules"]):
                docs.append((fn + "#%d" % k, m))
    return docs


# ----------------------------------------------------------------------------- named programs (corpus)

NAMED = {
    # D7 (fixed, 4bb9209 / 60114de): a multi-output op whose last output is unused feeds a nested region: the order
    # edge must sit after all value ports
    "divmod_partial_ext": {
        "root": "dfg", "ins": ["I", "I"],
        "body": {"ins": [1, 2], "stmts": [
            {"k": "op", "op": ["divmod"], "args": [1, 2], "id": 1, "outs": [3, 4], "via": "add_op"},
            {"k": "nested", "args": [], "in_tys": [], "insert": False, "id": 2, "outs": [6],
             "body": {"ins": [], "stmts": [{"k": "op", "op": ["noop", None], "args": [3], "id": 3, "outs": [5], "via": "add_op"}],
                      "outs": [5], "out_tys": ["I"], "defs": []}}],
            "outs": [6], "out_tys": ["I"], "defs": []}},
    # D7: LoadConst feeding a nested region only
    "loadconst_ext": {
        "root": "dfg", "ins": [],
        "body": {"ins": [], "stmts": [
            {"k": "load", "val": ["true"], "const_parent": "here", "id": 1, "outs": [1]},
            {"k": "nested", "args": [], "in_tys": [], "insert": False, "id": 2, "outs": [3],
             "body": {"ins": [], "stmts": [{"k": "op", "op": ["not"], "args": [1], "id": 3, "outs": [2], "via": "add"}],
                      "outs": [2], "out_tys": ["B"], "defs": []}}],
            "outs": [3], "out_tys": ["B"], "defs": []}},
    # D13 (known until the C06 fix lands): call of a row-polymorphic declaration with a non-empty row
    "rowpoly_call": {
        "root": "module", "consts": [], "funcs": [
            {"name": "rowpoly0", "params": [["list", ["type", "C"]]], "ins": [["rowvar"]], "outs": [["rowvar"]],
             "poly": "row", "decl": True, "rowvar": True},
            {"name": "main", "ins": ["B", "I"], "outs": ["B", "I"],
             "body": {"ins": [1, 2], "stmts": [
                 {"k": "call", "func": "rowpoly0", "args": [1, 2], "inst": ["fn", ["B", "I"], ["B", "I"]],
                  "targs": [["seq", [["type", "B"], ["type", "I"]]]], "id": 1, "outs": [3, 4]}],
                 "outs": [3, 4], "out_tys": ["B", "I"], "defs": []}}]},
    # a function defined inside a dataflow region (used by the negative stream: value edge into a function body)
    "localfn": {
        "root": "dfg", "ins": ["B"],
        "body": {"ins": [1], "stmts": [
            {"k": "localfn", "name": "local1", "ins": ["B"], "declare": True, "id": 1,
             "body": {"ins": [2], "stmts": [{"k": "op", "op": ["not"], "args": [2], "id": 2, "outs": [3], "via": "add_op"}],
                      "outs": [3], "out_tys": ["B"], "defs": []}},
            {"k": "op", "op": ["not"], "args": [1], "id": 4, "outs": [5], "via": "add_op"},
            {"k": "call", "func": "local1", "args": [5], "inst": None, "targs": None, "id": 3, "outs": [4]}],
            "outs": [4], "out_tys": ["B"], "defs": []}},
}
# seeded change C01-b (missed before the tracked builder was in the stream): a command with an explicit wire BEFORE a
# tracked index, of different types: op(wire: Bool, idx: Qubit); the index must be re-pointed at output 1, then used
NAMED["tracked_wire_before_index"] = {
    "root": "tdfg", "ins": ["B", "Q"], "in_wires": [1, 2], "track_inputs": False, "track_these": [2],
    "stmts": [
        {"k": "tadd", "op": ["custom", "cflip", ["B", "Q"], ["B", "Q"]], "args": [["w", 1], ["i", 0]], "outs": [3, None],
         "via": "add", "id": 1},
        {"k": "tadd", "op": ["custom", "h", ["Q"], ["Q"]], "args": [["i", 0]], "outs": [None], "via": "add", "id": 2},
        {"k": "tout", "mode": "indexed", "args": [["w", 3], ["i", 0]], "id": 3}]}
# seeded change C01-f (missed before the near-miss stream): Conditional._update_outputs with a truthiness test: the first
# finished case records an EMPTY output row, a later case sets a non-empty one.  hugr-py has to refuse the second case
# (ConditionalError: outside the property); if every call is accepted the document has to be valid
NAMED["cond_empty_then_nonempty"] = {
    "root": "dfg", "ins": ["B", "B"], "_near_miss": "cond:add:later",
    "body": {"ins": [1, 2], "stmts": [
        {"k": "cond", "cond": 1, "args": [2], "style": "cases", "order": [0, 1], "sum_ty": "B", "other_tys": ["B"], "id": 1,
         "outs": [], "cases": [
             {"ins": [3], "stmts": [], "outs": [], "out_tys": [], "defs": []},
             {"ins": [4], "stmts": [], "outs": [4], "out_tys": ["B"], "defs": []}]}],
        "outs": [], "out_tys": [], "defs": []}}
# seeded change C01-h (missed before the one-shot stream): val.Left / val.Right iterating `vals` twice.  The values are
# handed over as generators ("oneshot": "gen"): the constants must still hold one value per element of the tagged row
NAMED["oneshot_left_right_consts"] = {
    "root": "dfg", "ins": ["B"], "oneshot": "gen",
    "body": {"ins": [1], "stmts": [
        {"k": "loop", "just": [1], "rest": [], "insert": False, "just_tys": ["B"], "rest_tys": [], "id": 1, "outs": [4, 5],
         "body": {"ins": [2], "stmts": [
             {"k": "load", "val": ["right", ["B"], [["true"], ["false"]]], "const_parent": "here", "id": 2, "outs": [3]}],
             "outs": [3], "out_tys": [["sum", [["B"], ["B", "B"]]]], "defs": []}},
        {"k": "load", "val": ["left", [["tuple", [["true"]]], ["unit"]], ["F"]], "const_parent": "here", "id": 3, "outs": [6]}],
        "outs": [4, 5, 6], "out_tys": ["B", "B", ["sum", [[["tup", ["B"]], "U"], ["F"]]]], "defs": []}}
# seeded change C01-i (missed before the runtime-requirements stream): CallIndirect._set_in_types rebuilding the
# signature from the wired arguments and dropping the function type's runtime_reqs: the function port of the CallIndirect
# then declares another type than the LoadFunction / Input feeding it (identical type at both ends of every edge)
NAMED["callind_decl_runtime_reqs"] = {
    "root": "module", "consts": [], "funcs": [
        {"name": "decl0", "ins": ["B"], "outs": ["B"], "decl": True, "reqs": ["prelude"]},
        {"name": "main", "ins": ["B", "B"], "outs": ["B"],
         "body": {"ins": [1, 4], "stmts": [
             {"k": "loadfn", "func": "decl0", "inst": None, "targs": None, "id": 1, "outs": [2]},
             {"k": "op", "op": ["callind"], "args": [2, 1], "id": 2, "outs": [3], "via": "add"}],
             "outs": [3], "out_tys": ["B"], "defs": []}}]}
# the same through a function-typed input of a Dfg (inside the extended builder model: `corr` ties the model's
# CallIndirect, whose function port has the type of the wire, to the document), requirement set of two names given
# in non-sorted order, the value also copied through a partial Noop and into a nested region (non-local edge)
NAMED["callind_input_runtime_reqs"] = {
    "root": "dfg", "ins": [["fn", ["B"], ["B"], ["prelude", "arithmetic.int"]], "B"],
    "body": {"ins": [1, 2], "stmts": [
        {"k": "op", "op": ["noop", None], "args": [1], "id": 1, "outs": [3], "via": "add_op"},
        {"k": "op", "op": ["callind"], "args": [3, 2], "id": 2, "outs": [4], "via": "add_op"},
        {"k": "nested", "args": [4], "in_tys": ["B"], "insert": False, "id": 3, "outs": [7],
         "body": {"ins": [5], "stmts": [
             {"k": "op", "op": ["callind"], "args": [1, 5], "id": 4, "outs": [6], "via": "add"}],
             "outs": [6], "out_tys": ["B"], "defs": []}}],
        "outs": [7], "out_tys": ["B"], "defs": []}}
NEG_NAMED = ["localfn", "divmod_partial_ext"]

PROP = C01()
