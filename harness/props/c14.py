"""C14 — constants inhabit the type they report
(model: coq/model/Values.v, spec: coq/spec/ValuesS.v, proofs: coq/proofs/ValuesP.v)."""
import json
import os

import fw
from fw import glist, gopt, gapp, gbool, gnat
import tyval_c07c14 as tv
from props.c07 import translate_std_bounds


def wf_desc(v) -> bool:
    """Generator-side bookkeeping only (evidence statistics): was the description produced as well typed."""
    return True


# ----------------------------------------------------------------------------- histories (seeded round 2)
# A case of kind "seq" is a history on ONE Const node and ONE leaf value object:
#   {"kind": "seq", "steps": [{"leaf": val-desc, "ctx": [layer..], "lchg": how the leaf object reaches this
#     description, "host": how the Const node comes to hold the root value [, "stub": outs]}, ...]}
# lchg: "fresh" (built anew) | "same" (untouched) | "mut" (the live object is changed in place through public
#   attributes) | "finish" (a function body stubbed with set_outputs() is completed with set_outputs(*wires))
# host: "new" (add_const: a new node) | "newhugr" (add_const in a fresh outer Dfg) | "val" (hugr[c].op.val = v)
#   | "op" (hugr[c].op = Const(v)) | "keep" (nothing: the node holds the very object that was changed in place)
# ctx: wrappers rebuilt around the live leaf object at every moment (their own types are computed at construction,
#   so a wrapper does not outlive a change of what it holds), innermost first:
#   ["tuple", pre, post] ["some", pre] ["left", post, rtys] ["right", ltys, pre] ["sum", tag, other_rows]
#   ["array", n] ["list", n] ["sarray", n, name] ["infunc", kind, reqs] (loaded inside another function value)
# After every step the whole observation of a `val` case is taken again on the SAME node (type_(), serial form,
# static port kind, a NEW load(node), the graph document).
MUT_KINDS = ("func", "int", "float", "string", "list", "sarray", "sum", "unitsum", "ext")


def wrap_desc(layer, d):
    k, t = layer[0], tv.val_type_desc(d)
    if k == "tuple":
        return ["tuple", layer[1] + [d] + layer[2]]
    if k == "some":
        return ["some", layer[1] + [d]]
    if k == "left":
        return ["left", [d] + layer[1], layer[2]]
    if k == "right":
        return ["right", layer[1], layer[2] + [d]]
    if k == "sum":
        rows = [list(r) for r in layer[2]]
        rows.insert(layer[1], [t])
        return ["sum", layer[1], ["sum", rows], [d]]
    if k == "array":
        return ["array", [d] * layer[1], t]
    if k == "list" or (k == "sarray" and not tv.desc_copyable(t)):
        return ["list", [d] * layer[1], t]
    if k == "sarray":
        return ["sarray", [d] * layer[1], t, layer[2]]
    if k == "infunc":
        return ["func", layer[1], [["bool"]], [["const", d], ["in", 0]]] + ([layer[2]] if layer[1] == "dfgx" else [])
    raise ValueError(layer)


def wrap_obj(layer, d, o):
    """The wrapper of wrap_desc(layer, d) built around the live object o (which d describes)."""
    from hugr import val, ops
    from hugr.build.dfg import Dfg, DfBase
    k = layer[0]
    B, T = tv.build_val, tv.build_ty
    w = wrap_desc(layer, d)
    if k == "tuple":
        return val.Tuple(*[B(x) for x in layer[1]], o, *[B(x) for x in layer[2]])
    if k == "some":
        return val.Some(*[B(x) for x in layer[1]], o)
    if k == "left":
        return val.Left([o] + [B(x) for x in layer[1]], [T(x) for x in layer[2]])
    if k == "right":
        return val.Right([T(x) for x in layer[1]], [B(x) for x in layer[2]] + [o])
    if k == "sum":
        return val.Sum(w[1], T(w[2]), [o])
    if w[0] == "array":
        from hugr.std.collections.array import ArrayVal
        return ArrayVal([o] * layer[1], T(w[2]))
    if w[0] == "list":
        from hugr.std.collections.list import ListVal
        return ListVal([o] * layer[1], T(w[2]))
    if w[0] == "sarray":
        from hugr.std.collections.static_array import StaticArrayVal
        return StaticArrayVal([o] * layer[1], T(w[2]), w[3])
    if k == "infunc":
        b = DfBase(ops.DFG([T(["bool"])], None, list(layer[2]))) if layer[1] == "dfgx" else Dfg(T(["bool"]))
        b.set_outputs(b.load(o), b.inputs()[0])
        return val.Function(b.hugr)
    raise ValueError(layer)


def step_desc(step):
    d = step["leaf"]
    for layer in step.get("ctx", []):
        d = wrap_desc(layer, d)
    return d


def build_stub(d, outs):
    """The function described by d (outputs []) as a builder whose outputs are still to be set to `outs`:
    (value, builder, wires)."""
    from hugr import val, ops
    from hugr.build.dfg import Dfg, DfBase
    kind, ins, reqs = d[1], d[2], tv.func_reqs(d)
    tin = [tv.build_ty(t) for t in ins]
    b = DfBase(ops.DFG(tin, None, list(reqs))) if kind == "dfgx" else Dfg(*tin)
    wires = list(b.inputs())
    res = [wires[o[1]] if o[0] == "in" else b.load(tv.build_val(o[1])) for o in outs]
    b.set_outputs()                                     # stub: ins -> ()
    return val.Function(b.hugr), b, res


def mut_compatible(a, d) -> bool:
    """Can a live object described by a be turned into one described by d through public attributes, with every
    field the classes compute at construction kept consistent?"""
    if a[0] != d[0] or a[0] not in MUT_KINDS or (a[0] == "bool"):
        return False
    if a[0] in ("list", "sarray"):
        return a[2] == d[2]
    return True


def mutate(o, a, d):
    from hugr import tys
    B, T = tv.build_val, tv.build_ty
    k = d[0]
    if k == "func":
        o.body = tv.build_func_body(d[1], d[2], d[3], tv.func_reqs(d))
    elif k == "int":
        o.v, o.width = d[1], d[2]
    elif k in ("float", "string"):
        o.v = d[1]
    elif k in ("list", "sarray"):
        if len(d[1]) > len(a[1]) and d[1][:len(a[1])] == a[1]:
            for x in d[1][len(a[1]):]:
                o.v.append(B(x))                         # one more entry, in place
        else:
            o.v = [B(x) for x in d[1]]
        if k == "sarray":
            o.name = d[3]
    elif k == "sum":
        o.tag, o.typ, o.vals = d[1], T(d[2]), [B(x) for x in d[3]]
    elif k == "unitsum":
        o.tag = d[1]
        if d[2] != a[2]:
            o.typ = tys.UnitSum(d[2])
    elif k == "ext":
        o.name, o.typ, o.extensions = d[1], T(d[2]), list(d[3])
    else:
        raise ValueError(d)


def serial_of(v):
    """The serialized form of a constant as a JSON tree: `_to_serial_root()` when the value offers it, else the
    `v` of the Const node of a one-node graph document (the public route)."""
    f = getattr(v, "_to_serial_root", None)
    if f is not None:
        return f().model_dump(mode="json")
    from hugr.build.dfg import Dfg
    d = Dfg()
    d.set_outputs()
    d.add_const(v)
    cvs = [n["v"] for n in json.loads(d.hugr.to_json())["nodes"] if n["op"] == "Const"]
    if len(cvs) != 1:
        raise TypeError("serialised graph does not hold the Const node")
    return cvs[0]


def doc_pos(h, nodes):
    """Positions of nodes in the graph document: live nodes are written in iteration order."""
    order = list(h)
    return [order.index(x) for x in nodes]


def observe_moment(dfg, c, v):
    """What a `val` case observes, on the live node c of the live outer graph.  The observation is about the value
    the node holds (whether the node keeps the caller's object or a copy of it is not the property's business)."""
    from hugr import tys, ops
    h = dfg.hugr
    if isinstance(h[c].op, ops.Const) and h[c].op.val is not v:
        h[c].op.val = v
    if isinstance(h[c].op, ops.Const):
        v = h[c].op.val
    obs = {"built": True, "type": v.type_()}
    try:
        obs["serial"] = serial_of(v)
    except Exception as e:
        obs["serial_exc"] = type(e).__name__
    try:
        l1 = dfg.load(v)
        c1 = next(iter(h.linked_ports(l1.inp(0)))).node
        l2 = dfg.load(c)                                    # a NEW LoadConst for the node that lived through the history
        ports, nin, linked = [], 0, True
        for cn, l in ((c1, l1), (c, l2)):
            if not isinstance(h[cn].op, ops.Const) or not isinstance(h[l].op, ops.LoadConst):
                raise TypeError("load did not build Const / LoadConst")
            kc, ki, ko = h.port_kind(cn.out(0)), h.port_kind(l.inp(0)), h.port_kind(l.out(0))
            if not (isinstance(kc, tys.ConstKind) and isinstance(ki, tys.ConstKind) and isinstance(ko, tys.ValueKind)):
                raise TypeError("unexpected port kinds")
            sig = h[l].op.outer_signature()
            if len(sig.output) != 1:
                raise TypeError("LoadConst with %d outputs" % len(sig.output))
            ports += [kc.ty, ki.ty, ko.ty, sig.output[0], h[l].op.type_]
            nin += len(sig.input)
            linked = linked and h.has_link(cn.out(0), l.inp(0))
        doc = json.loads(h.to_json())
        nodes = doc["nodes"]
        pc1, pc, pl1, pl2 = doc_pos(h, [c1, c, l1, l2])
        if [nodes[x]["op"] for x in (pc1, pc, pl1, pl2)] != ["Const", "Const", "LoadConstant", "LoadConstant"]:
            raise TypeError("serialised graph does not hold the Const / LoadConstant nodes at their positions")
        obs["ports"] = ports
        obs["datatypes"] = [nodes[pl1]["datatype"], nodes[pl2]["datatype"]]
        # the serialized forms the graph document holds for the Const nodes: judged like the value's own
        obs["docs"] = [tv.jval(nodes[x]["v"]) for x in (pc1, pc)]
        obs["nin"], obs["linked"] = nin, bool(linked)
    except Exception as e:
        obs["ports_exc"] = type(e).__name__
    return obs


def observe_seq(case):
    from hugr import ops
    from hugr.build.dfg import Dfg
    moments, did = [], []
    dfg = c = leaf = root = None
    pending = None                                        # (builder, wires, finished description) of a live stub
    prev = None
    for i, st in enumerate(case["steps"]):
        d, ctx = st["leaf"], st.get("ctx", [])
        try:
            lchg = st.get("lchg", "fresh")
            if i == 0 or leaf is None:
                lchg = "fresh"
            elif lchg == "finish" and not (pending and pending[2] == d):
                lchg = "fresh"
            elif lchg == "mut" and not mut_compatible(prev["leaf"], d):
                lchg = "fresh"
            elif lchg == "same" and prev["leaf"] != d:
                lchg = "fresh"
            old_leaf, old_root = leaf, root
            if lchg == "fresh":
                pending = None
                if st.get("stub") is not None and d[0] == "func" and d[1] in ("dfg", "dfgx") and d[3] == []:
                    leaf, b, res = build_stub(d, st["stub"])
                    pending = (b, res, d[:3] + [st["stub"]] + d[4:])
                else:
                    leaf = tv.build_val(d)
            elif lchg == "finish":
                pending[0].set_outputs(*pending[1])
                pending = None
            elif lchg == "mut":
                pending = None
                mutate(leaf, prev["leaf"], d)
            root, dd = leaf, d
            for layer in ctx:
                root, dd = wrap_obj(layer, dd, root), wrap_desc(layer, dd)
            host = st.get("host", "val")
            if i == 0 or c is None:
                host = "newhugr"
            elif host == "keep" and not (root is old_root):
                host = "val"
            if host == "newhugr":
                dfg = Dfg()
                dfg.set_outputs()                           # the outer graph is serialised at every moment
                c = dfg.add_const(root)
            elif host == "new":
                c = dfg.add_const(root)
            elif host == "val":
                dfg.hugr[c].op.val = root
            elif host == "op":
                dfg.hugr[c].op = ops.Const(root)
            did.append([lchg, host])
            moments.append(observe_moment(dfg, c, root))
        except Exception as e:
            did.append(["raised", type(e).__name__])
            moments.append({"built": False, "exc": type(e).__name__})
            leaf = root = c = None
            pending = None
        prev = st
    return {"built": True, "moments": moments, "did": did}



def more_exts(sv) -> int:
    """Number of std constants in a serial value whose `extensions` list names more than one extension."""
    if not isinstance(sv, dict):
        return 0
    n = 0
    if sv.get("v") == "Extension":
        p = sv["value"]["v"]
        shape = {"ConstInt": {"log_width", "value"}, "ConstF64": {"value"}, "ConstString": {"value"},
                 "ArrayValue": {"values", "typ"}, "ListValue": {"values", "typ"},
                 "StaticArrayValue": {"value", "name"}}.get(sv["value"]["c"])
        # (a raw val.Extension that borrows a std constant's name over an opaque payload is not a std constant)
        n += isinstance(p, dict) and set(p) == shape and len(set(sv["extensions"])) > 1
        inner = p.get("value", p) if isinstance(p, dict) else {}
        for x in (inner.get("values", []) if isinstance(inner, dict) else []):
            n += more_exts(x)
    for x in sv.get("vs", []):
        n += more_exts(x)
    return n


def has_loaded(d) -> bool:
    return (d[0] == "func" and d[1] == "load") or any(has_loaded(c) for c in tv.child_vals(d))


def rand_layer(rng, d):
    sib = lambda: [tv.rand_val(rng, 1) for _ in range(rng.choice([0, 0, 1, 2]))]
    trow = lambda: [tv.rand_ty(rng, 1, False) for _ in range(rng.choice([0, 1]))]
    k = rng.choice(["tuple", "tuple", "some", "left", "right", "sum", "array", "array", "list", "sarray", "infunc"])
    if k == "tuple":
        return ["tuple", sib(), sib()]
    if k == "some":
        return ["some", sib()]
    if k == "left":
        return ["left", sib(), trow()]
    if k == "right":
        return ["right", trow(), sib()]
    if k == "sum":
        rows = [[tv.rand_vty(rng, 1) for _ in range(rng.choice([0, 1]))] for _ in range(rng.choice([0, 1, 2]))]
        return ["sum", rng.randint(0, len(rows)), rows]
    if k in ("array", "list"):
        return [k, rng.choice([1, 1, 2, 3])]
    if k == "sarray":
        return ["sarray", rng.choice([1, 2]), rng.choice(["tbl", "arr"])]
    if has_loaded(d) and d[0] != "func":
        return ["tuple", [], []]
    return ["infunc"] + rng.choice([["dfg", []], ["dfgx", rng.sample(tv.REQ_EXTS, rng.choice([0, 1, 2]))]])


def rand_ctx(rng, d):
    ctx = []
    for _ in range(rng.choice([0, 0, 0, 1, 1, 2])):
        layer = rand_layer(rng, d)
        ctx.append(layer)
        d = wrap_desc(layer, d)
    return ctx


def ctx_valid(ctx, d) -> bool:
    """A context drawn for one leaf is reused for another: `infunc` must not sit over a non-function value that
    holds a function read back from JSON (its types are opaque, the printer of the enclosing body would not know)."""
    for layer in ctx:
        if layer[0] == "infunc" and has_loaded(d) and d[0] != "func":
            return False
        d = wrap_desc(layer, d)
    return True


def rand_inplace_pair(rng):
    """Two descriptions of one kind that a live object can be moved between in place."""
    k = rng.choice(["int", "int", "float", "string", "list", "list", "sarray", "sum", "sum", "unitsum", "ext"])
    if k == "int":
        w1, w2 = rng.randint(0, 6), rng.randint(0, 6)
        return ["int", rng.randrange(1 << (1 << w1)), w1], ["int", rng.randrange(1 << (1 << w2)), w2]
    if k == "float":
        return ["float", 0.5], ["float", -2.25]
    if k == "string":
        return ["string", "a"], ["string", "hello"]
    if k in ("list", "sarray"):
        t = tv.rand_cvty(rng, 1) if k == "sarray" else tv.rand_vty(rng, 1)
        items = lambda n: [tv.rand_val_of(rng, t, 1) for _ in range(n)]
        a = items(rng.choice([0, 1, 2]))
        b = a + items(rng.choice([1, 2])) if rng.random() < 0.6 else items(rng.choice([0, 1, 3]))
        if k == "list":
            return ["list", a, t], ["list", b, t]
        return ["sarray", a, t, "tbl"], ["sarray", b, t, rng.choice(["tbl", "other"])]
    if k == "sum":
        row = lambda: [tv.rand_vty(rng, 1) for _ in range(rng.choice([0, 1, 1, 2]))]
        t1 = ["sum", [row() for _ in range(rng.choice([1, 2, 3]))]]
        t2 = t1 if rng.random() < 0.5 else ["sum", [row() for _ in range(rng.choice([1, 2, 3]))]]
        mk = lambda t: (lambda tag: ["sum", tag, t, [tv.rand_val_of(rng, x, 1) for x in t[1][tag]]])(rng.randrange(len(t[1])))
        return mk(t1), mk(t2)
    if k == "unitsum":
        n, m = rng.choice([1, 2, 3, 4]), rng.choice([1, 2, 3, 4])
        return ["unitsum", rng.randrange(n), n], ["unitsum", rng.randrange(m), m]
    t1, t2 = tv.rand_ty(rng, 1, False), tv.rand_ty(rng, 1, False)
    return (["ext", "my_const", t1, rng.sample(tv.EXTS, rng.randint(0, 2))],
            ["ext", rng.choice(["my_const", "other.const"]), t2, rng.sample(tv.EXTS, rng.randint(0, 2))])


def rand_seq(rng):
    r = rng.random()
    steps = []
    if r < 0.35:
        # a function whose body is stubbed, observed, finished
        while True:
            f = tv.rand_func(rng, 2) if rng.random() < 0.5 else tv.rand_func_reqs(rng, 2)
            if f[3]:
                break
        f = [f[0], "dfg" if len(f) == 4 else "dfgx"] + f[2:]
        steps = [{"leaf": f[:3] + [[]] + f[4:], "stub": f[3]}, {"leaf": f, "lchg": "finish"}]
    elif r < 0.47:
        mk = lambda: tv.rand_func(rng, 2) if rng.random() < 0.5 else tv.rand_func_reqs(rng, 2)
        steps = [{"leaf": mk()}, {"leaf": mk(), "lchg": "mut"}]
    elif r < 0.7:
        a, b = rand_inplace_pair(rng)
        steps = [{"leaf": a}, {"leaf": b, "lchg": "mut"}]
    else:
        a = tv.rand_val(rng, rng.choice([0, 1, 1, 2]))
        q = rng.random()
        if q < 0.3 and a[0] in ("array", "list", "sarray") and a[1]:
            b = [a[0], a[1] + [a[1][0]]] + a[2:]            # the table with one more entry
        elif q < 0.45 and tv.child_vals(a):
            b = rng.choice(tv.child_vals(a))
        elif q < 0.6:
            b = tv.rand_val_of(rng, tv.rand_vty(rng, 1), 1)
        else:
            b = tv.rand_val(rng, rng.choice([0, 1, 2]))
        steps = [{"leaf": a}, {"leaf": b, "lchg": "fresh"}]
    if rng.random() < 0.3:
        q = rng.random()
        last = steps[-1]["leaf"]
        if q < 0.4:
            steps.append({"leaf": last, "lchg": "same"})
        elif q < 0.7 and mut_compatible(last, steps[0]["leaf"]) and "stub" not in steps[0]:
            steps.append({"leaf": steps[0]["leaf"], "lchg": "mut"})
        else:
            steps.append({"leaf": tv.rand_val(rng, 1), "lchg": "fresh"})
    ctx = rand_ctx(rng, steps[0]["leaf"])
    shared = rng.random() < 0.7
    for i, st in enumerate(steps):
        c = ctx if shared else rand_ctx(rng, st["leaf"])
        st["ctx"] = c if ctx_valid(c, st["leaf"]) else []
        if i:
            st["host"] = rng.choice(["keep", "keep", "keep", "val", "val", "val", "op", "op", "new", "newhugr"])
    return {"kind": "seq", "steps": steps}


def seq_corpus():
    b, i5, q = ["bool"], ["int", 5], ["qubit"]
    f = ["func", "dfg", [b], [["in", 0]]]
    fx = ["func", "dfgx", [i5, b], [["in", 1], ["const", ["int", 3, 4]], ["in", 0]], ["arithmetic.int"]]
    stub = lambda g: {"leaf": g[:3] + [[]] + g[4:], "stub": g[3]}
    arr = lambda n: ["array", [["int", k, 5] for k in range(n)], i5]
    S = lambda *steps: {"kind": "seq", "steps": list(steps)}
    return [
        # seeded C14-e: the serial body of a Function remembered across the completion of its body
        S(stub(f), {"leaf": f, "lchg": "finish", "host": "keep"}),
        S(stub(f), {"leaf": f, "lchg": "finish", "host": "newhugr", "ctx": [["tuple", [], [["bool", True]]]]}),
        S({**stub(fx), "ctx": [["array", 2]]}, {"leaf": fx, "lchg": "finish", "host": "val", "ctx": [["array", 2]]}),
        S(stub(fx), {"leaf": fx, "lchg": "finish", "host": "op", "ctx": [["infunc", "dfgx", ["e.one"]]]}),
        S({"leaf": f}, {"leaf": ["func", "defn", [q], [["in", 0]]], "lchg": "mut", "host": "keep"}),
        # seeded C14-f: the type of a Const node remembered across a change of the value it holds
        S({"leaf": arr(2)}, {"leaf": arr(3), "lchg": "fresh", "host": "val"}),
        S({"leaf": arr(2)}, {"leaf": arr(3), "lchg": "fresh", "host": "op"}),
        S({"leaf": ["bool", True]}, {"leaf": ["tuple", [["bool", True]]], "lchg": "fresh", "host": "val"},
          {"leaf": ["bool", True], "lchg": "fresh", "host": "val"}),
        S(stub(f), {"leaf": f, "lchg": "finish", "host": "keep"}, {"leaf": f, "lchg": "same", "host": "new"}),
        # std value objects changed in place
        S({"leaf": ["int", 3, 5]}, {"leaf": ["int", 1, 2], "lchg": "mut", "host": "keep"}),
        S({"leaf": ["list", [["bool", True]], b]}, {"leaf": ["list", [["bool", True], ["bool", False]], b], "lchg": "mut", "host": "keep"}),
        S({"leaf": ["sarray", [], i5, "tbl"]}, {"leaf": ["sarray", [["int", 1, 5]], i5, "other"], "lchg": "mut", "host": "keep"}),
        S({"leaf": ["sum", 0, ["sum", [[b], []]], [["bool", True]]]}, {"leaf": ["sum", 1, ["sum", [[b], []]], []], "lchg": "mut", "host": "keep"}),
        S({"leaf": ["unitsum", 0, 3]}, {"leaf": ["unitsum", 1, 2], "lchg": "mut", "host": "keep"}),
        S({"leaf": ["ext", "my_const", q, ["e.one"]]}, {"leaf": ["ext", "other.const", b, []], "lchg": "mut", "host": "keep"}),
        S({"leaf": ["int", 3, 5], "ctx": [["some", []]]}, {"leaf": ["int", 3, 6], "lchg": "mut", "host": "val", "ctx": [["some", []]]}),
        S({"leaf": ["float", 0.5]}, {"leaf": ["string", "x"], "lchg": "fresh", "host": "val"}),
    ]



def sugar_corpus():
    """Helpers whose arguments are themselves sugar (seeded C14-h: `None_(opt_ty)` unpacked the payload row of a
    payload type that happened to be a tys.Option, so None_(Option(Bool)) built Option(Bool))."""
    b, i5, T, t3 = ["bool"], ["int", 5], ["bool", True], ["int", 3, 5]
    ob, eb = ["option", [b]], ["either", [b], [i5]]
    return [
        # None_ of exactly one payload type that is an Option / Tuple / Either / unit sum / the same rows spelt out
        ["none", [ob]], ["none", [["option", [b, ["unit", 1]]]]], ["none", [["option", []]]],
        ["none", [["option", [ob]]]], ["none", [["tuple", [b, i5]]]], ["none", [["tuple", []]]], ["none", [eb]],
        ["none", [["unit", 2]]], ["none", [["sum", [[], [b]]]]], ["none", [ob, ob]], ["none", [ob, b]],
        # ... of Left / Right
        ["left", [], [ob]], ["left", [T], [eb]], ["left", [T], [["tuple", [b, i5]]]], ["right", [ob], []],
        ["right", [eb], [t3]], ["right", [["tuple", [b, b]]], [T]], ["left", [], [["unit", 3]]],
        # exactly one value argument that is itself a helper value
        ["some", [["none", [b]]]], ["some", [["some", [T]]]], ["some", [["some", []]]], ["some", [["tuple", [T, t3]]]],
        ["some", [["tuple", []]]], ["some", [["left", [T], [i5]]]], ["some", [["unitsum", 1, 3]]],
        ["tuple", [["tuple", [T, t3]]]], ["tuple", [["tuple", [T]]]], ["tuple", [["tuple", []]]],
        ["tuple", [["some", [T]]]], ["tuple", [["none", [ob]]]], ["tuple", [["right", [b], [t3]]]],
        ["left", [["left", [T], [i5]]], [eb]], ["left", [["tuple", [T, t3]]], []], ["left", [["some", [T]]], [ob]],
        ["left", [["none", [ob]]], [i5]],
        ["right", [eb], [["right", [b], [t3]]]], ["right", [], [["tuple", [T, t3]]]], ["right", [ob], [["none", [b]]]],
        # both inhabitants of Option(Option(Bool)) side by side under the declared type
        ["list", [["some", [["none", [b]]]], ["none", [ob]]], ["option", [ob]]],
        ["array", [["none", [ob]], ["some", [["some", [T]]]]], ["option", [ob]]],
        ["sum", 1, ["sum", [[i5], [["option", [ob]]]]], [["none", [ob]]]],
        ["sum", 0, ["sum", [[], [ob]]], []], ["sum", 1, ["sum", [[], [ob]]], [["none", [b]]]],
    ]


def roots_corpus():
    """Function values whose body is rooted at a TailLoop / Case / DataflowBlock (seeded C14-j: type_() answered with
    the loop's OUTER signature just_inputs+rest -> just_outputs+rest, not the signature of the body)."""
    b, i5, q, u, T = ["bool"], ["int", 5], ["qubit"], ["unit", 1], ["bool", True]
    ctrl = lambda tag, ji, jo, vals: ["const", ["sum", tag, ["sum", [ji, jo]], vals]]
    loop = ["func", "loop", [b, u], [ctrl(1, [b], [b], [T]), ["in", 1]]]                      # the seeded demo's loop
    loop2 = ["func", "loop", [b, i5, q], [ctrl(0, [b, i5], [q, ["float"]], [T, ["int", 3, 5]]), ["in", 2]]]
    case = ["func", "case", [b, q], [["in", 1], ["in", 0], ["const", ["int", 3, 4]]]]
    block = ["func", "block", [b, q], [["const", ["sum", 1, ["sum", [[b], [], [i5]]], []]], ["in", 1], ["in", 0]]]
    V = lambda v: {"kind": "val", "val": v}
    return [
        V(loop), V(loop2), V(["func", "loop", [], [ctrl(1, [], [], [])]]), V(["func", "loop", [b], [ctrl(1, [b], [], [])]]),
        V(["func", "loop", [q], [ctrl(1, [], [b], [T]), ["in", 0]]]),
        V(["tuple", [T, loop]]), V(["some", [loop2]]), V(["array", [loop, loop], tv.val_type_desc(loop)]),
        V(["func", "dfg", [b], [["const", loop], ["in", 0]]]),
        V(["sum", 1, ["sum", [[], [tv.val_type_desc(loop2)]]], [loop2]]),
        V(case), V(["func", "case", [], []]), V(block),
        V(["func", "block", [b], [["const", ["unitsum", 0, 1]], ["in", 0]]]), V(["list", [block], tv.val_type_desc(block)]),
        # a live function value whose body is replaced by a loop-rooted one, and back
        {"kind": "seq", "steps": [{"leaf": ["func", "dfg", [b, u], [["in", 0], ["in", 1]]]},
                                  {"leaf": loop, "lchg": "mut", "host": "keep"},
                                  {"leaf": case, "lchg": "mut", "host": "keep"}]},
        {"kind": "seq", "steps": [{"leaf": loop, "ctx": [["tuple", [T], []]]},
                                  {"leaf": block, "lchg": "mut", "host": "val", "ctx": [["tuple", [T], []]]}]},
    ]


def rand_roots_case(rng):
    f = tv.rand_func_root(rng, 2)
    if rng.random() < 0.15:
        g = tv.rand_func(rng, 2) if rng.random() < 0.5 else tv.rand_func_root(rng, 2)
        steps = [{"leaf": g}, {"leaf": f, "lchg": "mut"}] if rng.random() < 0.6 else [{"leaf": f}, {"leaf": g, "lchg": "mut"}]
        ctx = rand_ctx(rng, f) if rng.random() < 0.5 else []
        for i, st in enumerate(steps):
            st["ctx"] = ctx
            if i:
                st["host"] = rng.choice(["keep", "keep", "val", "op", "new"])
        return {"kind": "seq", "steps": steps}
    d = f
    for layer in rand_ctx(rng, f):
        d = wrap_desc(layer, d)
    return {"kind": "val", "val": d}


def shrink_seq(case):
    steps = case["steps"]
    S = lambda st: {"kind": "seq", "steps": st}
    if len(steps) > 2:
        for i in range(len(steps)):
            yield S(steps[:i] + steps[i + 1:])
    # no wrappers at all, one layer less, wrappers without siblings
    if any(st.get("ctx") for st in steps):
        yield S([{**st, "ctx": []} for st in steps])
        yield S([{**st, "ctx": st.get("ctx", [])[1:]} for st in steps])
        yield S([{**st, "ctx": st.get("ctx", [])[:-1]} for st in steps])
        bare = {"tuple": lambda l: ["tuple", [], []], "some": lambda l: ["some", []], "left": lambda l: ["left", [], []],
                "right": lambda l: ["right", [], []], "sum": lambda l: ["sum", 0, []], "array": lambda l: ["array", 1],
                "list": lambda l: ["list", 1], "sarray": lambda l: ["sarray", 1, l[2]], "infunc": lambda l: ["infunc", "dfg", []]}
        slim = [{**st, "ctx": [bare[l[0]](l) for l in st.get("ctx", [])]} for st in steps]
        if slim != steps:
            yield S(slim)
    for i, st in enumerate(steps):
        if i and st.get("host") not in (None, "val", "keep"):
            yield S(steps[:i] + [{**st, "host": "val"}] + steps[i + 1:])
    # a stubbed function and its completion shrink together
    for i, st in enumerate(steps[:-1]):
        nx = steps[i + 1]
        if st.get("stub") is not None and nx.get("lchg") == "finish":
            for f in tv.shrink_val(nx["leaf"]):
                if f[0] == "func" and f[1] in ("dfg", "dfgx") and f[3]:
                    yield S(steps[:i] + [{**st, "leaf": f[:3] + [[]] + f[4:], "stub": f[3]}, {**nx, "leaf": f}] + steps[i + 2:])
    for i, st in enumerate(steps):
        if st.get("stub") is not None:
            continue
        if i + 1 < len(steps) or i == 0 or st.get("lchg") != "finish":
            for v in tv.shrink_val(st["leaf"]):
                if ctx_valid(st.get("ctx", []), v):
                    yield S(steps[:i] + [{**st, "leaf": v}] + steps[i + 1:])

class C14(fw.Prop):
    id = "C14"
    props_file = "props/C14.v"
    run_file = "run/C14Run.v"
    run_module = "run.C14Run"
    shard = 150
    rule = ("value expressions to nesting depth 5: values of generated types (raw val.Sum with a chosen sum type, "
            "UnitSum, bool_value/TRUE/FALSE, Tuple, Some/None_, Left/Right, IntVal of every width 0..6, FloatVal, "
            "StringVal, ArrayVal/ListVal/StaticArrayVal, opaque val.Extension constants of arbitrary types incl. "
            "linear ones), helper towers over arbitrary values, Function values over real DFG- and FuncDefn-rooted "
            "bodies with loaded constants, over bodies rooted at the other dataflow parents that have an inner "
            "signature (the TailLoop builder, Case(ops.Case), DfBase(ops.DataflowBlock): control / branch sum loaded "
            "as a constant, just_inputs / just_outputs / rest rows of 0-3 generated types), over DFG roots that declare extension requirements (built with "
            "ops.DFG(ins, None, reqs) and read back with Hugr.load_json), bare, nested in helpers / raw sums / "
            "collections and loaded inside other function bodies, collections of functions and of sums; an ill-typed "
            "stream (tag out of range, wrong / missing / extra field, wrong element, element / field type differing "
            "from the held function in the requirements only, width 7+, std constant name on an opaque payload, "
            "StaticArrayVal of a linear element).  Each case is also put on a Const node and loaded twice "
            "(load(value), add_const + load(node)).  Histories on ONE Const node and ONE live value object (2-3 "
            "moments, the full observation at each): a stubbed function body completed with set_outputs, value "
            "objects changed in place through their public fields (Function.body, IntVal, FloatVal, StringVal, "
            "ListVal, StaticArrayVal, raw Sum, UnitSum, Extension), hugr[c].op.val re-assigned, the op replaced, a "
            "new node in the same / a fresh graph, the leaf bare or under 1-2 wrappers rebuilt around it.  "
            "non-trivial = nesting depth >= 1 or a function / extension constant; a history in which the value "
            "changed")
    trusted = ["function bodies are abstracted to their root signature and the rows of their Input/Output nodes "
               "(read from the serialised body); constants nested inside a body are separate cases",
               "integer payloads: only the width is part of the judgment (IntVal does not range-check its value; "
               "the generator stays within 0 <= v < 2^(2^w))",
               "serial values are decoded from `_to_serial_root().model_dump(mode='json')` by harness/tyval_c07c14.py "
               "(field sets checked, unexpected shapes fail closed); pydantic's dump is trusted",
               "row-variable-free variants (hugr-core's VariantNotConcrete check) are not part of the judgment"]
    assumptions = ["std collection definitions carry the bounds of their JSON files (std_ok; checked per case and "
                   "proved from gen/StdBounds.v)"]

    def regenerate(self, ctx):
        path = os.path.join(fw.COQ, "gen", "StdBounds.v")
        fw.write_if_changed(path, translate_std_bounds())
        return ["gen/StdBounds.v"]

    # ------------------------------------------------------------------ cases
    def corpus(self, ctx):
        q, b, i5 = ["qubit"], ["bool"], ["int", 5]
        return [{"kind": "val", "val": v} for v in [
            ["bool", True, "const"], ["bool", False], ["unitsum", 0, 1], ["unitsum", 2, 3],
            ["tuple", []], ["tuple", [["bool", True], ["int", 3, 5]]],
            ["some", []], ["none", []], ["some", [["bool", True], ["bool", False]]], ["none", [b, q]],
            ["left", [["bool", True], ["bool", False]], [b]], ["right", [b, b, b], [["bool", True], ["bool", False]]],
            ["sum", 0, ["sum", [[b], [["unit", 1]]]], [["bool", True]]],
            ["sum", 1, ["sum", [[q], [["sum", [[], []]], i5]]], [["bool", True], ["int", 7, 5]]],
            ["int", 0, 0], ["int", 255, 3], ["int", 1, 6], ["float", 1.5], ["string", "hi"],
            ["array", [["int", 1, 5], ["int", 2, 5]], i5], ["array", [], q],
            ["array", [["some", [["int", 1, 2]]], ["none", [["int", 2]]]], ["option", [["int", 2]]]],
            ["list", [["tuple", [["bool", True]]]], ["tuple", [b]]], ["sarray", [["float", 0.5]], ["float"], "tbl"],
            ["func", "dfg", [b, ["usize"]], [["in", 1], ["const", ["int", 3, 4]]]],
            ["func", "defn", [q], [["in", 0]]],
            ["tuple", [["func", "dfg", [], [["const", ["bool", True]]]], ["array", [["func", "dfg", [b], [["in", 0], ["in", 0]]]] * 2,
                                                                    ["func", [b], [b, b], []]]]],
            ["ext", "my_const", q, ["e.one"]],
            # function bodies whose DFG root declares extension requirements (seeded C14-d: type_() dropped them)
            ["func", "dfgx", [i5], [["in", 0]], ["arithmetic.int"]],
            ["func", "load", [b], [["in", 0], ["const", ["int", 3, 4]]], ["e.two", "e.one"]],
            ["func", "dfgx", [], [], []],
            ["tuple", [["bool", True], ["func", "dfgx", [q], [["in", 0]], ["e.one"]]]],
            ["array", [["func", "load", [], [["const", ["bool", True]]], ["my.ext"]]] * 2, ["func", [], [b], ["my.ext"]]],
            ["sum", 1, ["sum", [[], [["func", [b], [b], ["e.one"]]]]], [["func", "dfgx", [b], [["in", 0]], ["e.one"]]]],
            ["func", "dfg", [], [["const", ["func", "dfgx", [b], [["in", 0]], ["prelude"]]]]],
            # ill typed on purpose (the guard excludes them; model and implementation must still agree)
            ["sum", 2, ["sum", [[b], []]], []], ["sum", 0, ["sum", [[b], []]], [["int", 1, 5]]], ["unitsum", 2, 2],
            ["array", [["bool", True]], q], ["int", 1, 7], ["ext", "ConstInt", i5, []],
            ["sarray", [], q, "lin"],
            # the declared element / field type forgets (or invents) the requirements of the function it holds
            ["array", [["func", "dfgx", [], [], ["e.one"]]], ["func", [], [], []]],
            ["sum", 0, ["sum", [[["func", [], [], ["e.one"]]]]], [["func", "dfg", [], []]]],
        ]] + [{"kind": "val", "val": v} for v in sugar_corpus()] + seq_corpus() + roots_corpus()

    def generate(self, rng, tier, ctx):
        k = 1 if tier == "quick" else 7
        cases = []
        for _ in range(650 * k):
            depth = rng.choice([1, 2, 2, 3, 3, 4, 5])
            v = tv.rand_val(rng, depth)
            cases.append({"kind": "val", "val": v})
            if rng.random() < 0.25:
                for c in tv.child_vals(v)[:2]:
                    cases.append({"kind": "val", "val": c})
        for w in range(7):
            cases.append({"kind": "val", "val": ["int", (1 << (1 << w)) - 1, w]})
            cases.append({"kind": "val", "val": ["array", [["int", 0, w]] * (w % 3), ["int", w]]})
        # ill-typed / edge stream
        n = 0
        while n < 160 * k:
            v = tv.break_val(rng, tv.rand_val(rng, rng.choice([1, 2, 3])))
            if v is not None:
                cases.append({"kind": "val", "val": v, "broken": True})
                n += 1
        for _ in range(15 * k):
            cases.append({"kind": "val", "val": ["sarray", [], tv.rand_ty(rng, 2, False), "x"], "broken": True})
        # function values whose body declares extension requirements ("has the signature of its body" includes
        # them): DFG roots built with requirements and bodies read back from JSON, bare and nested
        # (appended last: the streams above are unchanged)
        for _ in range(110 * k):
            cases.append({"kind": "val", "val": tv.rand_val_reqs(rng, rng.choice([0, 0, 1, 1, 2, 3]))})
        n = 0
        while n < 20 * k:
            # a collection / raw sum whose declared type disagrees with the held function in the requirements only
            f = tv.rand_func_reqs(rng, 1)
            t = tv.val_type_desc(f)
            if not t[3]:
                continue
            t2 = t[:3] + [t[3][1:] if rng.random() < 0.6 else t[3] + ["other.ext"]]
            cases.append({"kind": "val", "broken": True, "val": rng.choice([
                ["array", [f], t2], ["list", [f, f], t2], ["sum", 0, ["sum", [[t2]]], [f]]])})
            n += 1
        # histories on one Const node / one value object: observe, change the value, observe again (answers
        # remembered across a change: seeded C14-e, C14-f); drawn last, the streams above are unchanged
        for _ in range(260 * k):
            cases.append(rand_seq(rng))
        # helpers whose type / value arguments are themselves sugar, rows of exactly one entry favoured (seeded
        # C14-h); drawn last, the streams above are unchanged
        for _ in range(170 * k):
            cases.append({"kind": "val", "val": tv.rand_sugar_val(rng, rng.choice([1, 2, 2, 3]))})
        # function values whose body is rooted at a TailLoop / Case / DataflowBlock (the dataflow parents other than
        # DFG / FuncDefn that have an inner signature), bare, under 1-2 wrappers, swapped into a live function value
        # (seeded C14-j); drawn last, the streams above are unchanged
        for _ in range(130 * k):
            cases.append(rand_roots_case(rng))
        return cases

    # ------------------------------------------------------------------ implementation
    def observe(self, case, ctx):
        from hugr import tys, ops
        from hugr.build.dfg import Dfg
        if case["kind"] == "seq":
            return observe_seq(case)
        d = case["val"]
        try:
            v = tv.build_val(d)
            t = v.type_()
        except Exception as e:
            return {"built": False, "exc": type(e).__name__}
        obs = {"built": True}
        obs["type"] = t
        try:
            obs["serial"] = serial_of(v)
        except Exception as e:
            obs["serial_exc"] = type(e).__name__
        try:
            dfg = Dfg()
            l1 = dfg.load(v)
            c1 = next(iter(dfg.hugr.linked_ports(l1.inp(0)))).node
            c2 = dfg.add_const(v)
            l2 = dfg.load(c2)
            dfg.set_outputs(l1.out(0), l2.out(0))
            h = dfg.hugr
            ports, nin, linked = [], 0, True
            for c, l in ((c1, l1), (c2, l2)):
                if not isinstance(h[c].op, ops.Const) or not isinstance(h[l].op, ops.LoadConst):
                    raise TypeError("load did not build Const / LoadConst")
                kc, ki, ko = h.port_kind(c.out(0)), h.port_kind(l.inp(0)), h.port_kind(l.out(0))
                if not (isinstance(kc, tys.ConstKind) and isinstance(ki, tys.ConstKind) and isinstance(ko, tys.ValueKind)):
                    raise TypeError("unexpected port kinds")
                sig = h[l].op.outer_signature()
                if len(sig.output) != 1:
                    raise TypeError("LoadConst with %d outputs" % len(sig.output))
                ports += [kc.ty, ki.ty, ko.ty, sig.output[0], h[l].op.type_]
                nin += len(sig.input)
                linked = linked and h.has_link(c.out(0), l.inp(0))
            doc = json.loads(h.to_json())
            dts = [n["datatype"] for n in doc["nodes"] if n["op"] == "LoadConstant"]
            cvs = [n["v"] for n in doc["nodes"] if n["op"] == "Const"]
            if len(dts) != 2 or len(cvs) != 2:
                raise TypeError("serialised graph does not hold two Const / LoadConstant nodes")
            obs["ports"] = ports
            obs["datatypes"] = dts
            # the serialized forms the graph document holds for the two Const nodes: judged like the value's own
            # (each must inhabit the reported type; no spelling is compared with another)
            obs["docs"] = [tv.jval(cv) for cv in cvs]
            obs["nin"], obs["linked"] = nin, bool(linked)
        except Exception as e:
            obs["ports_exc"] = type(e).__name__
        return obs

    def literal(self, case, obs, ctx):
        std = ctx_std(ctx)
        if case["kind"] == "seq":
            return gapp("CSeq", std, glist(gapp("MVal", *self.fields(step_desc(st), o))
                                           for st, o in zip(case["steps"], obs["moments"])))
        return gapp("CVal", std, *self.fields(case["val"], obs))

    @staticmethod
    def fields(d, obs):
        try:
            e = tv.gvexpr(d)
        except Exception:
            # The description cannot be printed because hugr-py refused to build one of its TYPES (the printer goes
            # through the real type objects).  Every type description the generators draw lies inside the
            # property's domain (widths 0..6, element types of the standard extensions), so this is a failure of the
            # case, reported with its input: an in-domain expression on which nothing was built.
            return ["(EBool true)", "None", "None", "[]", "None", "0%nat", "false"]
        if not obs["built"]:
            return [e, "None", "None", "[]", "None", "0%nat", "false"]
        oty = gapp("Some", tv.gty(obs["type"]))
        slit = tv.jval(obs["serial"]) if "serial" in obs else None
        oser = gapp("Some", slit) if slit is not None else "None"
        if "ports" in obs:
            ports = gapp("Some", glist([tv.gty(p) for p in obs["ports"]] + [tv.jty(x) for x in obs["datatypes"]]))
            # a document value whose literal is the very literal of `oser` gets the verdict of `oser`: printed once
            docs = sorted(set(obs["docs"]) - {slit})
            return [e, oty, oser, glist(docs), ports, gnat(obs["nin"]), gbool(obs["linked"])]
        return [e, oty, oser, "[]", "None", "0%nat", "false"]

    def nontrivial(self, case, obs):
        if case["kind"] == "seq":
            # a history is non-trivial when the value really changed between two observations
            ds = [step_desc(st) for st in case["steps"]]
            return any(a != b for a, b in zip(ds, ds[1:]))
        v = case["val"]
        return tv.vdepth(v) >= 1 or v[0] in ("func", "ext")

    def describe(self, case, obs):
        def one(ob):
            o = dict(ob)
            if "docs" in o:
                o["docs"] = len(o["docs"])               # (Coq literals of the Const nodes' serialized values)
            if "type" in o:
                o["type"] = str(o["type"])
            if "ports" in o:
                o["ports"] = [str(p) for p in o["ports"]]
            return o
        if case["kind"] == "seq":
            return {"input": case, "values": [step_desc(st) for st in case["steps"]],
                    "observed": {"did": obs["did"], "moments": [one(m) for m in obs["moments"]]}}
        return {"input": case, "observed": one(obs)}

    def signature(self, case, obs, ctx):
        if case["kind"] == "seq":
            return "history:" + ">".join(st["leaf"][0] for st in case["steps"])
        v = case["val"]
        if not obs["built"]:
            return f"value:{v[0]}:raises:{obs['exc']}"
        return f"value:{v[0]}" + (":broken" if case.get("broken") else "")

    def shrink(self, case):
        if case["kind"] == "seq":
            yield from shrink_seq(case)
            return
        for s in tv.shrink_val(case["val"]):
            yield {**case, "val": s}
        for s in tv.shrink_helper_rows(case["val"]):
            yield {**case, "val": s}

    def neighbours(self, case, rng):
        if case["kind"] == "seq":
            out = [{"kind": "val", "val": step_desc(st)} for st in case["steps"]] + list(shrink_seq(case))
            return out + [rand_seq(rng) for _ in range(250)]
        out, todo = [], [case["val"]]
        while todo and len(out) < 200:
            x = todo.pop()
            out.append({"kind": "val", "val": x})
            todo += tv.child_vals(x)
        for _ in range(800):
            out.append({"kind": "val", "val": tv.rand_val(rng, rng.choice([1, 2, 3]))})
        for _ in range(100):
            out.append({"kind": "val", "val": tv.rand_val_reqs(rng, rng.choice([0, 1, 2]))})
        for _ in range(200):
            out.append({"kind": "val", "val": tv.rand_sugar_val(rng, rng.choice([1, 2, 3]))})
        out += [c for c in (rand_roots_case(rng) for _ in range(100)) if c["kind"] == "val"]
        # the value observed a second time after a change, and changed into
        v = case["val"]
        for w in tv.child_vals(v)[:3] + [["bool", True]]:
            out.insert(1, {"kind": "seq", "steps": [{"leaf": v}, {"leaf": w, "lchg": "fresh", "host": "val"}]})
            out.insert(1, {"kind": "seq", "steps": [{"leaf": w}, {"leaf": v, "lchg": "fresh", "host": "val"}]})
        return out

    def distribution(self, cases, observations):
        d = {"depth": {}, "constructors": {}, "broken": 0, "not_built": 0, "int_widths": {},
             "func_roots": {}, "funcs_declaring_reqs": 0,
             # accepted, counted: descriptions the implementation refused to build (by root kind / exception class;
             # Coq accepts a refusal only outside the property's domain), and std constants whose `extensions`
             # name more than the defining extension (the model writes exactly that one; only membership is promised)
             "refused": {}, "std_constants_naming_more_extensions": 0,
             # diagnostics only (nothing the property promises): how a root Tuple constant is spelt in its
             # serialized form ("Tuple" shorthand / general "Sum"), and raw val.Extension constants whose serialized
             # `extensions` differ (as a set) from the caller's list
             "root_tuple_spelling": {}, "raw_extension_lists_changed": 0,
             # helpers whose arguments are themselves sugar: 'none:option' = a None_ with an Option among its payload
             # types, 'some<none' = a Some holding a None_ value; '!' = called with exactly that one argument
             "helpers_over_sugar": {},
             "histories": {"n": 0, "moments": 0, "leaf_change": {}, "host": {}, "ctx_layers": {}, "value_changed": 0,
                           "reported_type_changed": 0}}
        for c, o in zip(cases, observations):
            if c["kind"] == "seq":
                hd = d["histories"]
                hd["n"] += 1
                hd["moments"] += len(c["steps"])
                for a, b in o["did"][1:]:
                    hd["leaf_change"][a] = hd["leaf_change"].get(a, 0) + 1
                    hd["host"][b] = hd["host"].get(b, 0) + 1
                for st in c["steps"]:
                    for layer in st.get("ctx", []):
                        hd["ctx_layers"][layer[0]] = hd["ctx_layers"].get(layer[0], 0) + 1
                ds = [step_desc(st) for st in c["steps"]]
                hd["value_changed"] += any(a != b for a, b in zip(ds, ds[1:]))
                ts = [str(m.get("type")) for m in o["moments"]]
                hd["reported_type_changed"] += any(a != b for a, b in zip(ts, ts[1:]))
                continue
            dp = str(tv.vdepth(c["val"]))
            d["depth"][dp] = d["depth"].get(dp, 0) + 1
            for kk, n in tv.vkinds(c["val"]).items():
                d["constructors"][kk] = d["constructors"].get(kk, 0) + n
            d["broken"] += bool(c.get("broken"))
            tv.sugar_args(c["val"], d["helpers_over_sugar"])
            todo = [c["val"]]
            while todo:
                x = todo.pop()
                todo += tv.child_vals(x)
                if x[0] == "func":
                    d["func_roots"][x[1]] = d["func_roots"].get(x[1], 0) + 1
                    d["funcs_declaring_reqs"] += bool(tv.func_reqs(x))
            d["not_built"] += not o["built"]
            if not o["built"] or "serial" not in o:
                key = "%s:%s" % (c["val"][0], o.get("exc") or o.get("serial_exc"))
                d["refused"][key] = d["refused"].get(key, 0) + 1
            else:
                d["std_constants_naming_more_extensions"] += more_exts(o["serial"])
                sv = o["serial"]
                if c["val"][0] == "tuple" and isinstance(sv, dict):
                    k = str(sv.get("v"))
                    d["root_tuple_spelling"][k] = d["root_tuple_spelling"].get(k, 0) + 1
                if c["val"][0] == "ext" and isinstance(sv, dict):
                    d["raw_extension_lists_changed"] += set(sv.get("extensions", [])) != set(c["val"][3])
            if c["val"][0] == "int":
                w = str(c["val"][2])
                d["int_widths"][w] = d["int_widths"].get(w, 0) + 1
        return d


_STD = {}


def ctx_std(ctx):
    if "s" not in _STD:
        _STD["s"] = "(" + tv.gstd() + ")"
    return _STD["s"]


PROP = C14()
