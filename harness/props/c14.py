"""C14 — constants inhabit the type they report
(model: coq/model/Values.v, spec: coq/spec/ValuesS.v, proofs: coq/proofs/ValuesP.v)."""
import json
import os

import fw
from fw import glist, gopt, gapp, gbool, gnat
import tyval_c07c14 as tv
from props.c07 import translate_std_bounds


def wf_desc(v) -> bool:
    """Generator-side bookkeeping only (evidence statistics): was the description produced as well typed."""
    return True


class C14(fw.Prop):
    id = "C14"
    props_file = "props/C14.v"
    run_file = "run/C14Run.v"
    run_module = "run.C14Run"
    shard = 150
    rule = ("value expressions to nesting depth 5: values of generated types (raw val.Sum with a chosen sum type, "
            "UnitSum, bool_value/TRUE/FALSE, Tuple, Some/None_, Left/Right, IntVal of every width 0..6, FloatVal, "
            "StringVal, ArrayVal/ListVal/StaticArrayVal, opaque val.Extension constants of arbitrary types incl. "
            "linear ones), helper towers over arbitrary values, Function values over real DFG- and FuncDefn-rooted "
            "bodies with loaded constants, over DFG roots that declare extension requirements (built with "
            "ops.DFG(ins, None, reqs) and read back with Hugr.load_json), bare, nested in helpers / raw sums / "
            "collections and loaded inside other function bodies, collections of functions and of sums; an ill-typed "
            "stream (tag out of range, wrong / missing / extra field, wrong element, element / field type differing "
            "from the held function in the requirements only, width 7+, std constant name on an opaque payload, "
            "StaticArrayVal of a linear element).  Each case is also put on a Const node and loaded twice "
            "(load(value), add_const + load(node)).  non-trivial = nesting depth >= 1 or a function / extension "
            "constant")
    trusted = ["function bodies are abstracted to their root signature and the rows of their Input/Output nodes "
               "(read from the serialised body); constants nested inside a body are separate cases",
               "integer payloads: only the width is part of the judgment (IntVal does not range-check its value; "
               "the generator stays within 0 <= v < 2^(2^w))",
               "serial values are decoded from `_to_serial_root().model_dump(mode='json')` by harness/tyval_c07c14.py "
               "(field sets checked, unexpected shapes fail closed); pydantic's dump is trusted",
               "row-variable-free variants (hugr-core's VariantNotConcrete check) are not part of the judgment"]
    assumptions = ["std collection definitions carry the bounds of their JSON files (std_ok; checked per case and "
                   "proved from gen/StdBounds.v)"]

    def regenerate(self, ctx):
        path = os.path.join(fw.COQ, "gen", "StdBounds.v")
        fw.write_if_changed(path, translate_std_bounds())
        return ["gen/StdBounds.v"]

    # ------------------------------------------------------------------ cases
    def corpus(self, ctx):
        q, b, i5 = ["qubit"], ["bool"], ["int", 5]
        return [{"kind": "val", "val": v} for v in [
            ["bool", True, "const"], ["bool", False], ["unitsum", 0, 1], ["unitsum", 2, 3],
            ["tuple", []], ["tuple", [["bool", True], ["int", 3, 5]]],
            ["some", []], ["none", []], ["some", [["bool", True], ["bool", False]]], ["none", [b, q]],
            ["left", [["bool", True], ["bool", False]], [b]], ["right", [b, b, b], [["bool", True], ["bool", False]]],
            ["sum", 0, ["sum", [[b], [["unit", 1]]]], [["bool", True]]],
            ["sum", 1, ["sum", [[q], [["sum", [[], []]], i5]]], [["bool", True], ["int", 7, 5]]],
            ["int", 0, 0], ["int", 255, 3], ["int", 1, 6], ["float", 1.5], ["string", "hi"],
            ["array", [["int", 1, 5], ["int", 2, 5]], i5], ["array", [], q],
            ["array", [["some", [["int", 1, 2]]], ["none", [["int", 2]]]], ["option", [["int", 2]]]],
            ["list", [["tuple", [["bool", True]]]], ["tuple", [b]]], ["sarray", [["float", 0.5]], ["float"], "tbl"],
            ["func", "dfg", [b, ["usize"]], [["in", 1], ["const", ["int", 3, 4]]]],
            ["func", "defn", [q], [["in", 0]]],
            ["tuple", [["func", "dfg", [], [["const", ["bool", True]]]], ["array", [["func", "dfg", [b], [["in", 0], ["in", 0]]]] * 2,
                                                                    ["func", [b], [b, b], []]]]],
            ["ext", "my_const", q, ["e.one"]],
            # function bodies whose DFG root declares extension requirements (seeded C14-d: type_() dropped them)
            ["func", "dfgx", [i5], [["in", 0]], ["arithmetic.int"]],
            ["func", "load", [b], [["in", 0], ["const", ["int", 3, 4]]], ["e.two", "e.one"]],
            ["func", "dfgx", [], [], []],
            ["tuple", [["bool", True], ["func", "dfgx", [q], [["in", 0]], ["e.one"]]]],
            ["array", [["func", "load", [], [["const", ["bool", True]]], ["my.ext"]]] * 2, ["func", [], [b], ["my.ext"]]],
            ["sum", 1, ["sum", [[], [["func", [b], [b], ["e.one"]]]]], [["func", "dfgx", [b], [["in", 0]], ["e.one"]]]],
            ["func", "dfg", [], [["const", ["func", "dfgx", [b], [["in", 0]], ["prelude"]]]]],
            # ill typed on purpose (the guard excludes them; model and implementation must still agree)
            ["sum", 2, ["sum", [[b], []]], []], ["sum", 0, ["sum", [[b], []]], [["int", 1, 5]]], ["unitsum", 2, 2],
            ["array", [["bool", True]], q], ["int", 1, 7], ["ext", "ConstInt", i5, []],
            ["sarray", [], q, "lin"],
            # the declared element / field type forgets (or invents) the requirements of the function it holds
            ["array", [["func", "dfgx", [], [], ["e.one"]]], ["func", [], [], []]],
            ["sum", 0, ["sum", [[["func", [], [], ["e.one"]]]]], [["func", "dfg", [], []]]],
        ]]

    def generate(self, rng, tier, ctx):
        k = 1 if tier == "quick" else 7
        cases = []
        for _ in range(650 * k):
            depth = rng.choice([1, 2, 2, 3, 3, 4, 5])
            v = tv.rand_val(rng, depth)
            cases.append({"kind": "val", "val": v})
            if rng.random() < 0.25:
                for c in tv.child_vals(v)[:2]:
                    cases.append({"kind": "val", "val": c})
        for w in range(7):
            cases.append({"kind": "val", "val": ["int", (1 << (1 << w)) - 1, w]})
            cases.append({"kind": "val", "val": ["array", [["int", 0, w]] * (w % 3), ["int", w]]})
        # ill-typed / edge stream
        n = 0
        while n < 160 * k:
            v = tv.break_val(rng, tv.rand_val(rng, rng.choice([1, 2, 3])))
            if v is not None:
                cases.append({"kind": "val", "val": v, "broken": True})
                n += 1
        for _ in range(15 * k):
            cases.append({"kind": "val", "val": ["sarray", [], tv.rand_ty(rng, 2, False), "x"], "broken": True})
        # function values whose body declares extension requirements ("has the signature of its body" includes
        # them): DFG roots built with requirements and bodies read back from JSON, bare and nested
        # (appended last: the streams above are unchanged)
        for _ in range(110 * k):
            cases.append({"kind": "val", "val": tv.rand_val_reqs(rng, rng.choice([0, 0, 1, 1, 2, 3]))})
        n = 0
        while n < 20 * k:
            # a collection / raw sum whose declared type disagrees with the held function in the requirements only
            f = tv.rand_func_reqs(rng, 1)
            t = tv.val_type_desc(f)
            if not t[3]:
                continue
            t2 = t[:3] + [t[3][1:] if rng.random() < 0.6 else t[3] + ["other.ext"]]
            cases.append({"kind": "val", "broken": True, "val": rng.choice([
                ["array", [f], t2], ["list", [f, f], t2], ["sum", 0, ["sum", [[t2]]], [f]]])})
            n += 1
        return cases

    # ------------------------------------------------------------------ implementation
    def observe(self, case, ctx):
        from hugr import tys, ops
        from hugr.build.dfg import Dfg
        d = case["val"]
        try:
            v = tv.build_val(d)
            t = v.type_()
        except Exception as e:
            return {"built": False, "exc": type(e).__name__}
        obs = {"built": True}
        obs["type"] = t
        try:
            obs["serial"] = v._to_serial_root().model_dump(mode="json")
        except Exception as e:
            obs["serial_exc"] = type(e).__name__
        try:
            dfg = Dfg()
            l1 = dfg.load(v)
            c1 = next(iter(dfg.hugr.linked_ports(l1.inp(0)))).node
            c2 = dfg.add_const(v)
            l2 = dfg.load(c2)
            dfg.set_outputs(l1.out(0), l2.out(0))
            h = dfg.hugr
            ports, nin, linked = [], 0, True
            for c, l in ((c1, l1), (c2, l2)):
                if not isinstance(h[c].op, ops.Const) or not isinstance(h[l].op, ops.LoadConst):
                    raise TypeError("load did not build Const / LoadConst")
                kc, ki, ko = h.port_kind(c.out(0)), h.port_kind(l.inp(0)), h.port_kind(l.out(0))
                if not (isinstance(kc, tys.ConstKind) and isinstance(ki, tys.ConstKind) and isinstance(ko, tys.ValueKind)):
                    raise TypeError("unexpected port kinds")
                sig = h[l].op.outer_signature()
                if len(sig.output) != 1:
                    raise TypeError("LoadConst with %d outputs" % len(sig.output))
                ports += [kc.ty, ki.ty, ko.ty, sig.output[0], h[l].op.type_]
                nin += len(sig.input)
                linked = linked and h.has_link(c.out(0), l.inp(0))
            doc = json.loads(h.to_json())
            dts = [n["datatype"] for n in doc["nodes"] if n["op"] == "LoadConstant"]
            cvs = [n["v"] for n in doc["nodes"] if n["op"] == "Const"]
            if len(dts) != 2 or len(cvs) != 2:
                raise TypeError("serialised graph does not hold two Const / LoadConstant nodes")
            obs["ports"] = ports
            obs["datatypes"] = dts
            # the Const nodes carry the same serial value (compared through the decoder: only what it reads)
            obs["const_docs_equal"] = "serial" in obs and all(tv.jval(cv) == tv.jval(obs["serial"]) for cv in cvs)
            obs["nin"], obs["linked"] = nin, bool(linked)
        except Exception as e:
            obs["ports_exc"] = type(e).__name__
        return obs

    def literal(self, case, obs, ctx):
        e = tv.gvexpr(case["val"])
        std = ctx_std(ctx)
        if not obs["built"]:
            return gapp("CVal", std, e, "None", "None", "None", "0%nat", "false")
        oty = gapp("Some", tv.gty(obs["type"]))
        oser = gapp("Some", tv.jval(obs["serial"])) if "serial" in obs else "None"
        if "ports" in obs and obs["const_docs_equal"]:
            ports = gapp("Some", glist([tv.gty(p) for p in obs["ports"]] + [tv.jty(x) for x in obs["datatypes"]]))
            return gapp("CVal", std, e, oty, oser, ports, gnat(obs["nin"]), gbool(obs["linked"]))
        return gapp("CVal", std, e, oty, oser, "None", "0%nat", "false")

    def nontrivial(self, case, obs):
        v = case["val"]
        return tv.vdepth(v) >= 1 or v[0] in ("func", "ext")

    def describe(self, case, obs):
        o = dict(obs)
        if "type" in o:
            o["type"] = str(o["type"])
        if "ports" in o:
            o["ports"] = [str(p) for p in o["ports"]]
        return {"input": case, "observed": o}

    def signature(self, case, obs, ctx):
        v = case["val"]
        if not obs["built"]:
            return f"value:{v[0]}:raises:{obs['exc']}"
        return f"value:{v[0]}" + (":broken" if case.get("broken") else "")

    def shrink(self, case):
        for s in tv.shrink_val(case["val"]):
            yield {**case, "val": s}

    def neighbours(self, case, rng):
        out, todo = [], [case["val"]]
        while todo and len(out) < 200:
            x = todo.pop()
            out.append({"kind": "val", "val": x})
            todo += tv.child_vals(x)
        for _ in range(800):
            out.append({"kind": "val", "val": tv.rand_val(rng, rng.choice([1, 2, 3]))})
        for _ in range(100):
            out.append({"kind": "val", "val": tv.rand_val_reqs(rng, rng.choice([0, 1, 2]))})
        return out

    def distribution(self, cases, observations):
        d = {"depth": {}, "constructors": {}, "broken": 0, "not_built": 0, "int_widths": {},
             "func_roots": {}, "funcs_declaring_reqs": 0}
        for c, o in zip(cases, observations):
            dp = str(tv.vdepth(c["val"]))
            d["depth"][dp] = d["depth"].get(dp, 0) + 1
            for kk, n in tv.vkinds(c["val"]).items():
                d["constructors"][kk] = d["constructors"].get(kk, 0) + n
            d["broken"] += bool(c.get("broken"))
            todo = [c["val"]]
            while todo:
                x = todo.pop()
                todo += tv.child_vals(x)
                if x[0] == "func":
                    d["func_roots"][x[1]] = d["func_roots"].get(x[1], 0) + 1
                    d["funcs_declaring_reqs"] += bool(tv.func_reqs(x))
            d["not_built"] += not o["built"]
            if c["val"][0] == "int":
                w = str(c["val"][2])
                d["int_widths"][w] = d["int_widths"].get(w, 0) + 1
        return d


_STD = {}


def ctx_std(ctx):
    if "s" not in _STD:
        _STD["s"] = "(" + tv.gstd() + ")"
    return _STD["s"]


PROP = C14()
