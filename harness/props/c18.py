"""C18 — hugr.utils.BiMap stays a bijection (model: coq/model/BiMapM.v, spec: coq/spec/BiMapS.v)."""
import itertools

import fw
from fw import gZ, glist, gopt, gpair, gapp, gnat

# model integers -> Python keys/values; includes the falsy ones the property names
PYV = [0, "", (), 1, "a", (0,), "0", 2]
OPS = ["InsL", "InsR", "DelL", "DelR", "SetItem", "DelItem"]
SEED_KINDS = ["dict", "OrderedDict", "UserDict"]      # the Python class of a seed mapping (the model sees a mapping)


def all_ops(nk, nv):
    res = []
    for k in range(nk):
        for v in range(nv):
            res += [["InsL", k, v], ["InsR", v, k], ["SetItem", k, v]]
    res += [["DelL", k] for k in range(nk)] + [["DelItem", k] for k in range(nk)]
    res += [["DelR", v] for v in range(nv)]
    return res


def core_ops(nk, nv):
    """the four mutators without their __setitem__/__delitem__ aliases"""
    res = []
    for k in range(nk):
        for v in range(nv):
            res += [["InsL", k, v], ["InsR", v, k]]
    return res + [["DelL", k] for k in range(nk)] + [["DelR", v] for v in range(nv)]


def world_ops(ns, nm, nk, nv, map_ops):
    """every step of a world with ns seed mappings and nm map variables (model/BiMapHeap.v wop)"""
    res = []
    for j in range(nm):
        res.append(["New", j, ["none"]])
        res += [["New", j, ["seed", s]] for s in range(ns)]
        res += [["New", j, ["map", i]] for i in range(nm)]
        res += [["Op", j, list(o)] for o in map_ops]
    for s in range(ns):
        res += [["SeedSet", s, k, v] for k in range(nk) for v in range(nv)]
        res += [["SeedDel", s, k] for k in range(nk)]
        res.append(["SeedClear", s])
    return res


def W(seeds, nm, ops, nk=3, nv=3, skinds=None):
    return {"kind": "world", "nk": nk, "nv": nv, "seeds": seeds, "skinds": skinds or ["dict"] * len(seeds),
            "nm": nm, "ops": ops}


class C18(fw.Prop):
    id = "C18"
    props_file = "props/C18.v"
    run_file = "run/C18Run.v"
    run_module = "run.C18Run"
    shard = 400
    rule = ("histories of BiMap mutators run on hugr.utils.BiMap and on the Coq model; exhaustive small "
            "scope (all histories of a fixed length over a 2x2 / 3x3 universe) plus random histories "
            "over 6 keys x 6 values with random initial maps (including non-injective ones); "
            "non-trivial = the history contains a displacing insert (key or value already present) "
            "or a deletion of a present key; distinct = by canonical input.  World histories: several map "
            "variables and the caller's seed mappings (dict / OrderedDict / UserDict) in one run -- construction "
            "from nothing, from a seed, from another map, mutators on any map, writes of the caller to the seeds; "
            "after every step ALL maps and seeds are observed; exhaustive = every pair of steps after two "
            "constructions from one seed and every single step after three other construction prefixes over a "
            "2x2 universe, plus random histories; non-trivial = a map or a "
            "seed is modified while another live map shares its origin or is its origin")
    trusted = ["keys/values are modelled as an arbitrary type with decidable equality; Python's == / hash "
               "on the sampled keys (0, '', (), 1, 'a', (0,), '0', 2) is assumed to be that equality"]
    trusted = trusted + ["identity of Python dict objects is modelled by heap addresses (model/BiMapHeap.v); a seed mapping "
                         "of class dict / OrderedDict / UserDict is the same mapping to the model"]
    assumptions = ["None is never used as a key or value (excluded by the property)"]

    def corpus(self, ctx):
        two = [[0, 0], [1, 1]]
        return [
            # seeded C18-f: the constructor kept the caller's dict object as the forward dict
            W([two], 2, [["New", 0, ["seed", 0]], ["New", 1, ["seed", 0]], ["Op", 0, ["InsL", 2, 2]]]),
            W([two], 2, [["New", 0, ["seed", 0]], ["New", 1, ["seed", 0]], ["Op", 0, ["InsL", 2, 2]],
                         ["Op", 0, ["InsR", 1, 0]], ["Op", 0, ["DelItem", 1]], ["Op", 1, ["DelR", 0]]]),
            W([two], 1, [["New", 0, ["seed", 0]], ["SeedSet", 0, 2, 1]]),            # the caller reuses its dict afterwards
            W([two], 1, [["New", 0, ["seed", 0]], ["SeedClear", 0]]),
            W([two], 1, [["New", 0, ["seed", 0]], ["Op", 0, ["DelL", 0]]]),            # the map must not write into the seed
            W([two], 2, [["New", 0, ["seed", 0]], ["New", 1, ["map", 0]], ["Op", 0, ["DelL", 0]],
                         ["Op", 1, ["InsR", 1, 2]]]),                                    # a map built from a map
            W([], 2, [["New", 0, ["none"]], ["New", 1, ["none"]], ["Op", 0, ["InsL", 0, 0]]]),   # a shared default
            W([two, [[0, 1], [1, 1]]], 2, [["New", 0, ["seed", 1]], ["New", 0, ["seed", 0]], ["New", 0, ["seed", 1]],
                                           ["SeedDel", 1, 0], ["New", 1, ["seed", 1]]],
              skinds=["UserDict", "OrderedDict"]),                                       # rejected construction changes nothing
        ]

    def _gen_world(self, rng, tier, ctx):
        cases = []
        # exhaustive: two maps built from one seed (from the seed twice / the second from the first), then every
        # pair of steps of the whole world over a 2x2 universe
        alpha = world_ops(1, 2, 2, 2, core_ops(2, 2))
        pre = [["New", 0, ["seed", 0]], ["New", 1, ["seed", 0]]]
        for h in itertools.product(alpha, repeat=2):
            cases.append(W([[[0, 0]]], 2, [list(o) for o in pre] + [list(o) for o in h], nk=2, nv=2))
        for pre in ([["New", 0, ["seed", 0]], ["New", 1, ["map", 0]]], [["New", 0, ["none"]], ["New", 1, ["none"]]],
                    [["New", 0, ["seed", 0]]]):
            for o in alpha:
                cases.append(W([[[0, 0]]], 2, [list(x) for x in pre] + [list(o)], nk=2, nv=2))
        ctx.stats["exhaustive_scopes"] = ctx.stats.get("exhaustive_scopes", []) + [
            f"worlds (2 maps, 1 seed {{0:0}}, 2x2): two constructions from the seed then all {len(alpha)}^2 pairs of "
            f"steps; seed then map-from-map / two BiMap() / one map from the seed, then each of the {len(alpha)} steps"]
        n = 250 if tier == "quick" else 1500
        for _ in range(n):
            nk, nv = rng.randint(2, 5), rng.randint(2, 5)
            ns, nm = rng.randint(1, 2), rng.randint(2, 3)
            seeds = []
            for _s in range(ns):
                ks = rng.sample(range(nk), rng.randint(0, nk))
                if rng.random() < 0.85:                                  # injective
                    vs = rng.sample(range(nv), min(len(ks), nv))
                    seeds.append([[k, v] for k, v in zip(ks, vs)])
                else:
                    seeds.append([[k, rng.randrange(nv)] for k in ks])
            skinds = [rng.choice(SEED_KINDS) if rng.random() < 0.4 else "dict" for _s in range(ns)]
            mops = all_ops(nk, nv)
            ops = []
            for t in range(rng.randint(2, 24)):
                x = rng.random()
                if x < (0.7 if t < 2 else 0.15):
                    y = rng.random()
                    src = ["seed", rng.randrange(ns)] if y < 0.65 else ["map", rng.randrange(nm)] if y < 0.9 else ["none"]
                    ops.append(["New", rng.randrange(nm), src])
                elif x < 0.75:
                    ops.append(["Op", rng.randrange(nm), list(rng.choice(mops))])
                else:
                    s_ = rng.randrange(ns)
                    y = rng.random()
                    ops.append(["SeedSet", s_, rng.randrange(nk), rng.randrange(nv)] if y < 0.6
                               else ["SeedDel", s_, rng.randrange(nk)] if y < 0.9 else ["SeedClear", s_])
            cases.append(W(seeds, nm, ops, nk=nk, nv=nv, skinds=skinds))
        return cases

    def generate(self, rng, tier, ctx):
        return self._gen_single(rng, tier, ctx) + self._gen_world(rng, tier, ctx)

    def _gen_single(self, rng, tier, ctx):
        cases = []
        # exhaustive small scopes
        u22 = all_ops(2, 2)
        depth = 3 if tier == "quick" else 4
        for h in itertools.product(u22, repeat=depth):
            cases.append({"nk": 2, "nv": 2, "init": [], "ops": [list(o) for o in h]})
        u33 = all_ops(3, 3)
        for h in itertools.product(u33, repeat=2):
            cases.append({"nk": 3, "nv": 3, "init": [[0, 0]], "ops": [list(o) for o in h]})
        ctx.stats["exhaustive_scopes"] = [f"all {len(u22)}^{depth} histories over 2 keys x 2 values from the empty map",
                                          f"all {len(u33)}^2 histories over 3x3 from {{0:0}}"]
        # random long histories
        n = 300 if tier == "quick" else 4000
        for _ in range(n):
            nk, nv = rng.randint(1, 6), rng.randint(1, 6)
            init = []
            for k in rng.sample(range(nk), rng.randint(0, nk)):
                init.append([k, rng.randrange(nv)])       # may be non-injective -> NotBijection
            ops = []
            u = all_ops(nk, nv)
            for _ in range(rng.randint(1, 40)):
                ops.append(list(rng.choice(u)))
            cases.append({"nk": nk, "nv": nv, "init": init, "ops": ops})
        return cases

    def _obs(self, bm, nk, nv):
        geti = []
        for k in range(nk):
            try:
                geti.append(PYV.index(bm[PYV[k]]))
            except KeyError:
                geti.append(None)
        gl = lambda x: None if x is None else PYV.index(x)
        return {
            "items": [[PYV.index(k), PYV.index(v)] for k, v in bm.items()],
            "len": len(bm),
            "iter": [PYV.index(k) for k in bm],
            "getr": [gl(bm.get_right(PYV[k])) for k in range(nk)],
            "getl": [gl(bm.get_left(PYV[v])) for v in range(nv)],
            "geti": geti,
        }

    def _wobs(self, seeds, slots, nk, nv):
        return {"seeds": [[[PYV.index(k), PYV.index(v)] for k, v in sd.items()] for sd in seeds],
                "slots": [None if bm is None else self._obs(bm, nk, nv) for bm in slots]}

    def _observe_world(self, case):
        import collections
        from hugr.utils import BiMap, NotBijection
        nk, nv = case["nk"], case["nv"]
        mk = {"dict": dict, "OrderedDict": collections.OrderedDict, "UserDict": collections.UserDict}
        seeds = [mk[kind]({PYV[k]: PYV[v] for k, v in sd}) for sd, kind in zip(case["seeds"], case["skinds"])]
        slots = [None] * case["nm"]
        res = {"init": self._wobs(seeds, slots, nk, nv), "steps": []}
        for o in case["ops"]:
            r = "Done"
            try:
                if o[0] == "New":
                    j, src = o[1], o[2]
                    if src[0] == "none":
                        arg = ()
                    elif src[0] == "seed":
                        arg = (seeds[src[1]],) if src[1] < len(seeds) else None
                    else:
                        arg = (slots[src[1]],) if src[1] < len(slots) and slots[src[1]] is not None else None
                    if arg is not None and j < len(slots):
                        try:
                            slots[j] = BiMap(*arg)
                        except NotBijection:
                            r = "NotBijection"
                elif o[0] == "Op":
                    bm = slots[o[1]] if o[1] < len(slots) else None
                    if bm is not None:
                        r = self._apply(bm, o[2])
                elif o[1] < len(seeds):
                    sd = seeds[o[1]]
                    if o[0] == "SeedSet":
                        sd[PYV[o[2]]] = PYV[o[3]]
                    elif o[0] == "SeedDel":
                        sd.pop(PYV[o[2]], None)
                    else:
                        sd.clear()
            except Exception as e:  # anything else is an observable difference
                r = "Other:" + type(e).__name__
            res["steps"].append([r, self._wobs(seeds, slots, nk, nv)])
        return res

    def _apply(self, bm, o):
        name, args = o[0], [PYV[a] for a in o[1:]]
        try:
            if name == "InsL":
                bm.insert_left(*args)
            elif name == "InsR":
                bm.insert_right(*args)
            elif name == "DelL":
                bm.delete_left(*args)
            elif name == "DelR":
                bm.delete_right(*args)
            elif name == "SetItem":
                bm[args[0]] = args[1]
            elif name == "DelItem":
                del bm[args[0]]
            return "Done"
        except KeyError:
            return "KeyError"

    def observe(self, case, ctx):
        from hugr.utils import BiMap, NotBijection
        if case.get("kind") == "world":
            return self._observe_world(case)
        nk, nv = case["nk"], case["nv"]
        try:
            bm = BiMap({PYV[k]: PYV[v] for k, v in case["init"]})
        except NotBijection:
            return {"init": None, "steps": []}
        res = {"init": self._obs(bm, nk, nv), "steps": []}
        for o in case["ops"]:
            name, args = o[0], [PYV[a] for a in o[1:]]
            try:
                if name == "InsL":
                    bm.insert_left(*args)
                elif name == "InsR":
                    bm.insert_right(*args)
                elif name == "DelL":
                    bm.delete_left(*args)
                elif name == "DelR":
                    bm.delete_right(*args)
                elif name == "SetItem":
                    bm[args[0]] = args[1]
                elif name == "DelItem":
                    del bm[args[0]]
                r = "Done"
            except KeyError:
                r = "KeyError"
            except Exception as e:  # anything else is an observable difference
                r = "Other:" + type(e).__name__
            res["steps"].append([r, self._obs(bm, nk, nv)])
        return res

    def _gobs(self, o):
        return gapp("Build_obs", glist(gpair(gZ(k), gZ(v)) for k, v in o["items"]), gnat(o["len"]),
                    glist(gZ(k) for k in o["iter"]),
                    glist(gopt(None if x is None else gZ(x)) for x in o["getr"]),
                    glist(gopt(None if x is None else gZ(x)) for x in o["getl"]),
                    glist(gopt(None if x is None else gZ(x)) for x in o["geti"]))

    def _gwobs(self, o):
        return gapp("Build_wobs", glist(glist(gpair(gZ(k), gZ(v)) for k, v in sd) for sd in o["seeds"]),
                    glist(gopt(None if x is None else self._gobs(x)) for x in o["slots"]))

    def _gwop(self, o):
        if o[0] == "New":
            src = o[2]
            g = "sNone" if src[0] == "none" else gapp("sSeed" if src[0] == "seed" else "sMap", gnat(src[1]))
            return gapp("wNew", gnat(o[1]), g)
        if o[0] == "Op":
            return gapp("wOp", gnat(o[1]), gapp(o[2][0], *[gZ(x) for x in o[2][1:]]))
        return gapp("w" + o[0], gnat(o[1]), *[gZ(x) for x in o[2:]])

    def _literal_world(self, case, obs):
        steps = []
        for o, (r, ob) in zip(case["ops"], obs["steps"]):
            # an unexpected exception class is never equal to the model's outcome of that step
            rr = r if r in ("Done", "KeyError", "NotBijection") else ("KeyError" if o[0] != "Op" else "NotBijection")
            steps.append(gpair(self._gwop(o), gpair(rr, self._gwobs(ob))))
        return gapp("CW", gapp("Build_wcase", glist(gZ(k) for k in range(case["nk"])), glist(gZ(v) for v in range(case["nv"])),
                               glist(glist(gpair(gZ(k), gZ(v)) for k, v in sd) for sd in case["seeds"]),
                               gnat(case["nm"]), self._gwobs(obs["init"]), glist(steps)))

    def literal(self, case, obs, ctx):
        if case.get("kind") == "world":
            return self._literal_world(case, obs)
        steps = []
        if obs["init"] is not None:
            for o, (r, ob) in zip(case["ops"], obs["steps"]):
                rr = r if r in ("Done", "KeyError") else "NotBijection"   # any other exception: never equal to the model's
                steps.append(gpair(gapp(o[0], *[gZ(x) for x in o[1:]]), gpair(rr, self._gobs(ob))))
        return gapp("CH", gapp("Build_hcase", glist(gZ(k) for k in range(case["nk"])), glist(gZ(v) for v in range(case["nv"])),
                               glist(gpair(gZ(k), gZ(v)) for k, v in case["init"]),
                               gopt(None if obs["init"] is None else self._gobs(obs["init"])), glist(steps)))

    def _nontrivial_world(self, case, obs):
        # a map or a seed is modified while ANOTHER live map has it as origin or shares its origin
        nm = case["nm"]
        origin = [None] * nm                       # per slot: the set of seeds/slots its content was taken from
        for o, (r, _ob) in zip(case["ops"], obs["steps"]):
            if r != "Done":
                continue
            if o[0] == "New":
                src = o[2]
                if src[0] == "seed" and src[1] < len(case["seeds"]):
                    origin[o[1]] = {("seed", src[1])}
                elif src[0] == "map" and src[1] < nm and origin[src[1]] is not None:
                    origin[o[1]] = set(origin[src[1]]) | {("map", src[1])}
                    origin[src[1]] = set(origin[src[1]]) | {("map", src[1])}
                elif src[0] == "none":
                    origin[o[1]] = {("none",)}
            elif o[0] == "Op" and o[1] < nm and origin[o[1]] is not None:
                if any(j != o[1] and origin[j] is not None and origin[j] & origin[o[1]] for j in range(nm)):
                    return True
            elif o[0].startswith("Seed"):
                if any(origin[j] is not None and ("seed", o[1]) in origin[j] for j in range(nm)):
                    return True
        return False

    def nontrivial(self, case, obs):
        if case.get("kind") == "world":
            return self._nontrivial_world(case, obs)
        if obs["init"] is None:
            return False
        cur = obs["init"]["items"]
        for o, (r, ob) in zip(case["ops"], obs["steps"]):
            if o[0] in ("InsL", "SetItem", "InsR"):
                k, v = (o[1], o[2]) if o[0] != "InsR" else (o[2], o[1])
                if any((a == k) != (b == v) for a, b in cur):
                    return True
            elif r == "Done":
                return True
            cur = ob["items"]
        return False

    def describe(self, case, obs):
        return {"input": case, "python_values": [repr(x) for x in PYV[:max(case["nk"], case["nv"])]], "observed": obs}

    def signature(self, case, obs, ctx):
        if case.get("kind") == "world":
            return "bimap-world:" + ",".join(sorted({o[0] if o[0] != "Op" else o[2][0] for o in case["ops"]}))
        return "bimap:" + ",".join(sorted({o[0] for o in case["ops"]}))

    def shrink(self, case):
        ops = case["ops"]
        for i in range(len(ops)):
            yield {**case, "ops": ops[:i] + ops[i + 1:]}
        if case.get("kind") == "world":
            for si, sd in enumerate(case["seeds"]):
                for i in range(len(sd)):
                    yield {**case, "seeds": case["seeds"][:si] + [sd[:i] + sd[i + 1:]] + case["seeds"][si + 1:]}
            if any(k != "dict" for k in case["skinds"]):
                yield {**case, "skinds": ["dict"] * len(case["skinds"])}
            return
        if case["init"]:
            for i in range(len(case["init"])):
                yield {**case, "init": case["init"][:i] + case["init"][i + 1:]}

    def distribution(self, cases, observations):
        d = {"histories": len(cases), "ops": {}, "keyerrors": 0, "notbijection_inits": 0, "max_len": 0,
             "world_histories": 0, "world_steps": {}, "world_seed_kinds": {}, "world_rejected_constructions": 0}
        for c, o in zip(cases, observations):
            d["max_len"] = max(d["max_len"], len(c["ops"]))
            if c.get("kind") == "world":
                d["world_histories"] += 1
                for k in c["skinds"]:
                    d["world_seed_kinds"][k] = d["world_seed_kinds"].get(k, 0) + 1
                for op, (r, _) in zip(c["ops"], o["steps"]):
                    name = op[0] + (":" + op[2][0] if op[0] == "New" else "")
                    d["world_steps"][name] = d["world_steps"].get(name, 0) + 1
                    d["world_rejected_constructions"] += r == "NotBijection"
                    d["keyerrors"] += r == "KeyError"
                continue
            if o["init"] is None:
                d["notbijection_inits"] += 1
                continue
            for op, (r, _) in zip(c["ops"], o["steps"]):
                d["ops"][op[0]] = d["ops"].get(op[0], 0) + 1
                d["keyerrors"] += r == "KeyError"
        return d


PROP = C18()
