"""C18 — hugr.utils.BiMap stays a bijection (model: coq/model/BiMapM.v, spec: coq/spec/BiMapS.v)."""
import dataclasses
import itertools

import fw
from fw import gZ, glist, gopt, gpair, gapp, gnat

# model integers -> Python keys/values; includes the falsy ones the property names
PYV = [0, "", (), 1, "a", (0,), "0", 2]
OPS = ["InsL", "InsR", "DelL", "DelR", "SetItem", "DelItem"]


# ---- equal-but-not-identical key/value objects (seeded C18-g) --------------------------------------------------
# The model's keys are integers compared with Z.eqb; the implementation's keys are Python objects compared with
# == / hash.  A model integer i of a case stands for ONE equivalence class of Python objects: a palette entry is a
# list of builders whose results are all == (and hash-equal) to each other; builder 0 gives the canonical one.  A
# case that carries "vars" picks, for every argument of every operation (and, with "look", for every lookup of
# the observation), which builder makes the object, so that the map meets an equal object that is not the one it
# stored: tuples / strings / large ints / frozen dataclass instances built at run time, subclass instances, and
# the cross-type equals 0 == False == 0.0, 1 == True == 1.0.  Observed objects are mapped back by ==.
class _Str(str):
    __slots__ = ()


class _Tup(tuple):
    __slots__ = ()


@dataclasses.dataclass(frozen=True)
class _Port:                    # the shape of the keys hugr itself stores in a BiMap (frozen dataclass, eq by fields)
    node: object
    offset: object


PAL0 = [                        # PYV and its equals; builder 0 returns the very PYV object (interned / constant)
    [lambda: PYV[0], lambda: False, lambda: float("0"), lambda: -float("0")],
    [lambda: PYV[1], lambda: _Str("")],
    [lambda: PYV[2], lambda: _Tup(())],
    [lambda: PYV[3], lambda: True, lambda: float("1")],
    [lambda: PYV[4], lambda: _Str("a")],
    [lambda: PYV[5], lambda: tuple([0]), lambda: tuple([False]), lambda: _Tup([0]), lambda: tuple([float("0")])],
    [lambda: PYV[6], lambda: _Str("0")],
    [lambda: PYV[7], lambda: float("2")],
]
PAL1 = [                        # every builder (also builder 0) makes a NEW object on every call
    [lambda: tuple([0, 0]), lambda: tuple([False, float("0")]), lambda: _Tup([0, 0])],
    [lambda: "".join(["o", "ut"]), lambda: _Str("out")],
    [lambda: int("1" + "0" * 20), lambda: float("1e20")],
    [lambda: _Port(0, 0), lambda: _Port(False, float("0"))],
    [lambda: float("0"), lambda: -float("0"), lambda: False, lambda: int("0")],          # falsy
    [lambda: _Port(1, 0), lambda: _Port(True, 0)],
    [lambda: _Tup(()), lambda: tuple([])],                                                # falsy
    [lambda: frozenset([1, 2]), lambda: frozenset([float("2"), True])],
]
PALS = [PAL0, PAL1]
CANON = [[b[0]() for b in pal] for pal in PALS]
for _pal, _can in zip(PALS, CANON):
    assert len(_pal) == 8
    for _i, _bs in enumerate(_pal):
        for _b in _bs:          # one class: equal and hash-equal to the canonical object, unequal to every other class
            assert _b() == _can[_i] and _can[_i] == _b() and hash(_b()) == hash(_can[_i])
            assert [j for j in range(8) if _can[j] == _b()] == [_i]
assert all(a is b for a, b in zip(CANON[0], PYV))


def _show(x):
    return type(x).__name__ + ":" + repr(x)


class Objs:
    """model integer <-> Python object for one case"""

    def __init__(self, case):
        self.p = case.get("pal", 0)
        self.rot = case.get("rot", 0)
        self.vars = case.get("vars")
        self.look = case.get("look")
        self.ivar = case.get("ivar")

    def py(self, i, var=0):
        bs = PALS[self.p][(i + self.rot) % 8]
        return bs[var % len(bs)]()

    def inv(self, x):
        try:
            return (CANON[self.p].index(x) - self.rot) % 8
        except ValueError:      # an object that is no key/value of the case (seeded C18-j: a default of the seed's class)
            return FOREIGN

    def args(self, t, idxs):
        """the Python arguments of step t (argument j made by builder number octal digit j of vars[t])"""
        n = self.vars[t] if self.vars is not None else 0
        return [self.py(a, (n >> (3 * j)) & 7) for j, a in enumerate(idxs)]

    def lookup(self, t, i):
        return self.py(i, 0 if self.look is None else self.look + t + i)

    def mapping(self, pairs, salt=0):
        iv = self.ivar
        return {self.py(k, 0 if iv is None else iv + salt + j): self.py(v, 0 if iv is None else iv + salt + j + 1)
                for j, (k, v) in enumerate(pairs)}

    def table(self, n):
        return [[_show(b()) for b in PALS[self.p][(i + self.rot) % 8]] if self.vars is not None or self.look is not None
                or self.ivar is not None else repr(self.py(i)) for i in range(n)]


def sim_step(pairs, o):
    """live pairs after a mutator (generator-side bookkeeping only: steers the eq-object stream to re-inserts)"""
    if o[0] in ("InsL", "SetItem", "InsR"):
        k, v = (o[1], o[2]) if o[0] != "InsR" else (o[2], o[1])
        return [[a, b] for a, b in pairs if a != k and b != v] + [[k, v]]
    if o[0] in ("DelL", "DelItem"):
        return [[a, b] for a, b in pairs if a != o[1]]
    return [[a, b] for a, b in pairs if b != o[1]]
SEED_KINDS = ["dict", "OrderedDict", "UserDict"]      # the Python class of a seed mapping (the model sees a mapping)
FOREIGN = 99                    # model integer of an observed object that is no key/value of the case


# ---- exotic classes of the constructor argument (seeded C18-j) ---------------------------------------------------
# The constructor takes a Mapping.  Whatever its class -- a dict subclass that answers absent keys (defaultdict,
# Counter, a subclass with __missing__ or an overridden __getitem__), an ordered / layered / read-only / pure-ABC
# mapping -- the map built from it must be an ordinary BiMap: to the model every one of them is the mapping its
# items() shows.  All of them are coherent mappings (items / values / keys / len / [] of present keys agree).
class _SubDict(dict):
    pass


class _MissDict(dict):          # answers absent keys without storing them; copy() keeps the class (as defaultdict does)
    dflt = 0

    def __missing__(self, key):
        return self.dflt

    def copy(self):
        c = type(self)(self)
        c.dflt = self.dflt
        return c


class _MissStoreDict(_MissDict):  # ... and stores the answer, like defaultdict
    def __missing__(self, key):
        self[key] = self.dflt
        return self.dflt


class _GetDict(dict):           # [] of an absent key answers a default (present keys: exactly dict's answer)
    dflt = 0

    def __getitem__(self, key):
        return dict.get(self, key, self.dflt)

    def copy(self):
        c = type(self)(self)
        c.dflt = self.dflt
        return c


def _abc_mapping(d):
    import collections.abc

    class _AbcMap(collections.abc.Mapping):     # nothing but the three abstract methods, backed by d
        def __getitem__(self, key):
            return d[key]

        def __iter__(self):
            return iter(d)

        def __len__(self):
            return len(d)
    return _AbcMap()


EXOTIC_KINDS = ["defaultdict:int", "defaultdict:str", "defaultdict:tuple", "defaultdict:list", "defaultdict:None",
                "defaultdict:v0", "defaultdict:v1", "Counter", "ChainMap", "ChainMap2", "MappingProxyType", "SubDict",
                "MissDict:v0", "MissDict:v1", "MissStoreDict:v0", "GetDict:v0", "GetDict:v1", "AbcMapping",
                "OrderedDict", "UserDict"]


def mkseed(kind, d, ob):
    """(the mapping handed to BiMap, what the caller writes through) for the plain dict d of a seed"""
    import collections
    import types
    if kind == "dict":
        return d, d
    if kind == "OrderedDict":
        m = collections.OrderedDict(d)
    elif kind == "UserDict":
        m = collections.UserDict(d)
    elif kind.startswith("defaultdict:"):
        f = kind.split(":")[1]
        fac = {"int": int, "str": str, "tuple": tuple, "list": list, "None": None}.get(f, None)
        if f[0] == "v":                                   # the default is value number 0 / 1 of the case
            i = int(f[1:])
            fac = lambda: ob.py(i)
        m = collections.defaultdict(fac, d)
    elif kind == "Counter":
        m = collections.Counter(d)
    elif kind == "ChainMap":
        m = collections.ChainMap(d)
    elif kind == "ChainMap2":                             # the pairs spread over two layers
        its = list(d.items())
        m = collections.ChainMap(dict(its[0::2]), dict(its[1::2]))
        return m, m
    elif kind == "MappingProxyType":
        return types.MappingProxyType(d), d
    elif kind == "AbcMapping":
        return _abc_mapping(d), d
    elif kind == "SubDict":
        m = _SubDict(d)
    else:
        cls, f = kind.split(":")
        m = {"MissDict": _MissDict, "MissStoreDict": _MissStoreDict, "GetDict": _GetDict}[cls](d)
        m.dflt = ob.py(int(f[1:]))
    return m, m


def seed_write(w, o0, args):
    """the caller's write to its own mapping"""
    import collections
    layers = w.maps if isinstance(w, collections.ChainMap) else [w]
    if o0 == "SeedSet":
        w[args[0]] = args[1]
    elif o0 == "SeedDel":
        for m in layers:
            m.pop(args[0], None)
    else:
        for m in layers:
            m.clear()


def all_ops(nk, nv):
    res = []
    for k in range(nk):
        for v in range(nv):
            res += [["InsL", k, v], ["InsR", v, k], ["SetItem", k, v]]
    res += [["DelL", k] for k in range(nk)] + [["DelItem", k] for k in range(nk)]
    res += [["DelR", v] for v in range(nv)]
    return res


def core_ops(nk, nv):
    """the four mutators without their __setitem__/__delitem__ aliases"""
    res = []
    for k in range(nk):
        for v in range(nv):
            res += [["InsL", k, v], ["InsR", v, k]]
    return res + [["DelL", k] for k in range(nk)] + [["DelR", v] for v in range(nv)]


def world_ops(ns, nm, nk, nv, map_ops):
    """every step of a world with ns seed mappings and nm map variables (model/BiMapHeap.v wop)"""
    res = []
    for j in range(nm):
        res.append(["New", j, ["none"]])
        res += [["New", j, ["seed", s]] for s in range(ns)]
        res += [["New", j, ["map", i]] for i in range(nm)]
        res += [["Op", j, list(o)] for o in map_ops]
    for s in range(ns):
        res += [["SeedSet", s, k, v] for k in range(nk) for v in range(nv)]
        res += [["SeedDel", s, k] for k in range(nk)]
        res.append(["SeedClear", s])
    return res


def W(seeds, nm, ops, nk=3, nv=3, skinds=None):
    return {"kind": "world", "nk": nk, "nv": nv, "seeds": seeds, "skinds": skinds or ["dict"] * len(seeds),
            "nm": nm, "ops": ops}


class C18(fw.Prop):
    id = "C18"
    props_file = "props/C18.v"
    run_file = "run/C18Run.v"
    run_module = "run.C18Run"
    shard = 400
    rule = ("histories of BiMap mutators run on hugr.utils.BiMap and on the Coq model; exhaustive small "
            "scope (all histories of a fixed length over a 2x2 / 3x3 universe) plus random histories "
            "over 6 keys x 6 values with random initial maps (including non-injective ones); "
            "non-trivial = the history contains a displacing insert (key or value already present) "
            "or a deletion of a present key; distinct = by canonical input.  World histories: several map "
            "variables and the caller's seed mappings (dict / OrderedDict / UserDict) in one run -- construction "
            "from nothing, from a seed, from another map, mutators on any map, writes of the caller to the seeds; "
            "after every step ALL maps and seeds are observed; exhaustive = every pair of steps after two "
            "constructions from one seed and every single step after three other construction prefixes over a "
            "2x2 universe, plus random histories; non-trivial = a map or a "
            "seed is modified while another live map shares its origin or is its origin.  Equal-object histories: "
            "a model key stands for a class of ==-equal Python objects (0 / False / 0.0; '' / a str subclass ''; "
            "(0,) / tuple([0]) / (False,); run-time built tuples, strings, 10**20 / 1e20, frozen dataclass "
            "instances, frozensets), every argument of every operation and every lookup of the observation is "
            "built anew by a builder chosen per argument, observed objects are mapped back by ==; exhaustive = all "
            "18^2 histories over 2x2 with the second step using other objects than the first, per palette and pair "
            "of classes; random single-map histories (35 % of steps re-insert a live pair) and worlds.  Exotic "
            "constructor arguments: the mapping handed to BiMap(...) is a defaultdict (factories int / str / tuple / "
            "list / None / a value of the case), Counter, ChainMap (one / two layers), MappingProxyType, OrderedDict, "
            "UserDict, a bare collections.abc.Mapping, dict subclasses (plain, with __missing__ answering or answering "
            "and storing, with an overridden __getitem__; copy() keeps the class); exhaustive = every class x 3 "
            "initial mappings x every single step over 3x3, plus a non-injective and an empty mapping of every "
            "class; random single-map histories and worlds in which half of the steps delete (mostly absent keys)")
    trusted = ["keys/values are modelled as an arbitrary type with decidable equality; Python's == / hash "
               "on the sampled objects (0, '', (), 1, 'a', (0,), '0', 2, their cross-type / subclass equals, and the "
               "run-time built tuples / strings / big ints / dataclass instances / frozensets of PAL1) is assumed "
               "to be that equality (asserted pairwise at import of harness/props/c18.py); object identity of keys "
               "is deliberately not in the model: no clause of the property depends on it"]
    trusted = trusted + ["identity of Python dict objects is modelled by heap addresses (model/BiMapHeap.v); a seed mapping "
                         "of class dict / OrderedDict / UserDict is the same mapping to the model"]
    assumptions = ["None is never used as a key or value (excluded by the property)"]

    def corpus(self, ctx):
        two = [[0, 0], [1, 1]]
        return [
            # seeded C18-f: the constructor kept the caller's dict object as the forward dict
            W([two], 2, [["New", 0, ["seed", 0]], ["New", 1, ["seed", 0]], ["Op", 0, ["InsL", 2, 2]]]),
            W([two], 2, [["New", 0, ["seed", 0]], ["New", 1, ["seed", 0]], ["Op", 0, ["InsL", 2, 2]],
                         ["Op", 0, ["InsR", 1, 0]], ["Op", 0, ["DelItem", 1]], ["Op", 1, ["DelR", 0]]]),
            W([two], 1, [["New", 0, ["seed", 0]], ["SeedSet", 0, 2, 1]]),            # the caller reuses its dict afterwards
            W([two], 1, [["New", 0, ["seed", 0]], ["SeedClear", 0]]),
            W([two], 1, [["New", 0, ["seed", 0]], ["Op", 0, ["DelL", 0]]]),            # the map must not write into the seed
            W([two], 2, [["New", 0, ["seed", 0]], ["New", 1, ["map", 0]], ["Op", 0, ["DelL", 0]],
                         ["Op", 1, ["InsR", 1, 2]]]),                                    # a map built from a map
            W([], 2, [["New", 0, ["none"]], ["New", 1, ["none"]], ["Op", 0, ["InsL", 0, 0]]]),   # a shared default
            W([two, [[0, 1], [1, 1]]], 2, [["New", 0, ["seed", 1]], ["New", 0, ["seed", 0]], ["New", 0, ["seed", 1]],
                                           ["SeedDel", 1, 0], ["New", 1, ["seed", 1]]],
              skinds=["UserDict", "OrderedDict"]),                                       # rejected construction changes nothing
        ] + self._corpus_eqobj() + self._corpus_exotic()

    def _corpus_exotic(self):
        """seeded C18-j: the forward dict kept the CLASS of the constructor argument (fwd.copy()), a defaultdict's
        __missing__ answered -- and stored -- absent keys"""
        ab = [[0, 3], [1, 0]]                                  # 0 -> 1, '' -> 0 : the falsy 0 is a live right value
        H = lambda kind, ops, init=ab, nk=3, nv=4: {"nk": nk, "nv": nv, "init": [list(x) for x in init], "ops": ops,
                                                    "ikind": kind}
        res = [
            H("defaultdict:int", [["DelL", 2]]),              # the demo: delete_left('zz') raised nothing, removed bck[0]
            H("defaultdict:int", [["DelItem", 2]]),
            H("defaultdict:int", []),                         # the lookups of the observation alone
            H("defaultdict:int", [["DelL", 2]], init=[[0, 3]]),      # no pair owns the default
            H("defaultdict:list", [["DelL", 2]]),             # an unhashable default
            H("Counter", [["DelL", 2]]),                      # answers 0 without storing; its `del` never raises
            H("Counter", [["DelItem", 2], ["InsL", 2, 0]]),
            H("MissDict:v0", [["DelL", 2]]),
            H("MissStoreDict:v0", [["DelL", 2]]),
            H("GetDict:v0", [["DelL", 2]]),
            H("OrderedDict", [["DelL", 2], ["InsR", 0, 2]]),
            H("defaultdict:int", [], init=[[0, 1], [1, 1]]),  # non-injective: rejected whatever the class
        ]
        for kind in ("defaultdict:int", "Counter", "ChainMap2", "MappingProxyType", "AbcMapping"):
            res.append(W([ab], 2, [["New", 0, ["seed", 0]], ["Op", 0, ["DelL", 2]], ["New", 1, ["map", 0]],
                                   ["Op", 1, ["DelItem", 2]], ["SeedSet", 0, 2, 1], ["SeedDel", 0, 0],
                                   ["New", 1, ["seed", 0]], ["Op", 1, ["DelL", 0]], ["SeedClear", 0]],
                         nk=3, nv=4, skinds=[kind]))
        return res

    def _corpus_eqobj(self):
        """seeded C18-g: 'is the displaced entry the one just written' decided by identity instead of equality"""
        def H(ops, vars_, pal=1, nk=2, nv=2, init=(), **kw):
            return {"nk": nk, "nv": nv, "init": [list(x) for x in init], "ops": ops, "pal": pal, "rot": 0, "vars": vars_,
                    "look": 1, **kw}
        w = W([[[0, 1]]], 1, [["New", 0, ["seed", 0]], ["Op", 0, ["InsL", 0, 1]]], nk=2, nv=2)
        w.update({"pal": 1, "rot": 0, "vars": [0, 0], "look": 1, "ivar": 0})
        return [
            H([["InsL", 0, 1], ["InsL", 0, 1]], [0, 0]),                       # (0, 0) -> 'out' twice, tuple/str built at run time
            H([["InsR", 0, 1], ["InsR", 0, 1]], [0, 0]),                       # the same pair again from the right side
            H([["SetItem", 0, 1], ["SetItem", 0, 1]], [0, 0o01], pal=0),       # bm[0] = '' ; bm[False] = ''  (only the key differs)
            H([["InsL", 0, 1], ["InsL", 0, 1]], [0, 0o10], pal=0),             # only the value differs ('' / a str subclass '')
            H([["InsL", 0, 1], ["InsL", 3, 2], ["InsL", 0, 1]], [0, 0, 0], nk=4, nv=3),     # the demo: a second pair in between
            H([["InsL", 3, 2]], [0], nk=4, nv=3, init=[[3, 2]], ivar=0),        # pair from the constructor: _Port(0, 0) -> 10**20
            H([["InsL", 0, 1], ["DelL", 0]], [0, 1]),                          # deletion addressed with an equal object
            H([["InsL", 0, 1], ["DelR", 1]], [0, 1]),
            H([["InsL", 0, 1], ["InsL", 0, 0]], [0, 0o12]),                    # key update / value displacement with equal objects
            H([["InsL", 0, 1], ["InsR", 1, 1]], [0, 0o21]),
            w,                                                                   # pair taken from the caller's dict, re-linked
            H([], [], init=[[0, 1], [1, 1]], ivar=0),                           # two keys -> equal values that are two objects: rejected
            H([], [], pal=0, init=[[0, 0], [1, 0]], ivar=0),                    # {0: False, '': 0.0}: rejected
        ]

    def _gen_world(self, rng, tier, ctx):
        cases = []
        # exhaustive: two maps built from one seed (from the seed twice / the second from the first), then every
        # pair of steps of the whole world over a 2x2 universe
        alpha = world_ops(1, 2, 2, 2, core_ops(2, 2))
        pre = [["New", 0, ["seed", 0]], ["New", 1, ["seed", 0]]]
        for h in itertools.product(alpha, repeat=2):
            cases.append(W([[[0, 0]]], 2, [list(o) for o in pre] + [list(o) for o in h], nk=2, nv=2))
        for pre in ([["New", 0, ["seed", 0]], ["New", 1, ["map", 0]]], [["New", 0, ["none"]], ["New", 1, ["none"]]],
                    [["New", 0, ["seed", 0]]]):
            for o in alpha:
                cases.append(W([[[0, 0]]], 2, [list(x) for x in pre] + [list(o)], nk=2, nv=2))
        ctx.stats["exhaustive_scopes"] = ctx.stats.get("exhaustive_scopes", []) + [
            f"worlds (2 maps, 1 seed {{0:0}}, 2x2): two constructions from the seed then all {len(alpha)}^2 pairs of "
            f"steps; seed then map-from-map / two BiMap() / one map from the seed, then each of the {len(alpha)} steps"]
        n = 250 if tier == "quick" else 1500
        for _ in range(n):
            nk, nv = rng.randint(2, 5), rng.randint(2, 5)
            ns, nm = rng.randint(1, 2), rng.randint(2, 3)
            seeds = []
            for _s in range(ns):
                ks = rng.sample(range(nk), rng.randint(0, nk))
                if rng.random() < 0.85:                                  # injective
                    vs = rng.sample(range(nv), min(len(ks), nv))
                    seeds.append([[k, v] for k, v in zip(ks, vs)])
                else:
                    seeds.append([[k, rng.randrange(nv)] for k in ks])
            skinds = [rng.choice(SEED_KINDS) if rng.random() < 0.4 else "dict" for _s in range(ns)]
            mops = all_ops(nk, nv)
            ops = []
            for t in range(rng.randint(2, 24)):
                x = rng.random()
                if x < (0.7 if t < 2 else 0.15):
                    y = rng.random()
                    src = ["seed", rng.randrange(ns)] if y < 0.65 else ["map", rng.randrange(nm)] if y < 0.9 else ["none"]
                    ops.append(["New", rng.randrange(nm), src])
                elif x < 0.75:
                    ops.append(["Op", rng.randrange(nm), list(rng.choice(mops))])
                else:
                    s_ = rng.randrange(ns)
                    y = rng.random()
                    ops.append(["SeedSet", s_, rng.randrange(nk), rng.randrange(nv)] if y < 0.6
                               else ["SeedDel", s_, rng.randrange(nk)] if y < 0.9 else ["SeedClear", s_])
            cases.append(W(seeds, nm, ops, nk=nk, nv=nv, skinds=skinds))
        return cases

    def generate(self, rng, tier, ctx):
        # the three streams are drawn one after the other: a later stream never changes the cases of an earlier one
        return (self._gen_single(rng, tier, ctx) + self._gen_world(rng, tier, ctx) + self._gen_eqobj(rng, tier, ctx)
                + self._gen_exotic(rng, tier, ctx))

    def _gen_exotic(self, rng, tier, ctx):
        """the constructor argument is a mapping of an exotic class (EXOTIC_KINDS); afterwards absent keys are
        looked up (every observation does) and deleted (every second random step is a deletion)"""
        cases = []
        u33 = all_ops(3, 3)
        inits = ([[0, 0]], [[0, 1], [1, 0]], [[2, 2], [0, 1]])
        for kind in EXOTIC_KINDS:
            for init in inits:
                for o in u33:
                    cases.append({"nk": 3, "nv": 3, "init": [list(x) for x in init], "ops": [list(o)], "ikind": kind})
            cases.append({"nk": 2, "nv": 2, "init": [[0, 0], [1, 0]], "ops": [], "ikind": kind})       # rejected
            for o in (["DelL", 0], ["DelItem", 0], ["DelR", 0], ["InsL", 0, 0]):                       # `fwd or {}`
                cases.append({"nk": 2, "nv": 2, "init": [], "ops": [o, ["DelL", 1]], "ikind": kind})
        scopes = [f"exotic constructor arguments: {len(EXOTIC_KINDS)} mapping classes x 3 initial mappings x each of the "
                  f"{len(u33)} steps over 3x3; a non-injective and an empty mapping of every class"]
        if tier != "quick":
            for kind in EXOTIC_KINDS:
                for h in itertools.product(u33, repeat=2):
                    cases.append({"nk": 3, "nv": 3, "init": [[0, 1], [1, 0]], "ops": [list(o) for o in h], "ikind": kind})
            scopes.append(f"exotic constructor arguments: {len(EXOTIC_KINDS)} classes x all {len(u33)}^2 histories over 3x3 "
                          f"from {{0:1, 1:0}}")
        ctx.stats["exhaustive_scopes"] = ctx.stats.get("exhaustive_scopes", []) + scopes

        def pick(u, nk, nv):
            if rng.random() < 0.5:
                x = rng.random()
                return ["DelL", rng.randrange(nk)] if x < 0.4 else ["DelItem", rng.randrange(nk)] if x < 0.7 \
                    else ["DelR", rng.randrange(nv)]
            return list(rng.choice(u))
        n = 250 if tier == "quick" else 2500
        for _ in range(n):
            nk, nv = rng.randint(2, 6), rng.randint(1, 6)
            ks = rng.sample(range(nk), rng.randint(0, nk - 1))              # at least one absent key
            if rng.random() < 0.9:
                init = [[k, v] for k, v in zip(ks, rng.sample(range(nv), min(len(ks), nv)))]
            else:
                init = [[k, rng.randrange(nv)] for k in ks]
            u = all_ops(nk, nv)
            ops = [pick(u, nk, nv) for _t in range(rng.randint(1, 20))]
            c = {"nk": nk, "nv": nv, "init": init, "ops": ops, "ikind": rng.choice(EXOTIC_KINDS)}
            if rng.random() < 0.5:
                c.update({"pal": rng.randrange(2), "rot": rng.randrange(8), "vars": [rng.randrange(64) for _o in ops],
                          "look": rng.randrange(8), "ivar": rng.randrange(8)})
            cases.append(c)
        n = 150 if tier == "quick" else 1200
        for _ in range(n):
            nk, nv = rng.randint(2, 5), rng.randint(2, 5)
            ns, nm = rng.randint(1, 2), 2
            seeds = []
            for _s in range(ns):
                ks = rng.sample(range(nk), rng.randint(0, nk - 1))
                if rng.random() < 0.9:
                    seeds.append([[k, v] for k, v in zip(ks, rng.sample(range(nv), min(len(ks), nv)))])
                else:
                    seeds.append([[k, rng.randrange(nv)] for k in ks])
            mops, ops = all_ops(nk, nv), []
            for t in range(rng.randint(2, 16)):
                x = rng.random()
                if x < (0.8 if t < 2 else 0.15):
                    y = rng.random()
                    src = ["seed", rng.randrange(ns)] if y < 0.8 else ["map", rng.randrange(nm)] if y < 0.95 else ["none"]
                    ops.append(["New", rng.randrange(nm), src])
                elif x < 0.8:
                    ops.append(["Op", rng.randrange(nm), pick(mops, nk, nv)])
                else:
                    s_ = rng.randrange(ns)
                    y = rng.random()
                    ops.append(["SeedSet", s_, rng.randrange(nk), rng.randrange(nv)] if y < 0.6
                               else ["SeedDel", s_, rng.randrange(nk)] if y < 0.9 else ["SeedClear", s_])
            c = W(seeds, nm, ops, nk=nk, nv=nv, skinds=[rng.choice(EXOTIC_KINDS) for _s in range(ns)])
            if rng.random() < 0.4:
                c.update({"pal": rng.randrange(2), "rot": rng.randrange(8), "vars": [rng.randrange(64) for _o in ops],
                          "look": rng.randrange(8), "ivar": rng.randrange(8)})
            cases.append(c)
        return cases

    def _gen_eqobj(self, rng, tier, ctx):
        """histories in which every operation and every lookup is given an object that is EQUAL to the stored key /
        value but is not that object (palettes PAL0 / PAL1 above)"""
        cases = []
        u22 = all_ops(2, 2)
        rots = (0, 4) if tier == "quick" else range(8)
        for pal in (0, 1):
            for rot in rots:
                for h in itertools.product(u22, repeat=2):
                    cases.append({"nk": 2, "nv": 2, "init": [], "ops": [list(o) for o in h], "pal": pal, "rot": rot,
                                  "vars": [0o00, 0o11], "look": 1})
        scopes = [f"eq-objects: all {len(u22)}^2 histories over 2x2 from the empty map, second step with other objects "
                  f"than the first, for 2 palettes x {len(rots)} pairs of adjacent equivalence classes"]
        if tier != "quick":
            for pal in (0, 1):
                for h in itertools.product(u22, repeat=3):
                    cases.append({"nk": 2, "nv": 2, "init": [], "ops": [list(o) for o in h], "pal": pal, "rot": 4 * pal,
                                  "vars": [0o00, 0o11, 0o22], "look": 1})
            scopes.append(f"eq-objects: all {len(u22)}^3 histories over 2x2, three different objects per class, 2 palettes")
        ctx.stats["exhaustive_scopes"] = ctx.stats.get("exhaustive_scopes", []) + scopes
        n = 300 if tier == "quick" else 3000
        for _ in range(n):
            nk, nv = rng.randint(1, 6), rng.randint(1, 6)
            ks = rng.sample(range(nk), rng.randint(0, nk))
            if rng.random() < 0.9:
                init = [[k, v] for k, v in zip(ks, rng.sample(range(nv), min(len(ks), nv)))]
            else:
                init = [[k, rng.randrange(nv)] for k in ks]
            live, ops, u = [list(x) for x in init], [], all_ops(nk, nv)
            for _t in range(rng.randint(1, 30)):
                if live and rng.random() < 0.35:                   # the pair is already there
                    k, v = rng.choice(live)
                    o = rng.choice([["InsL", k, v], ["InsR", v, k], ["SetItem", k, v]])
                else:
                    o = list(rng.choice(u))
                live = sim_step(live, o)
                ops.append(o)
            cases.append({"nk": nk, "nv": nv, "init": init, "ops": ops, "pal": rng.randrange(2), "rot": rng.randrange(8),
                          "vars": [rng.randrange(64) for _o in ops], "look": rng.randrange(8), "ivar": rng.randrange(8)})
        n = 80 if tier == "quick" else 600
        for _ in range(n):
            nk, nv = rng.randint(2, 5), rng.randint(2, 5)
            ns, nm = rng.randint(1, 2), 2
            seeds = []
            for _s in range(ns):
                ks = rng.sample(range(nk), rng.randint(1, nk))
                seeds.append([[k, v] for k, v in zip(ks, rng.sample(range(nv), min(len(ks), nv)))])
            mops, ops = all_ops(nk, nv), []
            for t in range(rng.randint(2, 16)):
                x = rng.random()
                if x < (0.8 if t < 2 else 0.1):
                    y = rng.random()
                    src = ["seed", rng.randrange(ns)] if y < 0.7 else ["map", rng.randrange(nm)] if y < 0.9 else ["none"]
                    ops.append(["New", rng.randrange(nm), src])
                elif x < 0.8:
                    if rng.random() < 0.4:                          # a pair of a seed: probably in the map already
                        k, v = rng.choice(rng.choice(seeds))
                        o = rng.choice([["InsL", k, v], ["InsR", v, k], ["SetItem", k, v]])
                    else:
                        o = list(rng.choice(mops))
                    ops.append(["Op", rng.randrange(nm), o])
                else:
                    s_ = rng.randrange(ns)
                    y = rng.random()
                    ops.append(["SeedSet", s_, rng.randrange(nk), rng.randrange(nv)] if y < 0.7
                               else ["SeedDel", s_, rng.randrange(nk)])
            c = W(seeds, nm, ops, nk=nk, nv=nv,
                  skinds=[rng.choice(SEED_KINDS) if rng.random() < 0.3 else "dict" for _s in range(ns)])
            c.update({"pal": rng.randrange(2), "rot": rng.randrange(8), "vars": [rng.randrange(64) for _o in ops],
                      "look": rng.randrange(8), "ivar": rng.randrange(8)})
            cases.append(c)
        return cases

    def _gen_single(self, rng, tier, ctx):
        cases = []
        # exhaustive small scopes
        u22 = all_ops(2, 2)
        depth = 3 if tier == "quick" else 4
        for h in itertools.product(u22, repeat=depth):
            cases.append({"nk": 2, "nv": 2, "init": [], "ops": [list(o) for o in h]})
        u33 = all_ops(3, 3)
        for h in itertools.product(u33, repeat=2):
            cases.append({"nk": 3, "nv": 3, "init": [[0, 0]], "ops": [list(o) for o in h]})
        ctx.stats["exhaustive_scopes"] = [f"all {len(u22)}^{depth} histories over 2 keys x 2 values from the empty map",
                                          f"all {len(u33)}^2 histories over 3x3 from {{0:0}}"]
        # random long histories
        n = 300 if tier == "quick" else 4000
        for _ in range(n):
            nk, nv = rng.randint(1, 6), rng.randint(1, 6)
            init = []
            for k in rng.sample(range(nk), rng.randint(0, nk)):
                init.append([k, rng.randrange(nv)])       # may be non-injective -> NotBijection
            ops = []
            u = all_ops(nk, nv)
            for _ in range(rng.randint(1, 40)):
                ops.append(list(rng.choice(u)))
            cases.append({"nk": nk, "nv": nv, "init": init, "ops": ops})
        return cases

    def _obs(self, bm, nk, nv, ob=None, t=0):
        ob = ob or Objs({})
        geti = []
        for k in range(nk):
            try:
                geti.append(ob.inv(bm[ob.lookup(t, k)]))
            except KeyError:
                geti.append(None)
        gl = lambda x: None if x is None else ob.inv(x)
        return {
            "items": [[ob.inv(k), ob.inv(v)] for k, v in bm.items()],
            "len": len(bm),
            "iter": [ob.inv(k) for k in bm],
            "getr": [gl(bm.get_right(ob.lookup(t + 1, k))) for k in range(nk)],
            "getl": [gl(bm.get_left(ob.lookup(t + 2, v))) for v in range(nv)],
            "geti": geti,
        }

    def _wobs(self, seeds, slots, nk, nv, ob=None, t=0):
        ob = ob or Objs({})
        return {"seeds": [[[ob.inv(k), ob.inv(v)] for k, v in sd.items()] for sd in seeds],
                "slots": [None if bm is None else self._obs(bm, nk, nv, ob, t + j) for j, bm in enumerate(slots)]}

    def _observe_world(self, case):
        import collections
        from hugr.utils import BiMap, NotBijection
        nk, nv = case["nk"], case["nv"]
        ob = Objs(case)
        sw = [mkseed(kind, ob.mapping(sd, si), ob) for si, (sd, kind) in enumerate(zip(case["seeds"], case["skinds"]))]
        seeds, wr = [x[0] for x in sw], [x[1] for x in sw]
        slots = [None] * case["nm"]
        res = {"init": self._wobs(seeds, slots, nk, nv, ob), "steps": []}
        for t, o in enumerate(case["ops"]):
            r = "Done"
            try:
                if o[0] == "New":
                    j, src = o[1], o[2]
                    if src[0] == "none":
                        arg = ()
                    elif src[0] == "seed":
                        arg = (seeds[src[1]],) if src[1] < len(seeds) else None
                    else:
                        arg = (slots[src[1]],) if src[1] < len(slots) and slots[src[1]] is not None else None
                    if arg is not None and j < len(slots):
                        try:
                            slots[j] = BiMap(*arg)
                        except NotBijection:
                            r = "NotBijection"
                elif o[0] == "Op":
                    bm = slots[o[1]] if o[1] < len(slots) else None
                    if bm is not None:
                        r = self._apply(bm, o[2][0], ob.args(t, o[2][1:]))
                elif o[1] < len(seeds):
                    seed_write(wr[o[1]], o[0], ob.args(t, o[2:]))
            except Exception as e:  # anything else is an observable difference
                r = "Other:" + type(e).__name__
            res["steps"].append([r, self._wobs(seeds, slots, nk, nv, ob, t + 1)])
        return res

    def _apply(self, bm, name, args):
        try:
            if name == "InsL":
                bm.insert_left(*args)
            elif name == "InsR":
                bm.insert_right(*args)
            elif name == "DelL":
                bm.delete_left(*args)
            elif name == "DelR":
                bm.delete_right(*args)
            elif name == "SetItem":
                bm[args[0]] = args[1]
            elif name == "DelItem":
                del bm[args[0]]
            return "Done"
        except KeyError:
            return "KeyError"

    def observe(self, case, ctx):
        from hugr.utils import BiMap, NotBijection
        if case.get("kind") == "world":
            return self._observe_world(case)
        nk, nv = case["nk"], case["nv"]
        ob = Objs(case)
        try:
            bm = BiMap(mkseed(case.get("ikind", "dict"), ob.mapping(case["init"]), ob)[0])
        except NotBijection:
            return {"init": None, "steps": []}
        except Exception as e:  # any other exception class: an observation that neither model nor spec can produce
            inj = len({v for _k, v in case["init"]}) == len(case["init"])
            return {"init": None if inj else {"items": [], "len": 0, "iter": [], "getr": [], "getl": [], "geti": []},
                    "steps": [], "constructor_raised": type(e).__name__}
        res = {"init": self._obs(bm, nk, nv, ob), "steps": []}
        for t, o in enumerate(case["ops"]):
            name, args = o[0], ob.args(t, o[1:])
            try:
                if name == "InsL":
                    bm.insert_left(*args)
                elif name == "InsR":
                    bm.insert_right(*args)
                elif name == "DelL":
                    bm.delete_left(*args)
                elif name == "DelR":
                    bm.delete_right(*args)
                elif name == "SetItem":
                    bm[args[0]] = args[1]
                elif name == "DelItem":
                    del bm[args[0]]
                r = "Done"
            except KeyError:
                r = "KeyError"
            except Exception as e:  # anything else is an observable difference
                r = "Other:" + type(e).__name__
            res["steps"].append([r, self._obs(bm, nk, nv, ob, t + 1)])
        return res

    def _gobs(self, o):
        return gapp("Build_obs", glist(gpair(gZ(k), gZ(v)) for k, v in o["items"]), gnat(o["len"]),
                    glist(gZ(k) for k in o["iter"]),
                    glist(gopt(None if x is None else gZ(x)) for x in o["getr"]),
                    glist(gopt(None if x is None else gZ(x)) for x in o["getl"]),
                    glist(gopt(None if x is None else gZ(x)) for x in o["geti"]))

    def _gwobs(self, o):
        return gapp("Build_wobs", glist(glist(gpair(gZ(k), gZ(v)) for k, v in sd) for sd in o["seeds"]),
                    glist(gopt(None if x is None else self._gobs(x)) for x in o["slots"]))

    def _gwop(self, o):
        if o[0] == "New":
            src = o[2]
            g = "sNone" if src[0] == "none" else gapp("sSeed" if src[0] == "seed" else "sMap", gnat(src[1]))
            return gapp("wNew", gnat(o[1]), g)
        if o[0] == "Op":
            return gapp("wOp", gnat(o[1]), gapp(o[2][0], *[gZ(x) for x in o[2][1:]]))
        return gapp("w" + o[0], gnat(o[1]), *[gZ(x) for x in o[2:]])

    def _literal_world(self, case, obs):
        steps = []
        for o, (r, ob) in zip(case["ops"], obs["steps"]):
            # an unexpected exception class is never equal to the model's outcome of that step
            rr = r if r in ("Done", "KeyError", "NotBijection") else ("KeyError" if o[0] != "Op" else "NotBijection")
            steps.append(gpair(self._gwop(o), gpair(rr, self._gwobs(ob))))
        return gapp("CW", gapp("Build_wcase", glist(gZ(k) for k in range(case["nk"])), glist(gZ(v) for v in range(case["nv"])),
                               glist(glist(gpair(gZ(k), gZ(v)) for k, v in sd) for sd in case["seeds"]),
                               gnat(case["nm"]), self._gwobs(obs["init"]), glist(steps)))

    def literal(self, case, obs, ctx):
        if case.get("kind") == "world":
            return self._literal_world(case, obs)
        steps = []
        if obs["init"] is not None:
            for o, (r, ob) in zip(case["ops"], obs["steps"]):
                rr = r if r in ("Done", "KeyError") else "NotBijection"   # any other exception: never equal to the model's
                steps.append(gpair(gapp(o[0], *[gZ(x) for x in o[1:]]), gpair(rr, self._gobs(ob))))
        return gapp("CH", gapp("Build_hcase", glist(gZ(k) for k in range(case["nk"])), glist(gZ(v) for v in range(case["nv"])),
                               glist(gpair(gZ(k), gZ(v)) for k, v in case["init"]),
                               gopt(None if obs["init"] is None else self._gobs(obs["init"])), glist(steps)))

    def _nontrivial_world(self, case, obs):
        # a map or a seed is modified while ANOTHER live map has it as origin or shares its origin
        nm = case["nm"]
        origin = [None] * nm                       # per slot: the set of seeds/slots its content was taken from
        for o, (r, _ob) in zip(case["ops"], obs["steps"]):
            if r != "Done":
                continue
            if o[0] == "New":
                src = o[2]
                if src[0] == "seed" and src[1] < len(case["seeds"]):
                    origin[o[1]] = {("seed", src[1])}
                elif src[0] == "map" and src[1] < nm and origin[src[1]] is not None:
                    origin[o[1]] = set(origin[src[1]]) | {("map", src[1])}
                    origin[src[1]] = set(origin[src[1]]) | {("map", src[1])}
                elif src[0] == "none":
                    origin[o[1]] = {("none",)}
            elif o[0] == "Op" and o[1] < nm and origin[o[1]] is not None:
                if any(j != o[1] and origin[j] is not None and origin[j] & origin[o[1]] for j in range(nm)):
                    return True
            elif o[0].startswith("Seed"):
                if any(origin[j] is not None and ("seed", o[1]) in origin[j] for j in range(nm)):
                    return True
        return False

    def nontrivial(self, case, obs):
        if case.get("kind") == "world":
            return self._nontrivial_world(case, obs)
        if obs["init"] is None:
            return False
        cur = obs["init"]["items"]
        for o, (r, ob) in zip(case["ops"], obs["steps"]):
            if o[0] in ("InsL", "SetItem", "InsR"):
                k, v = (o[1], o[2]) if o[0] != "InsR" else (o[2], o[1])
                if any((a == k) != (b == v) for a, b in cur):
                    return True
            elif r == "Done":
                return True
            cur = ob["items"]
        return False

    def describe(self, case, obs):
        return {"input": case, "python_values": Objs(case).table(max(case["nk"], case["nv"])), "observed": obs}

    def signature(self, case, obs, ctx):
        eq = "-eqobj" if any(case.get(f) is not None for f in ("vars", "look", "ivar")) else ""
        if case.get("kind") == "world":
            return f"bimap-world{eq}:" + ",".join(sorted({o[0] if o[0] != "Op" else o[2][0] for o in case["ops"]}))
        return f"bimap{eq}:" + ",".join(sorted({o[0] for o in case["ops"]}))

    def shrink(self, case):
        ops = case["ops"]
        vs = case.get("vars")
        for i in range(len(ops)):
            c = {**case, "ops": ops[:i] + ops[i + 1:]}
            if vs is not None:
                c["vars"] = vs[:i] + vs[i + 1:]
            yield c
        if vs is not None:                                   # towards the literal objects, if the failure survives that
            if any(vs):
                yield {**case, "vars": [0] * len(vs)}
                for i in range(len(vs)):
                    if vs[i]:
                        yield {**case, "vars": vs[:i] + [0] + vs[i + 1:]}
            if case.get("pal", 0) or case.get("rot", 0):
                yield {**case, "pal": 0, "rot": 0}
                yield {**case, "rot": 0}
            if not any(vs) and not case.get("pal", 0) and not case.get("rot", 0):     # the plain literal case
                yield {k: v for k, v in case.items() if k not in ("vars", "look", "ivar", "pal", "rot")}
        for f in ("look", "ivar"):
            if case.get(f):
                yield {**case, f: 0}
        if case.get("kind") == "world":
            for si, sd in enumerate(case["seeds"]):
                for i in range(len(sd)):
                    yield {**case, "seeds": case["seeds"][:si] + [sd[:i] + sd[i + 1:]] + case["seeds"][si + 1:]}
            if any(k != "dict" for k in case["skinds"]):
                yield {**case, "skinds": ["dict"] * len(case["skinds"])}
            return
        if case["init"]:
            for i in range(len(case["init"])):
                yield {**case, "init": case["init"][:i] + case["init"][i + 1:]}
        if case.get("ikind", "dict") != "dict":
            yield {k: v for k, v in case.items() if k != "ikind"}

    def distribution(self, cases, observations):
        d = {"histories": len(cases), "ops": {}, "keyerrors": 0, "notbijection_inits": 0, "max_len": 0,
             "world_histories": 0, "world_steps": {}, "world_seed_kinds": {}, "world_rejected_constructions": 0,
             "eqobj_histories": 0, "eqobj_palettes": {}, "eqobj_reinserts_of_a_present_pair": 0,
             "eqobj_deletes_of_a_present_key": 0, "init_kinds": {}, "exotic_deletes_of_an_absent_key": 0}
        for c, o in zip(cases, observations):
            if c.get("ikind") is not None:
                d["init_kinds"][c["ikind"]] = d["init_kinds"].get(c["ikind"], 0) + 1
                d["exotic_deletes_of_an_absent_key"] += sum(r == "KeyError" for r, _ob in o["steps"])
            d["max_len"] = max(d["max_len"], len(c["ops"]))
            if c.get("vars") is not None:
                d["eqobj_histories"] += 1
                pr = "palette%d" % c.get("pal", 0)
                d["eqobj_palettes"][pr] = d["eqobj_palettes"].get(pr, 0) + 1
                if c.get("kind") != "world" and o["init"] is not None:
                    cur = o["init"]["items"]
                    for op, (r, ob) in zip(c["ops"], o["steps"]):
                        if op[0] in ("InsL", "SetItem", "InsR"):
                            kv = [op[1], op[2]] if op[0] != "InsR" else [op[2], op[1]]
                            d["eqobj_reinserts_of_a_present_pair"] += kv in cur
                        else:
                            d["eqobj_deletes_of_a_present_key"] += r == "Done"
                        cur = ob["items"]
            if c.get("kind") == "world":
                d["world_histories"] += 1
                for k in c["skinds"]:
                    d["world_seed_kinds"][k] = d["world_seed_kinds"].get(k, 0) + 1
                for op, (r, _) in zip(c["ops"], o["steps"]):
                    name = op[0] + (":" + op[2][0] if op[0] == "New" else "")
                    d["world_steps"][name] = d["world_steps"].get(name, 0) + 1
                    d["world_rejected_constructions"] += r == "NotBijection"
                    d["keyerrors"] += r == "KeyError"
                continue
            if o["init"] is None:
                d["notbijection_inits"] += 1
                continue
            for op, (r, _) in zip(c["ops"], o["steps"]):
                d["ops"][op[0]] = d["ops"].get(op[0], 0) + 1
                d["keyerrors"] += r == "KeyError"
        return d


PROP = C18()
