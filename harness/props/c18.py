"""C18 — hugr.utils.BiMap stays a bijection (model: coq/model/BiMapM.v, spec: coq/spec/BiMapS.v)."""
import itertools

import fw
from fw import gZ, glist, gopt, gpair, gapp, gnat

# model integers -> Python keys/values; includes the falsy ones the property names
PYV = [0, "", (), 1, "a", (0,), "0", 2]
OPS = ["InsL", "InsR", "DelL", "DelR", "SetItem", "DelItem"]


def all_ops(nk, nv):
    res = []
    for k in range(nk):
        for v in range(nv):
            res += [["InsL", k, v], ["InsR", v, k], ["SetItem", k, v]]
    res += [["DelL", k] for k in range(nk)] + [["DelItem", k] for k in range(nk)]
    res += [["DelR", v] for v in range(nv)]
    return res


class C18(fw.Prop):
    id = "C18"
    props_file = "props/C18.v"
    run_file = "run/C18Run.v"
    run_module = "run.C18Run"
    shard = 400
    rule = ("histories of BiMap mutators run on hugr.utils.BiMap and on the Coq model; exhaustive small "
            "scope (all histories of a fixed length over a 2x2 / 3x3 universe) plus random histories "
            "over 6 keys x 6 values with random initial maps (including non-injective ones); "
            "non-trivial = the history contains a displacing insert (key or value already present) "
            "or a deletion of a present key; distinct = by canonical input")
    trusted = ["keys/values are modelled as an arbitrary type with decidable equality; Python's == / hash "
               "on the sampled keys (0, '', (), 1, 'a', (0,), '0', 2) is assumed to be that equality"]
    assumptions = ["None is never used as a key or value (excluded by the property)"]

    def generate(self, rng, tier, ctx):
        cases = []
        # exhaustive small scopes
        u22 = all_ops(2, 2)
        depth = 3 if tier == "quick" else 4
        for h in itertools.product(u22, repeat=depth):
            cases.append({"nk": 2, "nv": 2, "init": [], "ops": [list(o) for o in h]})
        u33 = all_ops(3, 3)
        for h in itertools.product(u33, repeat=2):
            cases.append({"nk": 3, "nv": 3, "init": [[0, 0]], "ops": [list(o) for o in h]})
        ctx.stats["exhaustive_scopes"] = [f"all {len(u22)}^{depth} histories over 2 keys x 2 values from the empty map",
                                          f"all {len(u33)}^2 histories over 3x3 from {{0:0}}"]
        # random long histories
        n = 300 if tier == "quick" else 4000
        for _ in range(n):
            nk, nv = rng.randint(1, 6), rng.randint(1, 6)
            init = []
            for k in rng.sample(range(nk), rng.randint(0, nk)):
                init.append([k, rng.randrange(nv)])       # may be non-injective -> NotBijection
            ops = []
            u = all_ops(nk, nv)
            for _ in range(rng.randint(1, 40)):
                ops.append(list(rng.choice(u)))
            cases.append({"nk": nk, "nv": nv, "init": init, "ops": ops})
        return cases

    def _obs(self, bm, nk, nv):
        geti = []
        for k in range(nk):
            try:
                geti.append(PYV.index(bm[PYV[k]]))
            except KeyError:
                geti.append(None)
        gl = lambda x: None if x is None else PYV.index(x)
        return {
            "items": [[PYV.index(k), PYV.index(v)] for k, v in bm.items()],
            "len": len(bm),
            "iter": [PYV.index(k) for k in bm],
            "getr": [gl(bm.get_right(PYV[k])) for k in range(nk)],
            "getl": [gl(bm.get_left(PYV[v])) for v in range(nv)],
            "geti": geti,
        }

    def observe(self, case, ctx):
        from hugr.utils import BiMap, NotBijection
        nk, nv = case["nk"], case["nv"]
        try:
            bm = BiMap({PYV[k]: PYV[v] for k, v in case["init"]})
        except NotBijection:
            return {"init": None, "steps": []}
        res = {"init": self._obs(bm, nk, nv), "steps": []}
        for o in case["ops"]:
            name, args = o[0], [PYV[a] for a in o[1:]]
            try:
                if name == "InsL":
                    bm.insert_left(*args)
                elif name == "InsR":
                    bm.insert_right(*args)
                elif name == "DelL":
                    bm.delete_left(*args)
                elif name == "DelR":
                    bm.delete_right(*args)
                elif name == "SetItem":
                    bm[args[0]] = args[1]
                elif name == "DelItem":
                    del bm[args[0]]
                r = "Done"
            except KeyError:
                r = "KeyError"
            except Exception as e:  # anything else is an observable difference
                r = "Other:" + type(e).__name__
            res["steps"].append([r, self._obs(bm, nk, nv)])
        return res

    def _gobs(self, o):
        return gapp("Build_obs", glist(gpair(gZ(k), gZ(v)) for k, v in o["items"]), gnat(o["len"]),
                    glist(gZ(k) for k in o["iter"]),
                    glist(gopt(None if x is None else gZ(x)) for x in o["getr"]),
                    glist(gopt(None if x is None else gZ(x)) for x in o["getl"]),
                    glist(gopt(None if x is None else gZ(x)) for x in o["geti"]))

    def literal(self, case, obs, ctx):
        steps = []
        if obs["init"] is not None:
            for o, (r, ob) in zip(case["ops"], obs["steps"]):
                rr = r if r in ("Done", "KeyError") else "NotBijection"   # any other exception: never equal to the model's
                steps.append(gpair(gapp(o[0], *[gZ(x) for x in o[1:]]), gpair(rr, self._gobs(ob))))
        return gapp("Build_case", glist(gZ(k) for k in range(case["nk"])), glist(gZ(v) for v in range(case["nv"])),
                    glist(gpair(gZ(k), gZ(v)) for k, v in case["init"]),
                    gopt(None if obs["init"] is None else self._gobs(obs["init"])), glist(steps))

    def nontrivial(self, case, obs):
        if obs["init"] is None:
            return False
        cur = obs["init"]["items"]
        for o, (r, ob) in zip(case["ops"], obs["steps"]):
            if o[0] in ("InsL", "SetItem", "InsR"):
                k, v = (o[1], o[2]) if o[0] != "InsR" else (o[2], o[1])
                if any((a == k) != (b == v) for a, b in cur):
                    return True
            elif r == "Done":
                return True
            cur = ob["items"]
        return False

    def describe(self, case, obs):
        return {"input": case, "python_values": [repr(x) for x in PYV[:max(case["nk"], case["nv"])]], "observed": obs}

    def signature(self, case, obs, ctx):
        return "bimap:" + ",".join(sorted({o[0] for o in case["ops"]}))

    def shrink(self, case):
        ops = case["ops"]
        for i in range(len(ops)):
            yield {**case, "ops": ops[:i] + ops[i + 1:]}
        if case["init"]:
            for i in range(len(case["init"])):
                yield {**case, "init": case["init"][:i] + case["init"][i + 1:]}

    def distribution(self, cases, observations):
        d = {"histories": len(cases), "ops": {}, "keyerrors": 0, "notbijection_inits": 0, "max_len": 0}
        for c, o in zip(cases, observations):
            d["max_len"] = max(d["max_len"], len(c["ops"]))
            if o["init"] is None:
                d["notbijection_inits"] += 1
                continue
            for op, (r, _) in zip(c["ops"], o["steps"]):
                d["ops"][op[0]] = d["ops"].get(op[0], 0) + 1
                d["keyerrors"] += r == "KeyError"
        return d


PROP = C18()
