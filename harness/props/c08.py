"""C08 — inserting a HUGR embeds it isomorphically and disturbs nothing else.
model: coq/model/Graph.v (insert_hugr, insert_wrapped), spec: coq/spec/InsertS.v, run: coq/run/C08Run.v."""
import fw
from fw import gZ, gN, glist, gopt, gpair, gapp, gnat
from props import c04
from props.c04 import (Driver, apply_bcmd, build_source, exc_class, gbcmd, gobs, gonat, gport, gret, guniverse,
                       meta_key, op_key, palette, snapshot)

WRAPPERS = ("insert_nested", "insert_cfg", "insert_conditional", "insert_tail_loop")


# ----------------------------------------------------------------------------- builder programs

NEST_KINDS = ("dfg", "dfg0", "loop", "case", "block")


def prog_nest(spec):
    """A chain of nested dataflow regions below a Dfg; the builder of the INNERMOST region is the one whose insert_*
    is called, and the wires on offer come from every level (outermost first), so that a wrapper call can be given
    wires from enclosing regions.  spec = {"nest": [kind or kind+"+u", ...]}:
      dfg    add_nested(bool, int)          dfg0   add_nested()  (a region without inputs)
      loop   add_tail_loop([bool], [int])   case   add_conditional(bool, int).add_case(0)
      block  add_cfg(bool, int).add_entry()
    "+u": inside the new region a Not consumes the outermost Bool input (an inter-graph edge of A itself, so the state
    order link from the outer Input node to the enclosing container exists BEFORE the wrapper call)."""
    from hugr import tys
    from hugr.build import Dfg
    from hugr.std.int import INT_T
    from hugr.std.logic import Not
    B = tys.Bool
    d = Dfg(B, B, INT_T)
    b1, b2, i = d.inputs()
    n = d.add_op(Not, b1)
    avail = {"B": [b1, b2, n], "I": [i]}
    cur, lb, li = d, b1, i
    for k in spec["nest"]:
        kind, _, flag = k.partition("+")
        if kind == "dfg":
            nb = cur.add_nested(lb, li)
        elif kind == "dfg0":
            nb = cur.add_nested()
        elif kind == "loop":
            nb = cur.add_tail_loop([lb], [li])
        elif kind == "case":
            nb = cur.add_conditional(lb, li).add_case(0)
        elif kind == "block":
            nb = cur.add_cfg(lb, li).add_entry()
        else:
            raise AssertionError(k)
        ins = list(nb.inputs())
        bs = [w for w in ins if nb.hugr.port_type(w.out_port()) == B]
        is_ = [w for w in ins if nb.hugr.port_type(w.out_port()) == INT_T]
        if flag == "u":
            bs.append(nb.add_op(Not, b1))
        avail["B"] += bs
        avail["I"] += is_
        cur = nb
        lb = bs[0] if bs else lb          # what the next level is fed with (possibly an inter-graph wire again)
        li = is_[0] if is_ else li
    return cur, avail


def prog_A(name):
    """Outer builders: (builder whose insert_* is called, wires on offer for the inputs of the inserted root:
    siblings of the insertion point, and for the nested family also outputs of nodes in enclosing regions)."""
    from hugr import ops, tys
    if isinstance(name, dict):
        return prog_nest(name)
    from hugr.build import Dfg, Module
    from hugr.std.int import INT_T
    from hugr.std.logic import Not
    B = tys.Bool
    if name == "dfg":
        d = Dfg(B, B, INT_T)
        b1, b2, i = d.inputs()
        n = d.add_op(Not, b1)
        d.add_state_order(d.input_node, n)
        return d, {"B": [b1, b2, n], "I": [i]}
    if name == "main":
        m = Module()
        f = m.define_function("f", [B], [B])
        f.set_outputs(*f.inputs())
        g = m.define_main([B, INT_T, B])
        b1, i, b2 = g.inputs()
        c = g.call(f, b1)
        return g, {"B": [b1, b2, c], "I": [i]}
    if name == "nested":
        d = Dfg(B, INT_T)
        b, i = d.inputs()
        inner = d.add_nested(b, i)
        bb, ii = inner.inputs()
        x = inner.add_op(Not, bb)
        return inner, {"B": [bb, x], "I": [ii]}
    if name == "cousin":                      # the wires on offer live in a SIBLING region: NoSiblingAncestor
        d = Dfg(B, INT_T)
        b, i = d.inputs()
        other = d.add_nested(b, i)
        bb, ii = other.inputs()
        inner = d.add_nested()
        return inner, {"B": [bb], "I": [ii]}
    raise AssertionError(name)


def prog_B(name):
    """Builders to insert: (builder, wrapper name, input kinds)."""
    from hugr import ops, tys
    from hugr.build import Cfg, Conditional, Dfg, TailLoop
    from hugr.std.int import INT_T
    from hugr.std.logic import Not
    B = tys.Bool
    if name == "dfg":
        inner = Dfg(B, B)
        a, b = inner.inputs()
        nn = inner.add_op(Not, a)
        inner.add_state_order(inner.input_node, nn)
        inner.hugr[nn].metadata["k"] = 1
        inner.set_outputs(nn, b, b)               # a multi-linked output port
        return inner, "insert_nested", ["B", "B"]
    if name == "dfg_nonlocal":
        inner = Dfg(B)
        (a,) = inner.inputs()
        with inner.add_nested() as deep:
            y = deep.add_op(Not, a)                # non-local edge + order edge
            deep.set_outputs(y, y)
        inner.set_outputs(*deep[:2])
        return inner, "insert_nested", ["B"]
    if name == "cfg":
        c = Cfg(B, INT_T)
        with c.add_entry() as e:
            b_, i_ = e.inputs()
            nn = e.add_op(Not, b_)
            e.set_block_outputs(b_, i_)
        with c.add_successor(e[0]) as b0:
            (i0,) = b0.inputs()
            b0.add_op(Not, nn)
            b0.set_single_succ_outputs(i0)
        with c.add_successor(e[1]) as b1:
            (i1,) = b1.inputs()
            b1.set_single_succ_outputs(i1)
        c.branch_exit(b0[0])
        c.branch_exit(b1[0])
        return c, "insert_cfg", ["B", "I"]
    if name == "cond":
        cond = Conditional(tys.Bool, [INT_T])
        for i in range(2):
            with cond.add_case(i) as case:
                case.set_outputs(*case.inputs())
        return cond, "insert_conditional", ["B", "I"]
    if name == "loop":
        tl = TailLoop([B], [INT_T])
        a, r = tl.inputs()
        c = tl.add_op(ops.Tag(0, tys.Either([B], [])), a)
        tl.set_loop_outputs(c, r)
        return tl, "insert_tail_loop", ["B", "I"]
    raise AssertionError(name)



# ----------------------------------------------------------------------------- size relations host / source

def deep_source(rng, holes, depth, root=None):
    """History of a well-formed source whose index space is inverted DEEPLY: `holes` placeholder nodes take the
    indices 1..holes, a chain of `depth` nested nodes is built below the root, the placeholders are deleted and their
    indices are reused for nodes at the BOTTOM of the chain (the first one below the innermost chain node, so that
    insert_hugr meets a node all of whose `depth` proper ancestors below the root have higher indices; with
    depth + 1 = number of non-root nodes this is the longest ancestor walk a source of that size admits).  Built while
    running hugr-py, so that the node arguments are the indices the implementation really handed out (whatever its
    reuse policy).  -> (root palette index, ops)"""
    from hugr.hugr import Hugr
    OPS, _, _ = palette()
    root_k = rng.randrange(7) if root is None else root
    h, ops = Hugr(OPS[root_k]), []

    def do(c):
        r = apply_bcmd(h, c)
        ops.append(c)
        return r

    def add(parent):
        return do(["AddNode", rng.randrange(6), parent, rng.choice([None, None, 0, 1, 3]), rng.randrange(4)])[1]

    ph = [add(rng.choice([0, 0, None])) for _ in range(holes)]
    chain = [0]
    for _ in range(depth):
        chain.append(add(chain[-1]))
    rng.shuffle(ph)
    for p in ph:
        do(["DelNode", p])
    low, par = [], chain[-1]
    for _ in range(holes):
        n = add(par)
        low.append(n)
        par = rng.choice([n, n, rng.choice(chain)])
    for _ in range(rng.choice([0, 0, 1, 2])):                     # fresh leaves anywhere
        add(rng.choice(chain + low))
    live = [n.idx for n in h]
    for _ in range(rng.choice([0, 1, 2, 3])):                     # links between any levels, repeated ports
        do(["AddLink", [rng.choice(low + live), rng.choice([0, 0, 1])], [rng.choice(low + live), rng.choice([0, 0, 1])]])
    if rng.random() < 0.5:
        do(["AddOrder", rng.choice(live), rng.choice(low)])
    return root_k, ops


def small_host(rng, size, shape):
    """History of a host with `size` live nodes.  shape: 'flat' (children of the root), 'chain' (nested),
    'holes' (as flat, after `size` more nodes were added and deleted: a one-node host then has a non-empty free list
    and a node table larger than the source's)."""
    n1 = ["AddNode", 0, None, None, 0]
    ops = []
    if shape == "holes":
        k = max(1, size)
        ops += [["AddNode", 0, 0, None, 0] for _ in range(k)] + [["DelNode", i] for i in range(1, k + 1)]
    for i in range(size - 1):
        ops.append(["AddNode", rng.randrange(6), (i if shape == "chain" else rng.choice([0, None])), None, rng.randrange(4)])
    if size >= 3 and shape != "holes" and rng.random() < 0.5:
        ops.append(["AddLink", [1, 0], [2, 0]])
    return ops


def ancestor_walk(b):
    """Longest list of not yet copied ancestors-or-self that a parents-first copy in index order meets (observation of
    the source): 1 everywhere when every parent precedes its children."""
    seen, best = set(), 0
    for i in b["iter"]:
        k, cur = 0, i
        while cur is not None and cur not in seen and k <= len(b["iter"]):
            seen.add(cur)
            k += 1
            cur = b["get"][cur]["parent"]
        best = max(best, k)
    return best


A_PROGS = ["dfg", "main", "nested"]
B_PROGS = ["dfg", "dfg_nonlocal", "cfg", "cond", "loop"]


def nodes_bound(h):
    return max(n.idx for n in h) + 1


def universe(hA, hB, extra_probes=()):
    nA, nB = nodes_bound(hA), nodes_bound(hB)
    offs = {-1, 0}
    for h in (hA, hB):
        for s, t in h.links():
            offs.update([s.offset, t.offset])
    offs.add(max(offs) + 1)
    offs = sorted(offs)
    return (list(range(nA + nB + 1)), offs, list(extra_probes)), (list(range(nB + 1)), offs, [])


class C08(fw.Prop):
    id = "C08"
    props_file = "props/C08.v"
    run_file = "run/C08Run.v"
    run_module = "run.C08Run"
    shard = 40
    rule = ("pairs of HUGRs (raw public-API histories with multi-linked ports, order links, metadata, deleted nodes "
            "and index reuse; and builder programs: Dfg / Module function / nested Dfg as target, Dfg, Dfg with a "
            "non-local edge, Cfg, Conditional, TailLoop as source), insert_hugr under every live parent (and None) "
            "and the four builder wrappers, also called on builders of regions nested 1-3 deep (Dfg, TailLoop, Case, "
            "Cfg block) with wires taken from any enclosing level (inter-graph wires: state order link to the "
            "ancestral sibling, once, unless already there); size relations: hosts of 1-6 live nodes (a fresh Hugr(), "
            "flat, nested, with freed indices) x sources with deep index inversions (ancestor walks of up to 12 not yet "
            "copied nodes, systematically around walk = host size and up to the longest a source of that size admits); "
            "non-trivial = the source has a multi-linked port, an order link, a hole "
            "or a child below its parent in index order, or the call goes through a wrapper")
    trusted = ["object aliasing between source and target (shared op objects, metadata dicts) is outside the model; "
               "the returned mapping of a wrapper call is read by intercepting Hugr.insert_hugr on the instance",
               "for wrapper cases the port counts passed to _update_port_count are recomputed by the harness with "
               "hugr.ops._num_dataflow_ports"]
    assumptions = ["source and target satisfy the store invariant (built through the public API within C04's guard); "
                   "the insertion parent is a live node of the target; the source of a wrapper wire is a child of the "
                   "insertion parent or of one of its proper ancestors (else NoSiblingAncestor: outside the guard)"]

    # ---- cases
    def corpus(self, ctx):
        n1 = ["AddNode", 0, None, None, 0]
        u0 = ["AddNode", 0, 0, None, 0]
        return [
            # D20: child below its parent in index order
            {"kind": "hist", "A": {"root": 6, "ops": [n1]},
             "B": {"root": 0, "meta": 2, "ops": [n1, n1, ["DelNode", 1], ["AddNode", 1, 2, 1, 3], ["AddLink", [1, 0], [2, 0]],
                                                  ["AddOrder", 2, 1]]}, "parent": 1},
            # siblings out of index order after reuse + multi-link + hole
            {"kind": "hist", "A": {"root": 6, "ops": [n1, n1, ["AddLink", [1, 0], [2, 0]]]},
             "B": {"root": 5, "meta": 0, "ops": [n1, n1, n1, ["DelNode", 1], ["DelNode", 2], n1, n1, ["DelNode", 3],
                                                  ["AddLink", [2, 0], [1, 0]], ["AddLink", [2, 0], [1, 0]],
                                                  ["AddLink", [2, 0], [1, 1]]]}, "parent": None},
            {"kind": "prog", "A": "dfg", "B": "dfg", "via": "insert_nested"},
            {"kind": "prog", "A": "dfg", "B": "dfg", "via": "insert_hugr", "parent": None},
            # seeded C08-h: the smallest host there is (a fresh Hugr(): one node) and a source with a DEEP index
            # inversion, root(0) > outer(2) > mid(3) > inner(1): the ancestor walk from node 1 is longer than the host
            {"kind": "hist", "A": {"root": 6, "ops": []},
             "B": {"root": 5, "meta": 0, "ops": [u0, u0, ["AddNode", 0, 2, None, 2], ["DelNode", 1],
                                                  ["AddNode", 0, 3, None, 3]]}, "parent": None},
            # the same one level deeper into a two-node host, the walk as long as a source of that size admits
            # (every non-root node on it), with a leaf, a link and an order link below the inversion
            {"kind": "hist", "A": {"root": 6, "ops": [n1]},
             "B": {"root": 0, "meta": 2, "ops": [u0, u0, ["AddNode", 5, 2, None, 0], ["AddNode", 0, 3, 1, 2],
                                                  ["DelNode", 1], ["AddNode", 1, 4, 1, 0], ["AddLink", [1, 0], [4, 0]],
                                                  ["AddLink", [1, 0], [4, 0]], ["AddOrder", 4, 1]]}, "parent": 1},
            # a one-node host with freed indices (node table larger than the source's) and two reused indices in B
            {"kind": "hist", "A": {"root": 6, "ops": [u0, u0, ["DelNode", 1], ["DelNode", 2]]},
             "B": {"root": 5, "meta": 0, "ops": [u0, u0, u0, ["AddNode", 0, 3, None, 0], ["AddNode", 0, 4, None, 0],
                                                  ["DelNode", 2], ["DelNode", 1], ["AddNode", 0, 5, None, 1],
                                                  ["AddNode", 0, 1, None, 0]]}, "parent": None},
            # seeded C08-e: a wrapper called on the builder of a nested region with a wire from the ENCLOSING region:
            # the image of the root gets the wire, and the outer Input node a state order link to the container
            {"kind": "prog", "A": {"nest": ["dfg0"]}, "B": "dfg_nonlocal", "via": "insert_nested", "pick": [0]},
            # two wires from the same outer node (one order link), two levels up, through a Conditional and a TailLoop
            {"kind": "prog", "A": {"nest": ["case", "loop"]}, "B": "dfg", "via": "insert_nested", "pick": [0, 1]},
            # the order link is already there (A has an inter-graph edge from that Input node into the region)
            {"kind": "prog", "A": {"nest": ["dfg+u"]}, "B": "loop", "via": "insert_tail_loop", "pick": [1, 0]},
            # outside the guard: the wire's source sits in a sibling region (NoSiblingAncestor after the insertion)
            {"kind": "prog", "A": "cousin", "B": "dfg_nonlocal", "via": "insert_nested"},
        ]

    def generate(self, rng, tier, ctx):
        cases = []
        n = 40 if tier == "quick" else 500
        for _ in range(n):
            a = Driver(rng, root=rng.choice([6, 6, 0]), allow_insert=False, maxoff=2)
            for _ in range(rng.randint(0, 10)):
                a.step()
            b = Driver(rng, root=rng.randrange(7), allow_insert=False, maxoff=rng.choice([2, 3]))
            for _ in range(rng.randint(0, 16)):
                b.step()
            live = a.live()
            parents = live + [None] if len(live) <= 4 else rng.sample(live, 3) + [None]
            if rng.random() < 0.1:
                parents.append(max(live) + 2)                       # dead parent: outside the guard
            meta = rng.randrange(4)
            for p in parents:
                cases.append({"kind": "hist", "A": {"root": a.root_k, "ops": a.ops},
                              "B": {"root": b.root_k, "meta": meta, "ops": b.ops}, "parent": p})
        for an in A_PROGS:
            for bn in B_PROGS:
                _, via, _ = prog_B(bn)
                cases.append({"kind": "prog", "A": an, "B": bn, "via": via})
                cases.append({"kind": "prog", "A": an, "B": bn, "via": "insert_hugr", "parent": "builder"})
            cases.append({"kind": "prog", "A": an, "B": "cfg", "via": "insert_hugr", "parent": None})
            cases.append({"kind": "prog", "A": an, "B": "dfg", "via": "insert_hugr", "parent": 1})
        ctx.stats["builder_pairs"] = len(A_PROGS) * len(B_PROGS)
        # wrappers called on builders of nested regions, wires from any enclosing level
        for kind in NEST_KINDS:                                   # every container kind, every wire from the outermost
            for bn in (B_PROGS if tier != "quick" else [B_PROGS[NEST_KINDS.index(kind) % len(B_PROGS)]]):
                cases.append({"kind": "prog", "A": {"nest": [kind]}, "B": bn, "via": prog_B(bn)[1], "pick": [0]})
        for _ in range(30 if tier == "quick" else 400):
            nest = [rng.choice(NEST_KINDS) + rng.choice(["", "", "+u"]) for _ in range(rng.choice([1, 1, 2, 2, 3]))]
            bn = rng.choice(B_PROGS)
            pick = [rng.choice([0, 0, 1, 2, -1, -2, rng.randrange(12)]) for _ in range(2)]
            cases.append({"kind": "prog", "A": {"nest": nest}, "B": bn, "via": prog_B(bn)[1], "pick": pick})
        # size relations: hosts of 1..5 live nodes (also with freed indices) x sources with an ancestor walk of
        # 1..12 not yet copied nodes (deep index inversions); systematically around walk = host size, then random
        deep = []
        for a in ((1, 2, 3) if tier == "quick" else (1, 2, 3, 4, 5, 6)):
            for d in (a, a + 1, a + 2):
                deep.append((a, rng.choice(["flat", "chain", "holes"]), 1, d))
        deep += [(1, "flat", 1, 11), (2, "holes", 2, 9)]           # far beyond any small constant
        for _ in range(24 if tier == "quick" else 300):
            a = rng.choice([1, 1, 1, 2, 2, 3, 4, 5])
            deep.append((a, rng.choice(["flat", "chain", "holes"]), rng.choice([1, 1, 2, 3]),
                         rng.choice([1, 2, a, a + 1, a + 1, a + 2, a + 3, rng.randint(3, 11)])))
        for a, shape, holes, d in deep:
            root_b, ops_b = deep_source(rng, holes, d)
            ops_a = small_host(rng, a, shape)
            parents = [None] if shape == "holes" or a == 1 else [None, rng.randrange(a)]
            root_a, meta_b = rng.choice([6, 6, 0]), rng.randrange(4)
            for p in parents:
                cases.append({"kind": "hist", "A": {"root": root_a, "ops": ops_a},
                              "B": {"root": root_b, "meta": meta_b, "ops": ops_b}, "parent": p})
        ctx.stats["size_relation_pairs"] = len(deep)
        return cases

    # ---- implementation run
    def _setup(self, case):
        """-> hA, hB, parent Node|None, call(), wires, kind-specific source descriptions"""
        from hugr.hugr import Hugr
        from hugr.hugr.node_port import Node
        OPS, _, _ = palette()
        if case["kind"] == "hist":
            hA = Hugr(OPS[case["A"]["root"]])
            doneA = []
            for c in case["A"]["ops"]:
                try:
                    r = apply_bcmd(hA, c)
                except Exception:
                    break
                doneA.append([c, r])
            if len(doneA) < len(case["A"]["ops"]):            # rebuild without the raising call and what follows
                hA = Hugr(OPS[case["A"]["root"]])
                doneA = [[c, apply_bcmd(hA, c)] for c, _ in doneA]
            hB, doneB = build_source(["Insert", case["B"]["root"], case["B"]["meta"], case["B"]["ops"], None])
            parent = None if case["parent"] is None else Node(case["parent"])
            return {"hA": hA, "hB": hB, "parent": parent, "call": lambda: hA.insert_hugr(hB, parent),
                    "wires": None, "doneA": doneA, "doneB": doneB}
        bA, avail = prog_A(case["A"])
        bB, via, kinds = prog_B(case["B"])
        hA, hB = bA.hugr, bB.hugr
        if case["via"] == "insert_hugr":
            p = case.get("parent")
            parent = bA.parent_node if p == "builder" else (None if p is None else Node(p))
            return {"hA": hA, "hB": hB, "parent": parent, "call": lambda: hA.insert_hugr(hB, parent), "wires": None}
        used = {}
        wires = []
        pick = case.get("pick")
        for j, k in enumerate(kinds):
            if pick is not None:              # index into the wires on offer (outermost level first; -1 = most local)
                wires.append(avail[k][pick[j % len(pick)] % len(avail[k])] if pick else avail[k][-1])
                continue
            i = used.get(k, 0)
            wires.append(avail[k][i % len(avail[k])])
            used[k] = i + 1
        store = []
        orig = hA.insert_hugr

        def rec(*a, **kw):
            m = orig(*a, **kw)
            store.append(m)
            return m

        def call():
            hA.insert_hugr = rec
            try:
                if via == "insert_tail_loop":
                    bA.insert_tail_loop(bB, wires[:1], wires[1:])
                elif via == "insert_conditional":
                    bA.insert_conditional(bB, wires[0], *wires[1:])
                else:
                    getattr(bA, via)(bB, *wires)
            finally:
                del hA.insert_hugr
            return store[0]
        return {"hA": hA, "hB": hB, "parent": bA.parent_node, "call": call,
                "wires": [[w.out_port().node.idx, w.out_port().offset] for w in wires], "rootB": bB.parent_node}

    def observe(self, case, ctx):
        from hugr import ops
        from hugr.hugr.node_port import Direction
        s = self._setup(case)
        hA, hB = s["hA"], s["hB"]
        uA, uB = universe(hA, hB)
        res = {"uA": uA, "uB": uB, "obsA": snapshot(hA, uA), "obsB": snapshot(hB, uB),
               "parent": None if s["parent"] is None else s["parent"].idx, "wires": s["wires"],
               "doneA": s.get("doneA"), "doneB": s.get("doneB")}
        try:
            m = s["call"]()
            res["map"] = sorted([k.idx, v.idx] for k, v in m.items())
            res["res"] = "Ok"
        except Exception as e:
            res["map"], res["res"] = [], exc_class(e)
        if s["wires"] is not None and res["res"] == "Ok":
            f = getattr(ops, "_num_dataflow_ports", None)
            op = hA[m[hB.root]].op
            res["upd"] = [None, None] if f is None else [f(op, Direction.INCOMING), f(op, Direction.OUTGOING)]
        res["obsA2"], res["obsB2"] = snapshot(hA, uA), snapshot(hB, uB)
        return res

    def literal(self, case, obs, ctx):
        OPS, _, METAS = palette()
        if case["kind"] == "hist":
            srcA = gapp("FromHist", gN(op_key(OPS[case["A"]["root"]])), gN(meta_key(None)),
                        glist(gpair(gapp("Basic", gbcmd(c)), gret(r)) for c, r in obs["doneA"]))
            srcB = gapp("FromHist", gN(op_key(OPS[case["B"]["root"]])), gN(meta_key(METAS[case["B"]["meta"]])),
                        glist(gpair(gapp("Basic", gbcmd(c)), gret(r)) for c, r in obs["doneB"]))
        else:
            srcA, srcB = gapp("FromObs", gobs(obs["obsA"])), gapp("FromObs", gobs(obs["obsB"]))
        if obs["wires"] is None:
            wires = "None"
        else:
            ki, ko = obs.get("upd", [None, None])
            wires = gopt(gpair(glist(gport(w) for w in obs["wires"]),
                               gpair(gopt(None if ki is None else gZ(ki)), gopt(None if ko is None else gZ(ko)))))
        return gapp("Build_case", guniverse(obs["uA"]), guniverse(obs["uB"]), srcA, srcB, gobs(obs["obsA"]),
                    gobs(obs["obsB"]), gonat(obs["parent"]), wires,
                    glist(gpair(gnat(a), gnat(b)) for a, b in obs["map"]), obs["res"],
                    gobs(obs["obsA2"]), gobs(obs["obsB2"]))

    # ---- classification
    def nontrivial(self, case, obs):
        if case["kind"] == "prog":
            return case["via"] in WRAPPERS or bool(obs["obsB"]["ord_out"])
        b = obs["obsB"]
        ids = b["iter"]
        hole = ids != list(range(len(ids)))
        below = any(g is not None and g["parent"] is not None and g["parent"] > i for i, g in enumerate(b["get"]))
        multi = any(len(l) > 1 for _, l in b["lout"] + b["lin"])
        return obs["res"] == "Ok" and (hole or below or multi or bool(b["ord_out"]))

    def describe(self, case, obs):
        return {"input": case, "observed": obs}

    def signature(self, case, obs, ctx):
        if case["kind"] == "prog":
            return "insert:prog:" + case["via"] + (":nested" if isinstance(case["A"], dict) else "")
        return "insert:hist:" + ",".join(sorted({c[0] for c in case["B"]["ops"]}))

    def shrink(self, case):
        if case["kind"] == "prog" and isinstance(case["A"], dict):
            nest = case["A"]["nest"]
            for i in range(len(nest)):
                if len(nest) > 1:
                    yield {**case, "A": {"nest": nest[:i] + nest[i + 1:]}}
                if "+" in nest[i]:
                    yield {**case, "A": {"nest": nest[:i] + [nest[i].partition("+")[0]] + nest[i + 1:]}}
            pick = case.get("pick") or []
            for i in range(len(pick)):
                for v in (-1, 0):
                    if pick[i] != v:
                        yield {**case, "pick": pick[:i] + [v] + pick[i + 1:]}
            return
        if case["kind"] != "hist":
            return
        for side in ("B", "A"):
            ops = case[side]["ops"]
            for i in range(len(ops) - 1, -1, -1):
                yield {**case, side: {**case[side], "ops": ops[:i] + ops[i + 1:]}}
        if case["B"]["meta"]:
            yield {**case, "B": {**case["B"], "meta": 0}}

    def neighbours(self, case, rng):
        if case["kind"] != "hist":
            return
        for p in [None] + list(range(0, 8)):
            yield {**case, "parent": p}

    def distribution(self, cases, observations):
        d = {"pairs": len(cases), "hist": 0, "prog": 0, "via": {}, "exceptions": {}, "max_nodes_B": 0, "max_links_B": 0,
             "sources_with_holes": 0, "sources_child_below_parent": 0, "wrapper_calls_on_nested_builders": 0,
             "wrapper_wires": 0, "wrapper_wires_from_enclosing_regions": 0, "wrapper_calls_adding_an_order_link": 0,
             "wrapper_calls_order_link_already_there": 0, "max_ancestor_walk_B": 0, "pairs_ancestor_walk_ge_3": 0,
             "pairs_host_single_node": 0, "pairs_host_smaller_than_source": 0, "pairs_ancestor_walk_longer_than_host": 0}
        for c, o in zip(cases, observations):
            w, la, lb = ancestor_walk(o["obsB"]), o["obsA"]["len"], o["obsB"]["len"]
            d["max_ancestor_walk_B"] = max(d["max_ancestor_walk_B"], w)
            d["pairs_ancestor_walk_ge_3"] += w >= 3
            d["pairs_host_single_node"] += la == 1
            d["pairs_host_smaller_than_source"] += la < lb
            d["pairs_ancestor_walk_longer_than_host"] += w > la
            if o.get("wires") is not None and o["res"] == "Ok":
                ga, p = o["obsA"]["get"], o["parent"]
                d["wrapper_calls_on_nested_builders"] += p != o["obsA"]["root"]
                far = [w for w in o["wires"] if ga[w[0]]["parent"] != p]
                d["wrapper_wires"] += len(o["wires"])
                d["wrapper_wires_from_enclosing_regions"] += len(far)
                new_ord = len([l for l in o["obsA2"]["links"] if l[0][1] == -1 and l[0][0] in {w[0] for w in far}]) - \
                    len([l for l in o["obsA"]["links"] if l[0][1] == -1 and l[0][0] in {w[0] for w in far}])
                d["wrapper_calls_adding_an_order_link"] += new_ord > 0
                d["wrapper_calls_order_link_already_there"] += bool(far) and new_ord < len({w[0] for w in far})
            d[c["kind"]] += 1
            v = c.get("via", "insert_hugr")
            d["via"][v] = d["via"].get(v, 0) + 1
            if o["res"] != "Ok":
                d["exceptions"][o["res"]] = d["exceptions"].get(o["res"], 0) + 1
            b = o["obsB"]
            d["max_nodes_B"] = max(d["max_nodes_B"], b["len"])
            d["max_links_B"] = max(d["max_links_B"], len(b["links"]))
            d["sources_with_holes"] += b["iter"] != list(range(len(b["iter"])))
            d["sources_child_below_parent"] += any(g is not None and g["parent"] is not None and g["parent"] > i
                                                   for i, g in enumerate(b["get"]))
        return d


PROP = C08()
