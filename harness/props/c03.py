"""C03 — emitted documents conform to the published wire format.  Same cases, model and typed correspondence
as C02 (harness/props/c02.py, coq/run/C02Run.v: mon3 = python-jsonschema verdict, index sanity, the document lists
the nodes of the HUGR in SOME admissible order with the root first -- the order the writer chose, found by
c02.listing_order and checked in Coq; "increasing index" is C02's licence, not a clause of C03 --, port addressing by the
reader's contract; documents compared up to the order of the edges array, the writing of the metadata table and the
optional encoder member: design.d/C03.md "False alarms corrected (harmless changes)").

Second pass (coq/run/C03SchemaRun.v, harness/c03_coqschema.py): every document a case emits — exactly the texts
the python-jsonschema server is asked about: HUGR documents, Package documents, Extension documents, lowering
HUGRs inside extensions — is also written out as a JSON tree and validated IN COQ (vm_compute) by the validator of
coq/model/Schema.v against the regenerated `published_hugr_strict` constant; both validators must accept (monitor;
a failing case is re-evaluated part by part to name what failed and to report a disagreement of the two validators as
model drift).  Per HUGR of a case the JSON value the implementation wrote is compared in Coq with
the rendering (coq/model/DocJson.v `doc_json`) of the document the Gallina model of Hugr._to_serial computes from
the public-API dump; operation objects and metadata dicts come from that dump, not from the document.

Loaded writers (seeded C03-i, C03._reemit): the first HUGR / Extension / Package document of a case is read back and
written again, twice in a row (packages also through their envelopes); every text so written, incl. lowering HUGRs nested
in extensions, is judged like a first-generation document."""
import json
import os

import fw
import progs
from fw import gN, glist, gbool
from props import c02
from props.c02 import RT, Lit, opcode
from translators import schema as schema_tr
import c03_coqschema as cj

# documents above this size (bytes of JSON text) are judged by python-jsonschema only (Coq elaboration cost)
MAX_COQ_DOC = 200_000


STATIC_SOURCES = ("Const", "FuncDefn", "FuncDecl")


def static_clauses(case, o):
    """(static_edges_ok applies, static_wired_ok applies) for one observed HUGR (coq/spec/StaticWiringS.v).
    The clauses speak about links the builder API made.  A raw add_link mutation whose source is (or may be) a
    static output can attach it to any port; a delete_node / delete_link mutation can unwire a static input.
    Neither makes the document wrong, so the clause is switched off for that HUGR."""
    muts = o.get("muts") or []
    # an insert_hugr mutation carries the raw history of the inserted HUGR
    inner = [x for m in muts if m[0] == "insert" for x in m[2]]
    deleted = any(m[0] in ("delete_node", "delete_link") for m in muts + inner)
    kind = {n["idx"]: n["kind"] for n in o.get("a", {}).get("nodes", [])}
    raw_static = any(m[0] == "add_link" and m[2] == 0 and (deleted or kind.get(m[1]) in STATIC_SOURCES + (None,))
                     for m in muts) or any(m[0] == "add_link" and m[2] == 0 for m in inner)
    return (not raw_static, not raw_static and not deleted)


def rowpoly_program(row):
    """a module with the row-polymorphic function  forall (r : [Type]). (*r) -> (*r)  (body: ONE input, the row
    variable) declared and called from main at r := row; the Call node has len(row) value inputs, so its static
    function port is len(row): fewer than the polymorphic body's input count for row = [], more for len(row) >= 2"""
    n = len(row)
    ins = list(range(1, n + 1))
    outs = list(range(n + 1, 2 * n + 1))
    return {"root": "module", "consts": [], "funcs": [
        {"name": "rowpoly0", "params": [["list", ["type", "C"]]], "ins": [["rowvar"]], "outs": [["rowvar"]],
         "poly": "row", "decl": True, "rowvar": True},
        {"name": "main", "ins": list(row), "outs": list(row),
         "body": {"ins": ins, "stmts": [
             {"k": "call", "func": "rowpoly0", "args": ins, "inst": ["fn", list(row), list(row)],
              "targs": [["seq", [["type", t] for t in row]]], "id": 1, "outs": outs}],
             "outs": outs, "out_tys": list(row), "defs": []}}]}


# ----------------------------------------------------------------------------- partial argument lists (seeded C03-h)
# "... independently of how many of the node's ports are connected": a builder call may be given FEWER wires than the
# operation has value inputs (DfBase.call / add_op / add / extend wire the wires they get to ports 0..k-1); the other
# inputs are connected afterwards with the public Hugr.add_link, or never.  The ports the builder itself chooses
# (static function port of Call, order port) must come from the OPERATION, not from the number of wires passed.
# A statement of a harness/progs.py program carries the marks
#   "given": k                 only the first k wires of "args" are handed to the builder call
#   "when": "now"|"end"|"after"  the withheld inputs are linked right after the call / after the last statement of
#                              the region / after the region's outputs were set
#   "drop": [positions]        withheld inputs that stay unconnected
# and is run by _PartialInterp (a subclass of the interpreter of harness/progs.py, which is not edited).

# operations whose signature does not depend on the wires passed (not ops._PartialOp; CallIndirect reads wire 0 only)
COMPLETE_OPS = ("not", "divmod", "custom", "tag", "some", "left", "right", "callind")


def partial_sites(prog):
    """the statements of a program whose builder call can be given fewer wires than the operation has value inputs"""
    out = []

    def walk(x):
        if isinstance(x, dict):
            if x.get("id") is not None and isinstance(x.get("args"), list):
                if x.get("k") == "call" and len(x["args"]) >= 1:
                    out.append(x)
                elif x.get("k") == "op" and x["op"][0] in COMPLETE_OPS and len(x["args"]) >= (2 if x["op"][0] == "callind" else 1):
                    out.append(x)
            for key, v in x.items():
                if key != "md":
                    walk(v)
        elif isinstance(x, list):
            for v in x:
                walk(v)
    walk(prog)
    return out


def partialise(prog, rng, p=0.6):
    """a copy of the program in which some builder calls get a proper prefix of their wires (at least one, when the
    program has a site at all)"""
    import copy
    prog = copy.deepcopy(prog)
    sites = partial_sites(prog)
    if not sites:
        return prog
    forced = rng.randrange(len(sites))
    for i, st in enumerate(sites):
        if i != forced and rng.random() >= p:
            continue
        lo = 1 if st["k"] == "op" and st["op"][0] == "callind" else 0
        n = len(st["args"])
        st["given"] = rng.randint(lo, n - 1)
        st["when"] = rng.choice(["now", "now", "end", "after"])
        st["drop"] = [j for j in range(st["given"], n) if rng.random() < 0.15]
    return prog


def marked_sites(prog):
    return [st for st in partial_sites(prog) if st.get("given") is not None]


class _PartialInterp(progs._Interp):
    def __init__(self):
        super().__init__()
        self._pending = []          # one list per open region: (when, source OutPort, target InPort)

    def body(self, b, region, set_out):
        ins = b.inputs()
        assert len(ins) == len(region["ins"]), (len(ins), region["ins"])
        for wid, p in zip(region["ins"], ins):
            self.r.wires[wid] = p
        mine = []
        self._pending.append(mine)
        try:
            for st in region["stmts"]:
                self.stmt(b, st)
        finally:
            self._pending.pop()
        for when, s, t in mine:
            if when == "end":
                b.hugr.add_link(s, t)
        set_out(*[self.r.wires[w] for w in region["outs"]])
        for when, s, t in mine:
            if when == "after":
                b.hugr.add_link(s, t)

    def stmt(self, b, st):
        g = st.get("given")
        if g is None or st["k"] not in ("op", "call"):
            return super().stmt(b, st)
        full = list(st["args"])
        if st["k"] == "op" and st.get("via", "add_op") != "add_op":
            # DfBase.add / extend take a Command; the typed __call__ of some operations (Not, DivMod) insists on all
            # its arguments, the public ops.Command(op, incoming) does not
            from hugr import ops
            self.r.log.append((st["id"], "op"))
            com = ops.Command(progs.mk_op(st["op"]), self.W(full[:g]))
            md = st.get("md")
            if st["via"] == "add":
                n = b.add(com, metadata=md) if md is not None else b.add(com)
            else:
                (n,) = b.extend(com)
            self.bind(st, n)
        else:
            super().stmt(b, {**st, "args": full[:g]})
        node = self.r.nodes[st["id"]]
        for i in range(g, len(full)):
            if i in st.get("drop", ()):
                continue
            s, t = self.r.wires[full[i]].out_port(), node.inp(i)
            if st.get("when", "now") == "now" or not self._pending:
                b.hugr.add_link(s, t)
            else:
                self._pending[-1].append((st["when"], s, t))


def run_partial(prog):
    return _PartialInterp().root(prog)


def callmod_program(rng):
    """a module with 1-3 functions (declared, defined as the identity, or the row-polymorphic declaration of
    rowpoly_program) and a main that calls / loads them and applies an extension operation, every argument a fresh
    input of main; no partial marks yet (partialise adds them)"""
    wire = iter(range(1, 10_000)).__next__
    sid = iter(range(1, 10_000)).__next__
    T = ["B", "I", "Q", "F"]
    funcs, sigs = [], []
    for i in range(rng.randint(1, 3)):
        ins = [rng.choice(T) for _ in range(rng.choice([1, 2, 2, 3, 4]))]
        r = rng.random()
        name = "f%d" % i
        if r < 0.25:
            funcs.append({"name": "rowpoly%d" % i, "params": [["list", ["type", "C"]]], "ins": [["rowvar"]], "outs": [["rowvar"]],
                          "poly": "row", "decl": True, "rowvar": True})
            sigs.append(("rowpoly%d" % i, None, None))
        elif r < 0.6:
            outs = [rng.choice(T) for _ in range(rng.randint(0, 2))]
            funcs.append({"name": name, "ins": ins, "outs": outs, "decl": True})
            sigs.append((name, ins, outs))
        else:
            ids = [wire() for _ in ins]
            funcs.append({"name": name, "ins": ins, "outs": list(ins), "declare": rng.random() < 0.5,
                          "body": {"ins": ids, "stmts": [], "outs": list(ids), "out_tys": list(ins), "defs": []}})
            sigs.append((name, ins, list(ins)))
    m_ins, m_tys, stmts, o_ids, o_tys, nodes = [], [], [], [], [], []

    def fresh(tys_):
        ws = [wire() for _ in tys_]
        m_ins.extend(ws)
        m_tys.extend(tys_)
        return ws

    def emit(st, outs):
        st["id"] = sid()
        st["outs"] = [wire() for _ in outs]
        o_ids.extend(st["outs"])
        o_tys.extend(outs)
        stmts.append(st)
        nodes.append(st["id"])

    for _ in range(rng.randint(1, 4)):
        name, ins, outs = rng.choice(sigs)
        inst = targs = None
        if ins is None:
            row = [rng.choice(["B", "I", "F"]) for _ in range(rng.choice([1, 2, 2, 3]))]
            ins, outs, inst, targs = row, list(row), ["fn", list(row), list(row)], [["seq", [["type", t] for t in row]]]
        r = rng.random()
        if r < 0.2:
            emit({"k": "loadfn", "func": name, "inst": inst, "targs": targs}, [["fn", list(ins), list(outs)]])
        else:
            emit({"k": "call", "func": name, "args": fresh(ins), "inst": inst, "targs": targs}, outs)
        if rng.random() < 0.3:
            tys_ = [rng.choice(T) for _ in range(rng.randint(1, 3))]
            outs2 = [rng.choice(T) for _ in range(rng.randint(0, 2))]
            emit({"k": "op", "op": ["custom", "g%d" % len(tys_), tys_, outs2, ""], "args": fresh(tys_),
                  "via": rng.choice(["add_op", "add", "extend"])}, outs2)
    if len(nodes) >= 2 and rng.random() < 0.5:
        i, j = sorted(rng.sample(range(len(nodes)), 2))
        stmts.append({"k": "order", "id": sid(), "src": nodes[i], "dst": nodes[j]})
    if rng.random() < 0.3:
        stmts.append({"k": "order", "id": sid(), "src": "in", "dst": rng.choice(nodes)})
    funcs.append({"name": "main", "ins": m_tys, "outs": o_tys,
                  "body": {"ins": m_ins, "stmts": stmts, "outs": o_ids, "out_tys": o_tys, "defs": []}})
    return {"root": "module", "consts": [], "funcs": funcs}


def demo_program(given, drop=(), when="now"):
    """seeded C03-h, minimised: f : [Q, B] -> [Q] defined, main : [Q, B] calls it with `given` of its two wires"""
    return {"root": "module", "consts": [], "funcs": [
        {"name": "f", "ins": ["Q", "B"], "outs": ["Q", "B"],
         "body": {"ins": [1, 2], "stmts": [], "outs": [1, 2], "out_tys": ["Q", "B"], "defs": []}},
        {"name": "main", "ins": ["Q", "B"], "outs": ["Q", "B"],
         "body": {"ins": [3, 4], "stmts": [
             {"k": "call", "func": "f", "args": [3, 4], "inst": None, "targs": None, "id": 1, "outs": [5, 6],
              "given": given, "when": when, "drop": list(drop)}],
             "outs": [5, 6], "out_tys": ["Q", "B"], "defs": []}}]}


def partial_rowpoly(row, given):
    p = rowpoly_program(row)
    p["funcs"][1]["body"]["stmts"][0].update(given=given, when="now", drop=[])
    return p


def partial_custom(via):
    """dfg [B, I, B]: an extension operation with three inputs is given its first wire only (via add_op / add / extend),
    the third is linked afterwards, the second never; an order edge leaves the node; then a CallIndirect of a loaded
    function [B, I] -> [B] is given the function and one argument"""
    return {"root": "module", "consts": [], "funcs": [
        {"name": "g", "ins": ["B", "I"], "outs": ["B"], "decl": True},
        {"name": "main", "ins": ["B", "I", "B"], "outs": ["I", "B"],
         "body": {"ins": [1, 2, 3], "stmts": [
             {"k": "op", "op": ["custom", "three", ["B", "I", "B"], ["I"], ""], "args": [1, 2, 3], "via": via, "id": 1,
              "outs": [4], "given": 1, "when": "end", "drop": [1]},
             {"k": "loadfn", "func": "g", "inst": None, "targs": None, "id": 2, "outs": [5]},
             {"k": "op", "op": ["callind"], "args": [5, 1, 2], "via": "add_op", "id": 3, "outs": [6],
              "given": 2, "when": "after", "drop": []},
             {"k": "order", "id": 4, "src": 1, "dst": 3}],
             "outs": [4, 6], "out_tys": ["I", "B"], "defs": []}}]}


# the raw history of a small HUGR to insert (Bool -> Bool identity: Input, Output, one link)
INSERTED = (["add_node", ["input", ["B"]], 0, None, None], ["add_node", ["output", ["B"]], 0, None, None],
            ["add_link", 1, 0, 2, 0])


class C03(RT):
    id = "C03"
    props_file = "props/C03.v"
    run_file = "run/C03SchemaRun.v"
    run_module = "run.C03SchemaRun"
    case_type = "jcase"
    shard = 8
    which = 3
    rule = ("documents of HUGRs built by generated builder programs followed by a public-API mutation history, of "
            "packages of such modules (with an extension whose operation carries a lowering HUGR) and of extensions; "
            "non-trivial = a HUGR with an order link or a hole in its node table and at least 4 nodes, or a "
            "package / extension document")
    trusted = list(RT.trusted) + [
        "harness/c03_coqschema.py: printer of the emitted JSON text (parsed with Python's json, duplicate members "
        "refused) as hash-consed Gallina tables (strings and shared sub-values by index), rebuilt into `json` trees by "
        "expand_all of coq/run/C03SchemaRun.v; the tables operation code -> members / metadata code -> members of the "
        "tie are taken from the public-API dump (NodeData._to_serial per node), not from the document",
        "harness/translators/schema.py (C17): specification/schema/hugr_schema_strict_live.json -> gen/Schemas.v "
        "`published_hugr_strict`, regenerated on every run, fails closed on keywords outside the formalised subset",
        "fuel 600 of the Coq validator is enough for every sampled document: checked per document by the agreement "
        "with python-jsonschema (exhausted fuel rejects)",
    ]
    assumptions = list(RT.assumptions) + [
        "theorems C03_model_document_schema_valid / C03_emitted_document_schema_valid / C03_*_package_schema_valid: every "
        "operation object, written with parent 0, is accepted by the OpType definition of the published strict schema "
        "(hypothesis ops_valid0, visible in the statements; what C05/C17 cover), and extension documents by its Extension "
        "definition; the instances are evaluated on every sampled document by the Coq monitor (whole documents are validated)",
        "static-port clauses (coq/spec/StaticWiringS.v) are promises about links made by the builder API: switched off per "
        "HUGR after a raw add_link from a static output / a delete mutation (counted in coq_schema.static_*_clause_applies)",
        "JSON Schema draft 2020-12 semantics for the keyword subset occurring in the published files (C17's validator)",
    ]

    def regenerate(self, ctx):
        # the published schema files as Coq constants (shared with C17; fail-closed translator)
        path, _ = schema_tr.regenerate(fw.REPO, fw.COQ, ctx.work)
        return [os.path.relpath(path, fw.VERIF)]

    # -- cases
    def corpus(self, ctx):
        P = lambda row, muts=(): {"kind": "hugr", "program": rowpoly_program(row), "muts": [list(m) for m in muts]}
        Q = lambda prog, muts=(): {"kind": "hugr", "program": prog, "muts": [list(m) for m in muts]}
        return list(super().corpus(ctx)) + [
            # seeded C03-c / D13: Call._function_port_offset must be the INSTANTIATION's input count: a row-polymorphic
            # call whose instantiation has fewer (0) and more (2, 3) value inputs than the polymorphic body (1)
            P([]), P(["B", "I"]), P(["B", "B", "I"]), P(["I"]),
            # the same with an order edge into the call (order port = value inputs + the static port)
            P(["B", "I"], [["add_order", 3, 5]]),
            # seeded C03-e: insert_hugr with the parent omitted inserts below the root (not as a second root that the
            # document lists as its own parent); once, and twice in a row after other nodes
            {"kind": "hist", "root": ["module"], "muts": [["insert", ["dfg", ["B"], ["B"]], list(INSERTED), None]]},
            # ... next to the same insertion with parent = root and parent = a container added before
            {"kind": "hist", "root": ["module"], "muts": [
                ["insert", ["dfg", ["B"], ["B"]], list(INSERTED), 0], ["add_node", ["dfg", [], []], 0, None, None],
                ["insert", ["dfg", ["B"], ["B"]], list(INSERTED), 4], ["insert", ["dfg", ["B"], ["B"]], list(INSERTED), None]]},
            {"kind": "hist", "root": ["dfg", ["B"], ["B"]], "muts": [
                ["add_node", ["input", ["B"]], 0, None, None], ["add_node", ["output", ["B"]], 0, None, None],
                ["insert", ["dfg", ["B"], ["B"]], list(INSERTED), None], ["insert", ["dfg", [], []], [], None],
                ["add_link", 1, 0, 3, 0], ["add_link", 3, 0, 2, 0]]},
            # seeded C03-h: the static function port of a Call comes from the operation (2 here), not from the number
            # of wires handed to DfBase.call; the other value inputs linked afterwards with Hugr.add_link, or never
            Q(demo_program(1)), Q(demo_program(0)), Q(demo_program(0, when="after")), Q(demo_program(1, drop=[1])),
            Q(demo_program(0, drop=[0, 1])), Q(demo_program(1, when="end"), [["add_order", 5, 7]]),
            # ... a row-polymorphic call (C03-c's shape) with a partial argument list, an extension operation given one
            # of its three wires through add / extend with an order edge out of it, a partially wired CallIndirect
            Q(partial_rowpoly(["B", "I", "B"], 1)), Q(partial_custom("add")), Q(partial_custom("extend")),
            # seeded C03-i: an extension whose operation has a lowering HUGR, READ from its document and WRITTEN again
            # (twice in a row), alone and inside a package read from JSON and from an envelope: the nested HUGR document
            # of the second writing is as index-sane and schema-valid as the first (observation: _reemit)
            {"kind": "ext", "which": "custom_hugr", "prog": "bool_id"},
            {"kind": "pkg", "progs": ["empty_module"], "ext": True},
        ]

    def generate(self, rng, tier, ctx):
        # the C02 stream first (its draws are unchanged), then programs with partial argument lists
        cases = list(super().generate(rng, tier, ctx))
        for i in range(20 if tier == "quick" else 120):
            c = {"kind": "hugr", "partial": rng.randrange(1 << 30), "nmuts": rng.choice([0, 0, 0, rng.randint(1, 6)]),
                 "mseed": rng.randrange(1 << 30), "reuse": False, "off_port": False}
            if i % 2 == 0:
                c["callmod"] = rng.randrange(1 << 30)
            else:
                # a general builder program (any root) that has at least one site; small ones preferred
                c.update(size=4, max_depth=2)
                seed = rng.randrange(1 << 30)
                while not self._usable_partial(seed, c):
                    seed = rng.randrange(1 << 30)
                c["seed"] = seed
            cases.append(c)
        # (seeded C03-i) more extensions with a lowering HUGR and packages carrying such an extension: every case is
        # also read back and written again (_reemit); drawn after the streams above, whose draws are unchanged
        for i in range(4 if tier == "quick" else 40):
            if i % 2 == 0:
                es = rng.randrange(1 << 30)
                while not c02.usable_seed(es):
                    es = rng.randrange(1 << 30)
                cases.append({"kind": "ext", "which": "custom_hugr", "seed": es})
            else:
                seeds = []
                while len(seeds) < 1 + i % 3:
                    x = rng.randrange(1 << 30)
                    if c02.usable_seed(x, "module"):
                        seeds.append(x)
                cases.append({"kind": "pkg", "seeds": seeds, "ext": True})
        return cases

    @staticmethod
    def _plain_program(case):
        import random
        if "callmod" in case:
            return callmod_program(random.Random(case["callmod"]))
        kw = {k: case[k] for k in ("size", "max_depth") if k in case}
        return progs.gen_program(random.Random(case["seed"]), case.get("root"), **kw)

    def _usable_partial(self, seed, c):
        try:
            prog = self._plain_program({**c, "seed": seed})
            return bool(partial_sites(prog)) and len(progs.run(prog).hugr) <= c02.MAX_NODES
        except (TypeError, AssertionError, KeyError, IndexError):
            return False

    def partial_program(self, case):
        """the marked program of a case of the partial-argument stream (None for the other cases)"""
        import random
        if "program" in case:
            return case["program"]
        if "partial" not in case:
            return None
        return partialise(self._plain_program(case), random.Random(case["partial"]),
                          p=0.8 if "callmod" in case else 0.6)

    def program(self, case):
        prog = self.partial_program(case)
        if prog is not None:
            return run_partial(prog).hugr
        return super().program(case)

    # -- observation: the C02 observation plus every text handed to the schema server
    def observe(self, case, ctx):
        srv = c02.schema_server(ctx)
        rec = []
        plain_check = type(srv).check

        def recording(defname, text, _srv=srv):
            ans = plain_check(_srv, defname, text)
            rec.append((defname, text, ans))
            return ans
        srv.check = recording
        try:
            o = super().observe(case, ctx)
            self._reemit(case, o, rec, recording, ctx)
        finally:
            del srv.check
        o["schema_docs"] = rec
        return o

    # -- documents written by objects that were themselves READ from a document (seeded C03-i)
    # "Every document produced by HUGR, package and extension serialization": also the one an object writes that was
    # loaded from JSON / from an envelope and not built in Python.  Per case, the first document of each emitting class
    # is read back (Hugr.load_json, Extension.from_json, Package.from_json / from_bytes) and written again, GENERATIONS
    # times in a row; every text so written (HUGR, Package, Extension, every lowering HUGR nested in an extension
    # document, also inside a package) is handed to the schema server and so joins `schema_docs`: judged by
    # python-jsonschema, the Coq validator and json_index_sane (coq/run/C03SchemaRun.v mon_py / mon_coq / mon_jidx)
    # like a first-generation document.  A text equal, character by character, to one already judged in this case is
    # not sent again (same text, same verdict).  Each nested / module document must moreover be the document of the
    # HUGR the loaded object holds (up to doc_canon; folded into lowering_ok / same, as c02.lowerings_ok does for the
    # first generation): that is how the port-addressing clauses reach a re-written nested document.
    # A READER that raises on the library's own document is C02's subject: counted, no verdict here.
    GENERATIONS = 2

    def _reemit(self, case, o, rec, check, ctx):
        import warnings
        from hugr.ext import Extension
        from hugr.hugr import Hugr
        from hugr.package import Package
        k = case["kind"]
        if "skip" in o or any(key in o for key in ("doc_error", "pkg_error", "ext_error")):
            return
        st = ctx.stats.setdefault("documents_written_by_loaded_objects", {
            "written": 0, "same_text_as_a_document_already_judged": 0, "judged_as_new_documents": 0,
            "nested_lowering_documents": 0, "reader_raises_no_verdict": 0, "writer_raises": 0})
        seen = {(d, t) for d, t, _ in rec}
        bad = []

        def send(defname, text):
            st["written"] += 1
            if (defname, text) in seen:
                st["same_text_as_a_document_already_judged"] += 1
                return
            seen.add((defname, text))
            st["judged_as_new_documents"] += 1
            check(defname, text)

        def is_doc_of(d, h):
            """the (nested) HUGR document d is the wire-format document of the HUGR h the loaded object holds"""
            try:
                return d.get("version") == "live" and \
                    c02.doc_canon(c02.doc_view(d)) == c02.doc_canon(c02.doc_view(json.loads(h.to_json())))
            except Exception:
                return False

        def ext_doc(doc, e):
            """the lowering HUGRs nested in the extension document `doc`, written by the loaded extension e"""
            ops_ = doc.get("operations") if isinstance(doc, dict) else None
            if not isinstance(ops_, dict):
                return bad.append("extension document without operations")
            for name, od in e.operations.items():
                lfs = ops_.get(name, {}).get("lower_funcs", [])
                if len(lfs) != len(od.lower_funcs):
                    bad.append("lowerings lost")
                    continue
                for lf_doc, lf in zip(lfs, od.lower_funcs):
                    st["nested_lowering_documents"] += 1
                    d = lf_doc.get("hugr") if isinstance(lf_doc, dict) else None
                    if not isinstance(d, dict):
                        bad.append("lowering without a HUGR document")
                        continue
                    send("SerialHugr", json.dumps(d))
                    if not is_doc_of(d, lf.hugr):
                        bad.append("nested document is not the document of the loaded lowering HUGR")

        def pkg_doc(text, p):
            send("Package", text)
            doc = json.loads(text)
            mods, exts = doc.get("modules"), doc.get("extensions")
            if not isinstance(mods, list) or len(mods) != len(p.modules) or \
                    not isinstance(exts, list) or len(exts) != len(p.extensions):
                return bad.append("package document does not list the modules / extensions of the loaded package")
            for md, h in zip(mods, p.modules):
                if not (isinstance(md, dict) and is_doc_of(md, h)):
                    bad.append("module document is not the document of the loaded module")
            for ed, e in zip(exts, p.extensions):
                ext_doc(ed, e)

        def first(defname):
            return next((t for d, t, _ in rec if d == defname), None)

        def step(read, write):
            """one generation: -> the object read, the text it writes; None when the READER raises"""
            try:
                x = read()
            except Exception:
                st["reader_raises_no_verdict"] += 1
                return None
            try:
                return x, write(x)
            except Exception as e:
                st["writer_raises"] += 1
                bad.append("writer raises " + type(e).__name__)
                return None

        with warnings.catch_warnings():
            warnings.simplefilter("ignore")
            if k in ("hugr", "hist"):
                cur = first("SerialHugr")
                for _ in range(self.GENERATIONS if cur is not None else 0):
                    r = step(lambda: Hugr.load_json(cur), lambda h: h.to_json())
                    if r is None:
                        break
                    cur = r[1]
                    send("SerialHugr", cur)
                # (a writer that raises on a reloaded HUGR is doc2_error of the C02 observation)
                return
            if k == "ext":
                cur = first("Extension")
                for _ in range(self.GENERATIONS if cur is not None else 0):
                    r = step(lambda: Extension.from_json(cur), lambda e: e.to_json())
                    if r is None:
                        break
                    e, cur = r
                    send("Extension", cur)
                    ext_doc(json.loads(cur), e)
                if bad:
                    o["lowering_ok"] = False
                    o["rewritten"] = bad[:3]
                return
            if k == "pkg":
                cur = first("Package")
                if cur is None:
                    return
                # first through the JSON reader, then through the envelope (binary, then text)
                r = step(lambda: Package.from_json(cur), lambda p: p.to_json())
                if r is not None:
                    p, cur = r
                    pkg_doc(cur, p)
                    for to_env, from_env in ((Package.to_bytes, Package.from_bytes), (Package.to_str, Package.from_str)):
                        # the envelope the loaded package writes carries its document (payload after the 10-byte
                        # header, where it reads as JSON: the envelope itself is C09's subject)
                        w = step(lambda: p, to_env)
                        if w is None:
                            break
                        env = w[1]
                        try:
                            payload = (env if isinstance(env, str) else env.decode("utf-8"))[10:]
                            json.loads(payload)
                        except Exception:
                            c02.drift(ctx, "package_envelope_payload_not_json_after_10_byte_header")
                        else:
                            pkg_doc(payload, p)
                        r = step(lambda: from_env(env), lambda q: q.to_json())
                        if r is None:
                            break
                        p, cur = r
                        pkg_doc(cur, p)
                if bad:
                    o["same"] = False
                    o["rewritten"] = bad[:3]

    # -- literal
    @staticmethod
    def _not_nat(obs):
        """a document with a negative node index, parent or offset cannot be written as the typed (nat) document of
        coq/run/C02Run.v; it is a wire-format violation by itself"""
        for o in [obs] + list(obs.get("mods", [])):
            for key in ("doc", "doc2"):
                d = o.get(key)
                if not d:
                    continue
                if any(isinstance(p, int) and p < 0 for _, p in d["nodes"]):
                    return True
                if any(isinstance(x, int) and x < 0 for e in d["edges"] for port in e for x in port):
                    return True
        return False

    def literal(self, case, obs, ctx, count=True):
        if self._not_nat(obs):
            # keep the JSON side (both schema validators and json_index_sane still judge the text); the typed part
            # is replaced by a case whose monitor fails
            ctx.stats["documents_with_negative_indices"] = ctx.stats.get("documents_with_negative_indices", 0) + 1
            base = "(CExt false false)"
            obs = {k: v for k, v in obs.items() if k not in ("a", "mods")}
        else:
            base = super().literal(case, obs, ctx)
        st = ctx.stats.setdefault("coq_schema", {"documents": 0, "bytes": 0, "over_size_cap_python_only": 0,
                                                 "unprintable_python_only": 0, "ties": 0, "package_ties": 0,
                                                 "literal_bytes": 0, "validator_disagreements_among_failing_cases": 0,
                                                 "failing_cases_diagnosed": 0})
        if not count:
            st = dict(st)
        L = Lit(ctx)
        dag = cj.Dag()
        roots = []          # (kind, payload, dag id)
        try:
            docs = []
            parsed = {}
            for defname, text, ans in obs.get("schema_docs", []):
                if len(text) > MAX_COQ_DOC:
                    st["over_size_cap_python_only"] += 1
                    continue
                parsed[text] = cj.parse(text)
                docs.append((defname, dag.add(parsed[text]), ans == "OK"))
                st["documents"] += 1
                st["bytes"] += len(text)
            rts = []
            if "skip" not in obs and case["kind"] in ("hugr", "hist") and "a" in obs:
                rts = [obs]
            elif case["kind"] == "pkg" and "mods" in obs:
                rts = obs["mods"]
            ops, mds = {}, {}
            for o in rts:
                for n in o["a"]["nodes"]:
                    code = opcode(n["op"])
                    ops.setdefault(L.ops(code), dag.members(json.loads(code)))
                    if n["md"]:
                        mds.setdefault(L.md(json.dumps(n["md"], sort_keys=True)), dag.members(n["md"]))
            ties, pkg = [], None
            flags = [static_clauses(case, o) for o in rts]
            if case["kind"] in ("hugr", "hist") and rts:
                j = next((t for d, t, _ in obs["schema_docs"] if d == "SerialHugr"), None)
                if j is not None and j in parsed and "doc" in obs:
                    ties.append((parsed[j].get("encoder"), dag.add(parsed[j])))
                    st["ties"] += 1
                else:
                    ties.append((None, None))
            elif case["kind"] == "pkg" and rts:
                j = next((t for d, t, _ in obs["schema_docs"] if d == "Package"), None)
                pd = parsed.get(j)
                if pd is not None and isinstance(pd.get("modules"), list) and len(pd["modules"]) == len(rts) \
                        and all("doc" in o for o in rts):
                    for m in pd["modules"]:
                        ties.append((m.get("encoder") if isinstance(m, dict) else None, dag.add(m)))
                        st["ties"] += 1
                    pkg = ([dag.add(e) for e in pd.get("extensions", [])], dag.add(pd))
                    st["package_ties"] += 1
                else:
                    ties = [(None, None)] * len(rts)
            root_ids = [i for _, i, _ in docs] + list(ops.values()) + list(mds.values()) + \
                       [i for _, i in ties if i is not None] + (pkg[0] + [pkg[1]] if pkg else [])
            gstrs, gdefs, at = dag.render(root_ids)
        except cj.Unprintable:
            st["unprintable_python_only"] += 1
            return "(J3 %s [] [] [] [] [] %s None)" % (base, glist("(Ti None None %s %s)" % (gbool(a), gbool(b))
                                                                    for a, b in map(lambda o: static_clauses(case, o), self._rts(case, obs))))
        gdocs = glist("(Sd %s %d %s)" % (cj.gstring(d), at[i], gbool(ok)) for d, i, ok in docs)
        gops = glist("(Pr %d %d)" % (c, at[i]) for c, i in ops.items())
        gmds = glist("(Pr %d %d)" % (c, at[i]) for c, i in mds.items())
        gties = glist("(Ti %s %s %s %s)" % (cj.gopt_string(e) if isinstance(e, str) else "None",
                                            "None" if i is None else "(Some %d%%N)" % at[i], gbool(fe), gbool(fw_))
                      for (e, i), (fe, fw_) in zip(ties, flags))
        for fe, fw_ in flags:
            st["static_edge_clause_applies"] = st.get("static_edge_clause_applies", 0) + int(fe)
            st["static_wired_clause_applies"] = st.get("static_wired_clause_applies", 0) + int(fw_)
        gpkg = "None" if pkg is None else "(Some (%s, %d%%N))" % (glist("%d%%N" % at[i] for i in pkg[0]), at[pkg[1]])
        lit = "(J3 %s\n %s\n %s\n %s\n %s\n %s\n %s\n %s)" % (base, gstrs, gdefs, gops, gmds, gdocs, gties, gpkg)
        st["literal_bytes"] += len(lit)
        return lit

    @staticmethod
    def _rts(case, obs):
        if "skip" in obs:
            return []
        if case["kind"] in ("hugr", "hist"):
            return [obs] if "a" in obs else []
        if case["kind"] == "pkg":
            return obs.get("mods", [])
        return []

    def nontrivial(self, case, obs):
        a = obs.get("a")
        if not a:
            return case["kind"] not in ("hugr", "hist") and "skip" not in obs
        idxs = [n["idx"] for n in a["nodes"]]
        return len(idxs) >= 4 and (idxs != list(range(len(idxs))) or any(l[1] == -1 for l in a["links"]))

    def describe(self, case, obs):
        d = super().describe(case, obs)
        if "rewritten" in obs:
            # what was wrong with a document written by an object that was read from this case's document
            d["observed"]["written_again_after_reading"] = obs["rewritten"]
        bad = [(n, t) for n, t, ans in obs.get("schema_docs", []) if ans != "OK"]
        if bad:
            d["observed"]["rejected_document"] = {"definition": bad[0][0], "text": bad[0][1][:20000]}
        return d

    # -- shrinking / search for the partial-argument stream
    def _shrink_raw(self, case):
        prog = self.partial_program(case)
        if prog is None or case["kind"] != "hugr":
            yield from super()._shrink_raw(case)
            return
        import copy
        _, applied = self.build(case)
        base = {"kind": "hugr", "program": prog, "muts": applied}
        ms = applied
        for i in range(len(ms)):
            yield {**base, "muts": ms[:i] + ms[i + 1:]}
        n = len(marked_sites(prog))
        # one mark fewer (that builder call gets all its wires again); a withheld input more / fewer dropped
        for i in range(n):
            q = copy.deepcopy(prog)
            st = marked_sites(q)[i]
            for key in ("given", "when", "drop"):
                st.pop(key, None)
            yield {**base, "program": q}
        for i in range(n):
            q = copy.deepcopy(prog)
            st = marked_sites(q)[i]
            if st.get("when") != "now" or st.get("drop"):
                st["when"], st["drop"] = "now", []
                yield {**base, "program": q}
        # a smaller generated program with the same marking seed
        if "seed" in case and "program" not in case:
            size, depth = case.get("size", 6), case.get("max_depth", 3)
            for s_, d_ in ((size // 2, depth), (size - 1, depth), (size, depth - 1)):
                if s_ >= 0 and d_ >= 0 and (s_ < size or d_ < depth):
                    c = {**case, "size": s_, "max_depth": d_}
                    try:
                        if partial_sites(self._plain_program(c)):
                            yield c
                    except Exception:
                        pass

    def neighbours(self, case, rng):
        if "partial" in case and "program" not in case:
            for k in range(30):
                yield {**case, "partial": rng.randrange(1 << 30), "nmuts": 0}
            return
        yield from super().neighbours(case, rng)

    DIAG_MAX = 4

    def diagnose(self, case, obs, ctx):
        """which part of `mon` fails on this case: {"mon_typed": ok?, "mon_py": ok?, "mon_coq": ok?} or None.
        One small coqc run; at most DIAG_MAX per check run."""
        n = ctx.__dict__.get("c03_diag_n", 0)
        if n >= self.DIAG_MAX:
            return None
        ctx.__dict__["c03_diag_n"] = n + 1
        try:
            res = fw.eval_cases(ctx.work, self.run_module, [self.literal(case, obs, ctx, count=False)], shard=1,
                                checks=("mon_typed", "mon_py", "mon_coq", "mon_jidx", "mon_static"), tag="diag%d" % n,
                                case_type=self.case_type)
        except fw.CoqEvalError:
            return None
        ctx.stats["coq_schema"]["failing_cases_diagnosed"] += 1
        return {k: not v for k, v in res.items()}

    def signature(self, case, obs, ctx):
        sig = super().signature(case, obs, ctx)
        py_rejects = any(ans != "OK" for _, _, ans in obs.get("schema_docs", []))
        generic = sig == "wire-format:index-or-port-addressing" or sig.endswith(":document")
        if not (py_rejects or generic):
            return sig
        d = self.diagnose(case, obs, ctx)
        if d is None:
            return sig
        if d["mon_py"] != d["mon_coq"]:
            # the two validators disagree on a document of this case: drift of the Coq validator (or of the
            # translation of the schema file / the document) from python-jsonschema
            ctx.stats["coq_schema"]["validator_disagreements_among_failing_cases"] += 1
            ctx.notes.append("MODEL DRIFT: python-jsonschema %s and the Coq validator %s a document of case %s"
                             % ("accepts" if d["mon_py"] else "rejects", "accepts" if d["mon_coq"] else "rejects",
                                json.dumps(case)[:300]))
        if generic and "rewritten" in obs:
            # a document written by an object that was read from this case's document (_reemit)
            return "written-again-after-reading:" + (
                "json-text-not-index-sane" if not d["mon_jidx"] else
                "schema" if not (d["mon_py"] and d["mon_coq"]) else "not-the-document-of-the-loaded-object")
        if generic and not d["mon_coq"] and d["mon_typed"]:
            return "schema:coq-validator-rejects:python-jsonschema-accepts"
        if generic and not d["mon_static"] and d["mon_typed"]:
            return "static-port:not-immediately-after-the-value-inputs"
        if generic and not d["mon_jidx"] and d["mon_typed"]:
            return "json-text:not-index-sane"
        return sig

    def distribution(self, cases, observations):
        d = super().distribution(cases, observations)
        # row-polymorphic calls: value inputs of the instantiation vs inputs of the polymorphic body (seeded C03-c / D13)
        rp = {"fewer": 0, "equal": 0, "more": 0}
        statics = 0
        for o in observations:
            for a in ([o["a"]] if "a" in o else [m["a"] for m in o.get("mods", []) if "a" in m]):
                for n in a["nodes"]:
                    op = n["op"]
                    if op.get("op") in ("Call", "LoadFunction", "LoadConstant"):
                        statics += 1
                    if op.get("op") == "Call" and any(p.get("tp") == "List" for p in op["func_sig"]["params"]):
                        x, y = len(op["instantiation"]["input"]), len(op["func_sig"]["body"]["input"])
                        rp["fewer" if x < y else "more" if x > y else "equal"] += 1
        d["row_polymorphic_calls_instantiation_vs_body_inputs"] = rp
        # builder calls given fewer wires than the operation has value inputs (seeded C03-h)
        pa = {"cases": 0, "call": 0, "op": 0, "callind": 0, "withheld_inputs_linked_now": 0, "linked_at_end_of_region": 0,
              "linked_after_outputs_set": 0, "left_unconnected": 0, "given_zero_wires": 0}
        for c in cases:
            try:
                prog = self.partial_program(c) if c.get("kind") == "hugr" else None
            except Exception:
                prog = None
            if prog is None:
                continue
            ms = marked_sites(prog)
            pa["cases"] += bool(ms)
            for st in ms:
                pa["callind" if st["k"] == "op" and st["op"][0] == "callind" else st["k"]] += 1
                k = len(st["args"]) - st["given"] - len(st.get("drop", []))
                pa[{"now": "withheld_inputs_linked_now", "end": "linked_at_end_of_region",
                    "after": "linked_after_outputs_set"}[st.get("when", "now")]] += k
                pa["left_unconnected"] += len(st.get("drop", []))
                pa["given_zero_wires"] += st["given"] == 0
        d["builder_calls_given_fewer_wires_than_value_inputs"] = pa
        d["nodes_with_a_static_input"] = statics
        sizes = sorted(len(t) for o in observations for _, t, _ in o.get("schema_docs", []))
        d["schema_documents"] = {"count": len(sizes), "bytes": sum(sizes),
                                 "median_bytes": sizes[len(sizes) // 2] if sizes else 0,
                                 "max_bytes": sizes[-1] if sizes else 0,
                                 "coq_size_cap_bytes": MAX_COQ_DOC,
                                 "by_definition": {k: sum(1 for o in observations for n, _, _ in o.get("schema_docs", []) if n == k)
                                                   for k in ("SerialHugr", "Package", "Extension")}}
        return d


PROP = C03()
