"""C03 — emitted documents conform to the published wire format.  Same cases, model and correspondence
as C02 (harness/props/c02.py); the monitor is mon3 of coq/run/C02Run.v (schema verdict, index sanity,
nodes listed in index order with the root first, port addressing by the reader's contract)."""
from props.c02 import RT


class C03(RT):
    id = "C03"
    props_file = "props/C03.v"
    run_file = "run/C03Run.v"
    run_module = "run.C03Run"
    which = 3
    rule = ("documents of HUGRs built by generated builder programs followed by a public-API mutation history, of "
            "packages of such modules (with an extension whose operation carries a lowering HUGR) and of extensions; "
            "non-trivial = a HUGR with an order link or a hole in its node table and at least 4 nodes, or a "
            "package / extension document")

    def nontrivial(self, case, obs):
        a = obs.get("a")
        if not a:
            return case["kind"] not in ("hugr", "hist") and "skip" not in obs
        idxs = [n["idx"] for n in a["nodes"]]
        return len(idxs) >= 4 and (idxs != list(range(len(idxs))) or any(l[1] == -1 for l in a["links"]))


PROP = C03()
