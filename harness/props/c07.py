"""C07 — a type is reported copyable only if all of its constituents are
(model: coq/model/Types.v, spec: coq/spec/TypesS.v, proofs: coq/proofs/TypesP.v)."""
import json
import os

import fw
from fw import glist, gopt, gapp, gbool
import tyval_c07c14 as tv
from tyval_c07c14 import gty, gbound, build_ty, rand_ty

STD = [("array", "collections/array.json", "collections.array", "array"),
       ("list", "collections/list.json", "collections.list", "List"),
       ("static_array", "collections/static_array.json", "collections.static_array", "static_array")]
LOCATIONS = [("py", "hugr-py/src/hugr/std/_json_defs"), ("spec", "specification/std_extensions")]


def _jparam(p):
    tp = p.get("tp")
    if tp == "Type" and set(p) == {"tp", "b"} and p["b"] in ("C", "A"):
        return gapp("PType", gbound(p["b"]))
    if tp == "BoundedNat" and set(p) == {"tp", "bound"} and (p["bound"] is None or isinstance(p["bound"], int)):
        return gapp("PNat", gopt(None if p["bound"] is None else fw.gN(p["bound"])))
    if tp == "String" and set(p) == {"tp"}:
        return "PString"
    if tp == "List" and set(p) == {"tp", "param"}:
        return gapp("PList", _jparam(p["param"]))
    if tp == "Tuple" and set(p) == {"tp", "params"}:
        return gapp("PTuple", glist(_jparam(x) for x in p["params"]))
    if tp == "Extensions" and set(p) == {"tp"}:
        return "PExts"
    raise ValueError(f"unexpected type parameter in a std definition: {p!r}")


def _jbound(b):
    if b.get("b") == "Explicit" and set(b) == {"b", "bound"} and b["bound"] in ("C", "A"):
        return gapp("Explicit", gbound(b["bound"]))
    if b.get("b") == "FromParams" and set(b) == {"b", "indices"} and all(
            isinstance(i, int) and not isinstance(i, bool) and i >= 0 for i in b["indices"]):
        return gapp("FromParams", glist(fw.gnat(i) for i in b["indices"]))
    raise ValueError(f"unexpected bound in a std definition: {b!r}")


def translate_std_bounds() -> str:
    """coq/gen/StdBounds.v from the JSON definition files in both locations (fail closed)."""
    out = ["(* GENERATED on every run by harness/props/c07.py from the std extension JSON files of",
           "   hugr-py/src/hugr/std/_json_defs and specification/std_extensions.  Do not edit. *)",
           "From Coq Require Import NArith List.", "Import ListNotations.", "From HV Require Import model.Types.", ""]
    for loc, base in LOCATIONS:
        for key, rel, extname, tname in STD:
            path = os.path.join(fw.REPO, base, rel)
            doc = json.load(open(path))
            if doc.get("name") != extname:
                raise ValueError(f"{path}: extension name {doc.get('name')!r}, expected {extname!r}")
            td = doc["types"][tname]
            if not {"name", "params", "bound"} <= set(td) or td["name"] != tname:
                raise ValueError(f"{path}: unexpected type definition record {sorted(td)}")
            out.append(f"Definition std_{key}_bound_{loc} : defbound := {_jbound(td['bound'])}.")
            out.append(f"Definition std_{key}_params_{loc} : list typaram := {glist(_jparam(p) for p in td['params'])}.")
    return "\n".join(out) + "\n"


# ------------------------------------------------------------------ histories of one object graph (kind "seq")
# case ::= {"kind": "seq", "ty": ty, "copy": None | "copy" | "deepcopy", "static": bool, "steps": [step..]}
# step ::= {"op": "set", "path": [slot..] (non-empty), "mode": "slot" | "attr", "new": ty}
#        | {"op": "append", "path": [slot..], "row": r, "new": ty}
#        | {"op": "def", "path": [slot..], "bound": ["E", b] | ["P", [i..]]}       (node is a generic "ext")
#        | {"op": "obound", "path": [slot..], "b": b}                              (node is an "opaque")
# A path is a list of indices into _slots(node), from the root.  Only objects that build_ty makes afresh are
# changed (never the shared atoms tys.Bool / tys.Qubit / FLOAT_T ..., never a TypeDef, which build_def shares).
_MUT = ("sum", "tuple", "option", "either", "func", "opaque", "ext", "array", "list", "sarray")


def _slots(t):
    """Type-valued child positions of a description: (index path inside the description, accessor on the object)."""
    k = t[0]
    if k == "sum":
        return [((1, i, j), ("rows", i, j)) for i, r in enumerate(t[1]) for j in range(len(r))]
    if k == "tuple":
        return [((1, j), ("rows", 0, j)) for j in range(len(t[1]))]
    if k == "option":
        return [((1, j), ("rows", 1, j)) for j in range(len(t[1]))]
    if k == "either":
        return [((1 + i, j), ("rows", i, j)) for i in (0, 1) for j in range(len(t[1 + i]))]
    if k == "func":
        return ([((1, j), ("in", j)) for j in range(len(t[1]))] + [((2, j), ("out", j)) for j in range(len(t[2]))])
    if k == "ext":
        return [((2, i, 1), ("args", i)) for i, a in enumerate(t[2]) if a[0] == "t"]
    if k == "opaque":
        return [((3, i, 1), ("args", i)) for i, a in enumerate(t[3]) if a[0] == "t"]
    if k == "array":
        return [((1,), ("args", 1))]
    if k in ("list", "sarray"):
        return [((1,), ("args", 0))]
    return []


def _rows(t):
    """Rows of a description one can append to: (index path of the row in the description, accessor)."""
    k = t[0]
    if k == "sum":
        return [((1, i), ("rows", i)) for i in range(len(t[1]))]
    if k == "tuple":
        return [((1,), ("rows", 0))]
    if k == "option":
        return [((1,), ("rows", 1))]
    if k == "either":
        return [((1,), ("rows", 0)), ((2,), ("rows", 1))]
    if k == "func":
        return [((1,), ("in",)), ((2,), ("out",))]
    return []


def _dget(t, pos):
    for p in pos:
        t = t[p]
    return t


def _dset(t, pos, v):
    if not pos:
        return v
    c = list(t)
    c[pos[0]] = _dset(t[pos[0]], pos[1:], v)
    return c


def _oget(o, acc):
    if acc[0] == "rows":
        return o.variant_rows[acc[1]][acc[2]]
    if acc[0] == "in":
        return o.input[acc[1]]
    if acc[0] == "out":
        return o.output[acc[1]]
    return o.args[acc[1]].ty


def _oset(o, acc, new, mode):
    from hugr import tys
    if acc[0] == "rows":
        if mode == "attr":
            rows = [list(r) for r in o.variant_rows]
            rows[acc[1]][acc[2]] = new
            o.variant_rows = rows
        else:
            o.variant_rows[acc[1]][acc[2]] = new
    elif acc[0] == "in":
        o.input[acc[1]] = new                    # FunctionType is frozen, its rows are plain lists
    elif acc[0] == "out":
        o.output[acc[1]] = new
    elif mode == "attr":
        a = list(o.args)
        a[acc[1]] = tys.TypeTypeArg(new)
        o.args = a
    else:
        o.args[acc[1]] = tys.TypeTypeArg(new)


def _inner(st):
    return st["path"][:-1] if st["op"] == "set" else st["path"]


def step_desc(t, st):
    """The description after the step (IndexError / ValueError / KeyError when the step does not fit)."""
    pos, node = (), t
    for s in _inner(st):
        p, _ = _slots(node)[s]
        pos, node = pos + p, _dget(node, p)
    if node[0] not in _MUT:
        raise ValueError("not a freshly built node")
    op = st["op"]
    if op == "set":
        p, _ = _slots(node)[st["path"][-1]]
        return _dset(t, pos + p, st["new"])
    if op == "append":
        p, _ = _rows(node)[st["row"]]
        return _dset(t, pos + p, list(_dget(node, p)) + [st["new"]])
    if op == "def":
        if node[0] != "ext":
            raise ValueError("def on a non-ext node")
        return _dset(t, pos + (1,), {**node[1], "bound": st["bound"]})
    if op == "obound":
        if node[0] != "opaque":
            raise ValueError("obound on a non-opaque node")
        return _dset(t, pos + (4,), st["b"])
    raise ValueError(op)


def step_obj(t, o, st):
    """Apply the step to the object graph `o` built from description `t`, through public attributes only."""
    node, on = t, o
    for s in _inner(st):
        p, acc = _slots(node)[s]
        node, on = _dget(node, p), _oget(on, acc)
    op = st["op"]
    if op == "set":
        _, acc = _slots(node)[st["path"][-1]]
        _oset(on, acc, build_ty(st["new"]), st["mode"])
    elif op == "append":
        _, acc = _rows(node)[st["row"]]
        lst = on.variant_rows[acc[1]] if acc[0] == "rows" else (on.input if acc[0] == "in" else on.output)
        lst.append(build_ty(st["new"]))
    elif op == "def":
        on.type_def = tv.build_def({**node[1], "bound": st["bound"]})
    elif op == "obound":
        on.bound = tv._bound(st["b"])
    else:
        raise ValueError(op)


def _nodes(t, path=(), under=False):
    """(path, node, inside a static array?) of every node reachable through _slots."""
    yield list(path), t, under
    for s, (p, _) in enumerate(_slots(t)):
        yield from _nodes(_dget(t, p), path + (s,), under or t[0] == "sarray")


def _sarray_ok(t):
    """No static array holds a linear element: in-place changes bypass StaticArray.__init__, which is the only
    place the property's 'containers that require copyable elements reject linear ones' is enforced, so the
    generator / shrinker never produce such a state (it would not be a violation of the property)."""
    try:
        return all(tv.desc_copyable(n[1]) for _, n, _ in _nodes(t) if n[0] == "sarray")
    except (IndexError, KeyError):
        return False


def seq_valid(case):
    try:
        t = case["ty"]
        if t[0] not in _MUT or not case["steps"] or not _sarray_ok(t):
            return False
        build_ty(t)
        for st in case["steps"]:
            t = step_desc(t, st)
            if not _sarray_ok(t):
                return False
        return True
    except Exception:
        return False


def run_seq(case, visit):
    """Build the root, visit; per step: change the object graph, visit every tracked object again.
    visit(obj, static) -> list of records; returns the concatenation."""
    import copy
    t = case["ty"]
    root = build_ty(t)
    static = bool(case.get("static"))
    out = list(visit(root, static))
    cur, tracked = root, [root]
    if case.get("copy"):
        cur = copy.copy(root) if case["copy"] == "copy" else copy.deepcopy(root)
        tracked = [cur, root]
    for st in case["steps"]:
        step_obj(t, cur, st)
        t = step_desc(t, st)
        for o in tracked:
            out += visit(o, static and o is cur)
    return out


def rand_new(rng, copy_only):
    if copy_only:
        return rand_ty(rng, rng.choice([0, 0, 1]), True)
    r = rng.random()
    if r < 0.4:
        return ["qubit"]
    if r < 0.55:
        return rng.choice([["usize"], ["bool"]])
    return rand_ty(rng, rng.choice([0, 1, 2]), False)


def rand_step(rng, t):
    sets, apps, defs, obs = [], [], [], []
    for path, n, under in _nodes(t):
        if n[0] not in _MUT:
            continue
        co = under or n[0] == "sarray"
        sets += [(path + [s], co) for s in range(len(_slots(n)))]
        apps += [(path, r, co) for r in range(len(_rows(n)))]
        if n[0] == "ext" and not under:
            defs.append((path, n))
        if n[0] == "opaque" and not under:
            obs.append((path, n))
    r = rng.random()
    order = (["set", "append", "def", "obound"] if r < 0.62 else ["append", "set", "def", "obound"] if r < 0.72 else
             ["def", "set", "append", "obound"] if r < 0.9 else ["obound", "set", "def", "append"])
    for op in order:
        if op == "set" and sets:
            path, co = rng.choice(sets)
            return {"op": "set", "path": path, "mode": rng.choice(["slot", "slot", "attr"]), "new": rand_new(rng, co)}
        if op == "append" and apps:
            path, row, co = rng.choice(apps)
            return {"op": "append", "path": path, "row": row, "new": rand_new(rng, co)}
        if op == "def" and defs:
            path, n = rng.choice(defs)
            na = len(n[2])
            if na == 0 or rng.random() < 0.35:
                b = ["E", tv.rand_bound(rng)]
            else:
                b = ["P", [rng.randrange(na) for _ in range(rng.choice([0, 1, 1, 2, 3]))]]
            return {"op": "def", "path": path, "bound": b}
        if op == "obound" and obs:
            path, n = rng.choice(obs)
            return {"op": "obound", "path": path, "b": "A" if n[4] == "C" else "C"}
    return None


def rand_seq(rng):
    for _ in range(50):
        d = rng.choice([1, 1, 2, 2, 3])
        r = rng.random()
        if r < 0.3:
            dd, args = tv.rand_def_and_args(rng, d, False)
            t = ["ext", dd, args]
        elif r < 0.38:
            t = ["list", rand_ty(rng, d - 1, False)]
        elif r < 0.46:
            t = ["array", rand_ty(rng, d - 1, False), rng.choice([0, 1, 2, 5])]
        else:
            t = rand_ty(rng, d, rng.random() < 0.15)
        if t[0] not in _MUT:
            continue
        t0, steps = t, []
        for _ in range(rng.choice([1, 1, 1, 2, 2, 3])):
            st = rand_step(rng, t)
            if st is None:
                break
            t2 = step_desc(t, st)
            if not _sarray_ok(t2):
                continue
            steps.append(st)
            t = t2
        if steps:
            return {"kind": "seq", "ty": t0, "copy": rng.choice([None, None, None, "copy", "copy", "deepcopy"]),
                    "static": rng.random() < 0.3, "steps": steps}
    raise RuntimeError("no history generated")


def shrink_seq(case):
    steps = case["steps"]
    if case.get("copy"):
        yield {**case, "copy": None}
    if case.get("static"):
        yield {**case, "static": False}
    for i in range(len(steps)):
        if len(steps) > 1:
            yield {**case, "steps": steps[:i] + steps[i + 1:]}
    # the subtree all steps work in, as the root
    first = {_inner(st)[0] if _inner(st) else None for st in steps}
    if len(first) == 1 and None not in first:
        s = first.pop()
        p, _ = _slots(case["ty"])[s]
        yield {**case, "ty": _dget(case["ty"], p), "steps": [{**st, "path": st["path"][1:]} for st in steps]}
    for i, st in enumerate(steps):
        rep = lambda x: {**case, "steps": steps[:i] + [x] + steps[i + 1:]}
        if st.get("mode") == "attr":
            yield rep({**st, "mode": "slot"})
        if "new" in st:
            for a in (["qubit"], ["usize"]):
                if st["new"] != a:
                    yield rep({**st, "new": a})
            for x in list(tv.shrink_ty(st["new"]))[:40]:
                yield rep({**st, "new": x})
        if st["op"] == "def" and st["bound"][0] == "P":
            for j in range(len(st["bound"][1])):
                yield rep({**st, "bound": ["P", st["bound"][1][:j] + st["bound"][1][j + 1:]]})
    for x in list(tv.shrink_ty(case["ty"]))[:200]:
        yield {**case, "ty": x}


B = {"C": "Copyable", "A": "Any"}


class C07(fw.Prop):
    id = "C07"
    props_file = "props/C07.v"
    run_file = "run/C07Run.v"
    run_module = "run.C07Run"
    shard = 300
    rule = ("generated type expressions to nesting depth 5 (quick: mostly <=4): sums incl. empty sums and empty rows, "
            "Tuple/Option/Either sugar, unit sums, function and polymorphic function types over linear rows, variables, "
            "row variables, aliases and opaque types of both bounds, ExtType over generated TypeDefs with explicit / "
            "from-parameters bounds and arbitrary in-range index lists (repetitions, non-type arguments at the indices), "
            "std int/float/string, Array/List/StaticArray over generated elements; a malformed stream with index lists "
            "out of range; the StaticArray constructor on copyable and linear elements; TypeBound.join on all bound "
            "lists up to length 4 and random longer ones; histories of one object graph (observe, then assign / append an "
            "element of a row or argument list, re-assign args / variant_rows / type_def / bound, at any depth, on the "
            "object or on a copy.copy / copy.deepcopy of it, observe again; 1-3 changes).  non-trivial = the type has a constituent (depth >= 1) or the "
            "case is a constructor/join case with >= 2 inputs or a history")
    trusted = ["indices of a from-parameters bound are naturals (negative Python indices, which would wrap around, are "
               "outside the model and the generator)",
               "serialised bounds are read from `_to_serial().model_dump()` by a pre-order walk over dict entries "
               "tagged t=Opaque (pydantic's dump is trusted to reproduce the serial objects)",
               "gen/StdBounds.v is re-translated from the JSON definition files of both locations on every run; "
               "which argument position each std subclass reads (Array 1, List 0, StaticArray 0) is hand-modelled "
               "and tied by correspondence"]
    assumptions = ["type definitions are registered in an Extension (ExtType._to_opaque asserts it)",
                   "bound index lists contain naturals"]

    def regenerate(self, ctx):
        path = os.path.join(fw.COQ, "gen", "StdBounds.v")
        fw.write_if_changed(path, translate_std_bounds())
        return ["gen/StdBounds.v"]

    # ------------------------------------------------------------------ cases
    def corpus(self, ctx):
        lin = ["qubit"]
        d_p = lambda idx, n: {"ext": "e.one", "name": "T", "params": [["type", "A"]] * n, "bound": ["P", idx]}
        return [
            {"kind": "ty", "ty": ["sum", []]},
            {"kind": "ty", "ty": ["sum", [[], []]]},
            {"kind": "ty", "ty": ["tuple", [["bool"], lin]]},
            {"kind": "ty", "ty": ["tuple", [lin, ["bool"]]]},
            {"kind": "ty", "ty": ["option", [["usize"], ["alias", "lin", "A"]]]},
            {"kind": "ty", "ty": ["either", [["usize"]], [lin]]},
            {"kind": "ty", "ty": ["func", [lin], [lin], []]},
            {"kind": "ty", "ty": ["ext", d_p([1], 2), [["t", lin], ["t", ["usize"]]]]},
            {"kind": "ty", "ty": ["ext", d_p([1, 0], 2), [["t", lin], ["t", ["usize"]]]]},
            {"kind": "ty", "ty": ["ext", d_p([0, 1], 2), [["t", ["usize"]], ["t", lin]]]},
            {"kind": "ty", "ty": ["ext", d_p([], 1), [["t", lin]]]},
            {"kind": "ty", "ty": ["ext", {"ext": "e.one", "name": "T", "params": [["nat", None], ["type", "A"]],
                                          "bound": ["P", [0, 1, 0]]}, [["n", 3], ["t", lin]]]},
            {"kind": "ty", "ty": ["ext", d_p([2], 2), [["t", lin], ["t", ["usize"]]]]},      # index out of range
            {"kind": "ty", "ty": ["array", lin, 3]},
            {"kind": "ty", "ty": ["array", ["tuple", [["usize"], ["list", lin]]], 0]},
            {"kind": "ty", "ty": ["list", ["array", ["bool"], 2]]},
            {"kind": "ty", "ty": ["sarray", ["tuple", [["int", 5], ["float"]]]]},
            {"kind": "static", "elem": lin},
            {"kind": "static", "elem": ["usize"]},
            {"kind": "static", "elem": ["tuple", [["usize"], ["list", lin]]]},
            {"kind": "static", "elem": ["func", [lin], [lin], []]},
            {"kind": "join", "bs": []},
            {"kind": "join", "bs": ["C", "A", "C"]},
        ] + self.seq_corpus()

    def seq_corpus(self):
        """Histories (seeded round 2): the bound reported / written is that of the type's CURRENT value."""
        lin, bl = ["qubit"], ["bool"]
        pair = {"ext": "e.one", "name": "Pair", "params": [["type", "A"]] * 2, "bound": ["P", [0, 1]]}
        box = {"ext": "e.one", "name": "box", "params": [["type", "A"]], "bound": ["P", [0]]}
        sq = lambda ty, steps, copy=None, static=False: {"kind": "seq", "ty": ty, "copy": copy, "static": static,
                                                           "steps": steps}
        st = lambda path, new, mode="slot": {"op": "set", "path": path, "mode": mode, "new": new}
        return [
            # serialize, assign one type argument in place, serialize again (C07-d: memoised _to_opaque)
            sq(["ext", pair, [["t", bl], ["t", bl]]], [st([1], lin)]),
            sq(["ext", pair, [["t", bl], ["t", lin]]], [st([1], bl, "attr")]),
            # a copy of a type that was serialized before gets new arguments; the original keeps its bound
            sq(["list", bl], [st([0], lin, "attr")], copy="copy"),
            sq(["array", bl, 2], [st([0], lin)], copy="deepcopy"),
            # the element of an inner sum changes under an extension type that was serialized before
            sq(["ext", box, [["t", ["tuple", [bl]]]]], [st([0, 0], lin)]),
            sq(["list", ["option", [bl]]], [{"op": "append", "path": [0], "row": 0, "new": lin}]),
            # sums themselves; the definition / the declared bound re-assigned
            sq(["tuple", [bl]], [{"op": "append", "path": [], "row": 0, "new": lin}, st([1], ["usize"])], static=True),
            sq(["ext", {**box, "bound": ["E", "C"]}, [["t", lin]]], [{"op": "def", "path": [], "bound": ["P", [0]]},
                                                                      {"op": "def", "path": [], "bound": ["E", "A"]}]),
            sq(["tuple", [["opaque", "e.two", "Ref", [], "C"]]], [{"op": "obound", "path": [0], "b": "A"}], static=True),
            sq(["sarray", ["tuple", [bl]]], [st([0, 0], ["usize"])]),
        ]

    def generate(self, rng, tier, ctx):
        k = 1 if tier == "quick" else 8
        cases = []
        for n in range(1100 * k):
            depth = rng.choice([1, 2, 2, 3, 3, 4, 4, 5])
            t = rand_ty(rng, depth, rng.random() < 0.2)
            if tv.depth_of(t) == 0 and rng.random() < 0.85:
                t = rand_ty(rng, depth, False)
            cases.append({"kind": "ty", "ty": t})
        for _ in range(60 * k):
            cases.append({"kind": "ty", "ty": ["poly", [tv.rand_param(rng) for _ in range(rng.randint(0, 2))],
                                               tv.rand_row(rng, 3, False), tv.rand_row(rng, 3, False)]})
        for _ in range(250 * k):
            cases.append({"kind": "static", "elem": rand_ty(rng, rng.choice([0, 1, 2, 3, 4]), rng.random() < 0.45)})
        # malformed / edge stream: index lists out of range (type_bound() raises IndexError), deep inside or at the top
        for _ in range(80 * k):
            d, args = tv.rand_def_and_args(rng, 3, False)
            n = len(args)
            d = {**d, "bound": ["P", [rng.randrange(n + 1) for _ in range(rng.randint(0, 2))] + [n + rng.randint(0, 2)] +
                            [rng.randrange(n + 1) for _ in range(rng.randint(0, 1))]]}
            t = ["ext", d, args]
            r = rng.random()
            if r < 0.3:
                t = ["tuple", [["usize"], t]]
            elif r < 0.5:
                t = ["list", t]
            elif r < 0.6:
                t = ["func", [t], [], []]
            cases.append({"kind": "ty", "ty": t})
        # histories: build, observe, change through public attributes (possibly on a copy), observe again
        for _ in range(400 * k):
            cases.append(rand_seq(rng))
        # TypeBound.join: exhaustive up to length 4, then random
        import itertools
        for n in range(5):
            for bs in itertools.product("CA", repeat=n):
                cases.append({"kind": "join", "bs": list(bs)})
        for _ in range(40 * k):
            cases.append({"kind": "join", "bs": [rng.choice("CCCA") for _ in range(rng.randint(5, 12))]})
        return cases

    # ------------------------------------------------------------------ implementation
    def observe(self, case, ctx):
        from hugr import tys
        k = case["kind"]

        def guard(f):
            try:
                return ["ok", f()]
            except Exception as e:
                return ["exc", type(e).__name__]
        if k == "join":
            return guard(lambda: tys.TypeBound.join(*[tv._bound(b) for b in case["bs"]]).value)
        from hugr.std.collections.static_array import StaticArray

        def obs_ty(t):
            ob = guard(lambda: t.type_bound().value)
            oopq = guard(lambda: t._to_opaque().bound.value) if isinstance(t, tys.ExtType) else None
            oser = guard(lambda: serial_bounds(t._to_serial().model_dump(mode="json")))
            return {"bound": ob, "opaque": oopq, "serial": oser}
        if k == "static":
            elem = build_ty(case["elem"])
            return guard(lambda: StaticArray(elem).type_bound().value)
        if k == "seq":
            return run_seq(case, lambda o, static: [obs_ty(o)] + (
                [guard(lambda: StaticArray(o).type_bound().value)] if static else []))
        return obs_ty(build_ty(case["ty"]))

    def literal(self, case, obs, ctx):
        k = case["kind"]
        gob = lambda o: gopt(B[o[1]] if o[0] == "ok" else None)
        def lit_static(ctor, g, o):
            acc = "(Some true)" if o[0] == "ok" else ("(Some false)" if o == ["exc", "ValueError"] else "None")
            return gapp(ctor, g, acc, gob(o))

        def lit_ty(ctor, g, o):
            oopq = "None" if o["opaque"] is None else gapp("Some", gob(o["opaque"]))
            oser = gopt(glist(B[b] for b in o["serial"][1]) if o["serial"][0] == "ok" else None)
            return gapp(ctor, g, gob(o["bound"]), oopq, oser)
        if k == "join":
            return gapp("CJoin", glist(B[b] for b in case["bs"]), gob(obs))
        if k == "static":
            return lit_static("CStatic", gty(build_ty(case["elem"])), obs)
        if k == "seq":
            # the same history replayed without observing: the types are printed from the objects at each moment
            gs = run_seq(case, lambda o, static: [("ty", gty(o))] + ([("static", gty(o))] if static else []))
            if len(gs) != len(obs):
                raise AssertionError("history replay and observations disagree in length")
            return gapp("CSeq", glist(lit_ty("STy", g, o) if tag == "ty" else lit_static("SStatic", g, o)
                                      for (tag, g), o in zip(gs, obs)))
        return lit_ty("CTy", gty(build_ty(case["ty"])), obs)

    def nontrivial(self, case, obs):
        if case["kind"] == "ty":
            return tv.depth_of(case["ty"]) >= 1
        if case["kind"] in ("static", "seq"):
            return True
        return len(case["bs"]) >= 2

    def describe(self, case, obs):
        return {"input": case, "observed": obs}

    def signature(self, case, obs, ctx):
        k = case["kind"]
        if k == "ty":
            top = case["ty"][0]
            res = obs["bound"][1] if obs["bound"][0] == "ok" else "raises"
            return f"bound:{top}:{res}"
        if k == "static":
            return "static_array:" + ("accepted" if obs[0] == "ok" else obs[1])
        if k == "seq":
            return "history:%s:%s" % (case["ty"][0], "+".join(st["op"] for st in case["steps"]))
        return "join"

    def shrink(self, case):
        k = case["kind"]
        if k == "ty":
            for s in tv.shrink_ty(case["ty"]):
                yield {"kind": "ty", "ty": s}
        elif k == "static":
            for s in tv.shrink_ty(case["elem"]):
                yield {"kind": "static", "elem": s}
        elif k == "seq":
            for c in shrink_seq(case):
                if seq_valid(c):
                    yield c
        else:
            bs = case["bs"]
            for i in range(len(bs)):
                yield {"kind": "join", "bs": bs[:i] + bs[i + 1:]}

    def neighbours(self, case, rng):
        out = []
        if case["kind"] == "seq":
            for i in range(len(case["steps"])):
                out.append({**case, "steps": case["steps"][:i + 1]})
                out.append({**case, "copy": None, "static": False, "steps": case["steps"][i:i + 1]})
            out = [c for c in out if seq_valid(c)]
            for _ in range(300):
                out.append(rand_seq(rng))
        elif case["kind"] in ("ty", "static"):
            t = case.get("ty", case.get("elem"))
            todo = [t]
            while todo and len(out) < 300:
                x = todo.pop()
                out.append({"kind": "ty", "ty": x})
                if x[0] != "sarray":
                    out.append({"kind": "static", "elem": x})
                todo += tv.child_types(x)
            for _ in range(600):
                out.append({"kind": "ty", "ty": rand_ty(rng, rng.choice([1, 2, 3]), False)})
            for _ in range(200):
                out.append({"kind": "static", "elem": rand_ty(rng, rng.choice([0, 1, 2]), False)})
        else:
            for _ in range(200):
                out.append({"kind": "join", "bs": [rng.choice("CA") for _ in range(rng.randint(0, 6))]})
        return out

    def distribution(self, cases, observations):
        d = {"kinds": {}, "depth": {}, "constructors": {}, "bounds": {}, "raises": 0, "static": {},
             "history_ops": {}, "history_copy": {}, "history_root": {}, "history_bound_changed": 0}
        for c, o in zip(cases, observations):
            k = c["kind"]
            d["kinds"][k] = d["kinds"].get(k, 0) + 1
            if k == "ty":
                dp = str(tv.depth_of(c["ty"]))
                d["depth"][dp] = d["depth"].get(dp, 0) + 1
                for kk, n in tv.kinds_of(c["ty"]).items():
                    d["constructors"][kk] = d["constructors"].get(kk, 0) + n
                if o["bound"][0] == "ok":
                    d["bounds"][o["bound"][1]] = d["bounds"].get(o["bound"][1], 0) + 1
                else:
                    d["raises"] += 1
            elif k == "static":
                key = "accepted" if o[0] == "ok" else o[1]
                d["static"][key] = d["static"].get(key, 0) + 1
            elif k == "seq":
                for st in c["steps"]:
                    d["history_ops"][st["op"]] = d["history_ops"].get(st["op"], 0) + 1
                d["history_copy"][str(c.get("copy"))] = d["history_copy"].get(str(c.get("copy")), 0) + 1
                d["history_root"][c["ty"][0]] = d["history_root"].get(c["ty"][0], 0) + 1
                bs = [x["bound"] for x in o if isinstance(x, dict)]
                d["history_bound_changed"] += int(any(b != bs[0] for b in bs))
        return d


def serial_bounds(doc):
    """Bounds of the serial Opaque records of a dumped type, in document (pre-)order."""
    out = []

    def walk(x):
        if isinstance(x, dict):
            if x.get("t") == "Opaque":
                if set(x) != {"t", "extension", "id", "args", "bound"}:
                    raise AssertionError(f"unexpected serial Opaque fields {sorted(x)}")
                out.append(x["bound"])
                walk(x["args"])
            else:
                for v in x.values():
                    walk(v)
        elif isinstance(x, list):
            for v in x:
                walk(v)
    walk(doc)
    return out


PROP = C07()
