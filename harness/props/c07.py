"""C07 — a type is reported copyable only if all of its constituents are
(model: coq/model/Types.v, spec: coq/spec/TypesS.v, proofs: coq/proofs/TypesP.v)."""
import json
import os

import fw
from fw import glist, gopt, gapp, gbool
import tyval_c07c14 as tv
from tyval_c07c14 import gty, gbound, build_ty, rand_ty

STD = [("array", "collections/array.json", "collections.array", "array"),
       ("list", "collections/list.json", "collections.list", "List"),
       ("static_array", "collections/static_array.json", "collections.static_array", "static_array")]
LOCATIONS = [("py", "hugr-py/src/hugr/std/_json_defs"), ("spec", "specification/std_extensions")]


def _jparam(p):
    tp = p.get("tp")
    if tp == "Type" and set(p) == {"tp", "b"} and p["b"] in ("C", "A"):
        return gapp("PType", gbound(p["b"]))
    if tp == "BoundedNat" and set(p) == {"tp", "bound"} and (p["bound"] is None or isinstance(p["bound"], int)):
        return gapp("PNat", gopt(None if p["bound"] is None else fw.gN(p["bound"])))
    if tp == "String" and set(p) == {"tp"}:
        return "PString"
    if tp == "List" and set(p) == {"tp", "param"}:
        return gapp("PList", _jparam(p["param"]))
    if tp == "Tuple" and set(p) == {"tp", "params"}:
        return gapp("PTuple", glist(_jparam(x) for x in p["params"]))
    if tp == "Extensions" and set(p) == {"tp"}:
        return "PExts"
    raise ValueError(f"unexpected type parameter in a std definition: {p!r}")


def _jbound(b):
    if b.get("b") == "Explicit" and set(b) == {"b", "bound"} and b["bound"] in ("C", "A"):
        return gapp("Explicit", gbound(b["bound"]))
    if b.get("b") == "FromParams" and set(b) == {"b", "indices"} and all(
            isinstance(i, int) and not isinstance(i, bool) and i >= 0 for i in b["indices"]):
        return gapp("FromParams", glist(fw.gnat(i) for i in b["indices"]))
    raise ValueError(f"unexpected bound in a std definition: {b!r}")


def translate_std_bounds() -> str:
    """coq/gen/StdBounds.v from the JSON definition files in both locations (fail closed)."""
    out = ["(* GENERATED on every run by harness/props/c07.py from the std extension JSON files of",
           "   hugr-py/src/hugr/std/_json_defs and specification/std_extensions.  Do not edit. *)",
           "From Coq Require Import NArith List.", "Import ListNotations.", "From HV Require Import model.Types.", ""]
    for loc, base in LOCATIONS:
        for key, rel, extname, tname in STD:
            path = os.path.join(fw.REPO, base, rel)
            doc = json.load(open(path))
            if doc.get("name") != extname:
                raise ValueError(f"{path}: extension name {doc.get('name')!r}, expected {extname!r}")
            td = doc["types"][tname]
            if not {"name", "params", "bound"} <= set(td) or td["name"] != tname:
                raise ValueError(f"{path}: unexpected type definition record {sorted(td)}")
            out.append(f"Definition std_{key}_bound_{loc} : defbound := {_jbound(td['bound'])}.")
            out.append(f"Definition std_{key}_params_{loc} : list typaram := {glist(_jparam(p) for p in td['params'])}.")
    return "\n".join(out) + "\n"


B = {"C": "Copyable", "A": "Any"}


class C07(fw.Prop):
    id = "C07"
    props_file = "props/C07.v"
    run_file = "run/C07Run.v"
    run_module = "run.C07Run"
    shard = 300
    rule = ("generated type expressions to nesting depth 5 (quick: mostly <=4): sums incl. empty sums and empty rows, "
            "Tuple/Option/Either sugar, unit sums, function and polymorphic function types over linear rows, variables, "
            "row variables, aliases and opaque types of both bounds, ExtType over generated TypeDefs with explicit / "
            "from-parameters bounds and arbitrary in-range index lists (repetitions, non-type arguments at the indices), "
            "std int/float/string, Array/List/StaticArray over generated elements; a malformed stream with index lists "
            "out of range; the StaticArray constructor on copyable and linear elements; TypeBound.join on all bound "
            "lists up to length 4 and random longer ones.  non-trivial = the type has a constituent (depth >= 1) or the "
            "case is a constructor/join case with >= 2 inputs")
    trusted = ["indices of a from-parameters bound are naturals (negative Python indices, which would wrap around, are "
               "outside the model and the generator)",
               "serialised bounds are read from `_to_serial().model_dump()` by a pre-order walk over dict entries "
               "tagged t=Opaque (pydantic's dump is trusted to reproduce the serial objects)",
               "gen/StdBounds.v is re-translated from the JSON definition files of both locations on every run; "
               "which argument position each std subclass reads (Array 1, List 0, StaticArray 0) is hand-modelled "
               "and tied by correspondence"]
    assumptions = ["type definitions are registered in an Extension (ExtType._to_opaque asserts it)",
                   "bound index lists contain naturals"]

    def regenerate(self, ctx):
        path = os.path.join(fw.COQ, "gen", "StdBounds.v")
        fw.write_if_changed(path, translate_std_bounds())
        return ["gen/StdBounds.v"]

    # ------------------------------------------------------------------ cases
    def corpus(self, ctx):
        lin = ["qubit"]
        d_p = lambda idx, n: {"ext": "e.one", "name": "T", "params": [["type", "A"]] * n, "bound": ["P", idx]}
        return [
            {"kind": "ty", "ty": ["sum", []]},
            {"kind": "ty", "ty": ["sum", [[], []]]},
            {"kind": "ty", "ty": ["tuple", [["bool"], lin]]},
            {"kind": "ty", "ty": ["tuple", [lin, ["bool"]]]},
            {"kind": "ty", "ty": ["option", [["usize"], ["alias", "lin", "A"]]]},
            {"kind": "ty", "ty": ["either", [["usize"]], [lin]]},
            {"kind": "ty", "ty": ["func", [lin], [lin], []]},
            {"kind": "ty", "ty": ["ext", d_p([1], 2), [["t", lin], ["t", ["usize"]]]]},
            {"kind": "ty", "ty": ["ext", d_p([1, 0], 2), [["t", lin], ["t", ["usize"]]]]},
            {"kind": "ty", "ty": ["ext", d_p([0, 1], 2), [["t", ["usize"]], ["t", lin]]]},
            {"kind": "ty", "ty": ["ext", d_p([], 1), [["t", lin]]]},
            {"kind": "ty", "ty": ["ext", {"ext": "e.one", "name": "T", "params": [["nat", None], ["type", "A"]],
                                          "bound": ["P", [0, 1, 0]]}, [["n", 3], ["t", lin]]]},
            {"kind": "ty", "ty": ["ext", d_p([2], 2), [["t", lin], ["t", ["usize"]]]]},      # index out of range
            {"kind": "ty", "ty": ["array", lin, 3]},
            {"kind": "ty", "ty": ["array", ["tuple", [["usize"], ["list", lin]]], 0]},
            {"kind": "ty", "ty": ["list", ["array", ["bool"], 2]]},
            {"kind": "ty", "ty": ["sarray", ["tuple", [["int", 5], ["float"]]]]},
            {"kind": "static", "elem": lin},
            {"kind": "static", "elem": ["usize"]},
            {"kind": "static", "elem": ["tuple", [["usize"], ["list", lin]]]},
            {"kind": "static", "elem": ["func", [lin], [lin], []]},
            {"kind": "join", "bs": []},
            {"kind": "join", "bs": ["C", "A", "C"]},
        ]

    def generate(self, rng, tier, ctx):
        k = 1 if tier == "quick" else 8
        cases = []
        for n in range(1100 * k):
            depth = rng.choice([1, 2, 2, 3, 3, 4, 4, 5])
            t = rand_ty(rng, depth, rng.random() < 0.2)
            if tv.depth_of(t) == 0 and rng.random() < 0.85:
                t = rand_ty(rng, depth, False)
            cases.append({"kind": "ty", "ty": t})
        for _ in range(60 * k):
            cases.append({"kind": "ty", "ty": ["poly", [tv.rand_param(rng) for _ in range(rng.randint(0, 2))],
                                               tv.rand_row(rng, 3, False), tv.rand_row(rng, 3, False)]})
        for _ in range(250 * k):
            cases.append({"kind": "static", "elem": rand_ty(rng, rng.choice([0, 1, 2, 3, 4]), rng.random() < 0.45)})
        # malformed / edge stream: index lists out of range (type_bound() raises IndexError), deep inside or at the top
        for _ in range(80 * k):
            d, args = tv.rand_def_and_args(rng, 3, False)
            n = len(args)
            d = {**d, "bound": ["P", [rng.randrange(n + 1) for _ in range(rng.randint(0, 2))] + [n + rng.randint(0, 2)] +
                            [rng.randrange(n + 1) for _ in range(rng.randint(0, 1))]]}
            t = ["ext", d, args]
            r = rng.random()
            if r < 0.3:
                t = ["tuple", [["usize"], t]]
            elif r < 0.5:
                t = ["list", t]
            elif r < 0.6:
                t = ["func", [t], [], []]
            cases.append({"kind": "ty", "ty": t})
        # TypeBound.join: exhaustive up to length 4, then random
        import itertools
        for n in range(5):
            for bs in itertools.product("CA", repeat=n):
                cases.append({"kind": "join", "bs": list(bs)})
        for _ in range(40 * k):
            cases.append({"kind": "join", "bs": [rng.choice("CCCA") for _ in range(rng.randint(5, 12))]})
        return cases

    # ------------------------------------------------------------------ implementation
    def observe(self, case, ctx):
        from hugr import tys
        k = case["kind"]

        def guard(f):
            try:
                return ["ok", f()]
            except Exception as e:
                return ["exc", type(e).__name__]
        if k == "join":
            return guard(lambda: tys.TypeBound.join(*[tv._bound(b) for b in case["bs"]]).value)
        if k == "static":
            from hugr.std.collections.static_array import StaticArray
            elem = build_ty(case["elem"])
            return guard(lambda: StaticArray(elem).type_bound().value)
        t = build_ty(case["ty"])
        ob = guard(lambda: t.type_bound().value)
        oopq = guard(lambda: t._to_opaque().bound.value) if isinstance(t, tys.ExtType) else None
        oser = guard(lambda: serial_bounds(t._to_serial().model_dump(mode="json")))
        return {"bound": ob, "opaque": oopq, "serial": oser}

    def literal(self, case, obs, ctx):
        k = case["kind"]
        gob = lambda o: gopt(B[o[1]] if o[0] == "ok" else None)
        if k == "join":
            return gapp("CJoin", glist(B[b] for b in case["bs"]), gob(obs))
        if k == "static":
            acc = "(Some true)" if obs[0] == "ok" else ("(Some false)" if obs == ["exc", "ValueError"] else "None")
            return gapp("CStatic", gty(build_ty(case["elem"])), acc, gob(obs))
        t = build_ty(case["ty"])
        oopq = "None" if obs["opaque"] is None else gapp("Some", gob(obs["opaque"]))
        oser = gopt(glist(B[b] for b in obs["serial"][1]) if obs["serial"][0] == "ok" else None)
        return gapp("CTy", gty(t), gob(obs["bound"]), oopq, oser)

    def nontrivial(self, case, obs):
        if case["kind"] == "ty":
            return tv.depth_of(case["ty"]) >= 1
        if case["kind"] == "static":
            return True
        return len(case["bs"]) >= 2

    def describe(self, case, obs):
        return {"input": case, "observed": obs}

    def signature(self, case, obs, ctx):
        k = case["kind"]
        if k == "ty":
            top = case["ty"][0]
            res = obs["bound"][1] if obs["bound"][0] == "ok" else "raises"
            return f"bound:{top}:{res}"
        if k == "static":
            return "static_array:" + ("accepted" if obs[0] == "ok" else obs[1])
        return "join"

    def shrink(self, case):
        k = case["kind"]
        if k == "ty":
            for s in tv.shrink_ty(case["ty"]):
                yield {"kind": "ty", "ty": s}
        elif k == "static":
            for s in tv.shrink_ty(case["elem"]):
                yield {"kind": "static", "elem": s}
        else:
            bs = case["bs"]
            for i in range(len(bs)):
                yield {"kind": "join", "bs": bs[:i] + bs[i + 1:]}

    def neighbours(self, case, rng):
        out = []
        if case["kind"] in ("ty", "static"):
            t = case.get("ty", case.get("elem"))
            todo = [t]
            while todo and len(out) < 300:
                x = todo.pop()
                out.append({"kind": "ty", "ty": x})
                if x[0] != "sarray":
                    out.append({"kind": "static", "elem": x})
                todo += tv.child_types(x)
            for _ in range(600):
                out.append({"kind": "ty", "ty": rand_ty(rng, rng.choice([1, 2, 3]), False)})
            for _ in range(200):
                out.append({"kind": "static", "elem": rand_ty(rng, rng.choice([0, 1, 2]), False)})
        else:
            for _ in range(200):
                out.append({"kind": "join", "bs": [rng.choice("CA") for _ in range(rng.randint(0, 6))]})
        return out

    def distribution(self, cases, observations):
        d = {"kinds": {}, "depth": {}, "constructors": {}, "bounds": {}, "raises": 0, "static": {}}
        for c, o in zip(cases, observations):
            k = c["kind"]
            d["kinds"][k] = d["kinds"].get(k, 0) + 1
            if k == "ty":
                dp = str(tv.depth_of(c["ty"]))
                d["depth"][dp] = d["depth"].get(dp, 0) + 1
                for kk, n in tv.kinds_of(c["ty"]).items():
                    d["constructors"][kk] = d["constructors"].get(kk, 0) + n
                if o["bound"][0] == "ok":
                    d["bounds"][o["bound"][1]] = d["bounds"].get(o["bound"][1], 0) + 1
                else:
                    d["raises"] += 1
            elif k == "static":
                key = "accepted" if o[0] == "ok" else o[1]
                d["static"][key] = d["static"].get(key, 0) + 1
        return d


def serial_bounds(doc):
    """Bounds of the serial Opaque records of a dumped type, in document (pre-)order."""
    out = []

    def walk(x):
        if isinstance(x, dict):
            if x.get("t") == "Opaque":
                if set(x) != {"t", "extension", "id", "args", "bound"}:
                    raise AssertionError(f"unexpected serial Opaque fields {sorted(x)}")
                out.append(x["bound"])
                walk(x["args"])
            else:
                for v in x.values():
                    walk(v)
        elif isinstance(x, list):
            for v in x:
                walk(v)
    walk(doc)
    return out


PROP = C07()
