"""C07 — a type is reported copyable only if all of its constituents are
(model: coq/model/Types.v, spec: coq/spec/TypesS.v, proofs: coq/proofs/TypesP.v)."""
import json
import os

import fw
from fw import glist, gopt, gapp, gbool
import tyval_c07c14 as tv
from tyval_c07c14 import gty, gbound, build_ty, rand_ty

STD = [("array", "collections/array.json", "collections.array", "array"),
       ("list", "collections/list.json", "collections.list", "List"),
       ("static_array", "collections/static_array.json", "collections.static_array", "static_array")]
LOCATIONS = [("py", "hugr-py/src/hugr/std/_json_defs"), ("spec", "specification/std_extensions")]


def _jparam(p):
    tp = p.get("tp")
    if tp == "Type" and set(p) == {"tp", "b"} and p["b"] in ("C", "A"):
        return gapp("PType", gbound(p["b"]))
    if tp == "BoundedNat" and set(p) == {"tp", "bound"} and (p["bound"] is None or isinstance(p["bound"], int)):
        return gapp("PNat", gopt(None if p["bound"] is None else fw.gN(p["bound"])))
    if tp == "String" and set(p) == {"tp"}:
        return "PString"
    if tp == "List" and set(p) == {"tp", "param"}:
        return gapp("PList", _jparam(p["param"]))
    if tp == "Tuple" and set(p) == {"tp", "params"}:
        return gapp("PTuple", glist(_jparam(x) for x in p["params"]))
    if tp == "Extensions" and set(p) == {"tp"}:
        return "PExts"
    raise ValueError(f"unexpected type parameter in a std definition: {p!r}")


def _jbound(b):
    if b.get("b") == "Explicit" and set(b) == {"b", "bound"} and b["bound"] in ("C", "A"):
        return gapp("Explicit", gbound(b["bound"]))
    if b.get("b") == "FromParams" and set(b) == {"b", "indices"} and all(
            isinstance(i, int) and not isinstance(i, bool) and i >= 0 for i in b["indices"]):
        return gapp("FromParams", glist(fw.gnat(i) for i in b["indices"]))
    raise ValueError(f"unexpected bound in a std definition: {b!r}")


def translate_std_bounds() -> str:
    """coq/gen/StdBounds.v from the JSON definition files in both locations (fail closed)."""
    out = ["(* GENERATED on every run by harness/props/c07.py from the std extension JSON files of",
           "   hugr-py/src/hugr/std/_json_defs and specification/std_extensions.  Do not edit. *)",
           "From Coq Require Import NArith List.", "Import ListNotations.", "From HV Require Import model.Types.", ""]
    for loc, base in LOCATIONS:
        for key, rel, extname, tname in STD:
            path = os.path.join(fw.REPO, base, rel)
            doc = json.load(open(path))
            if doc.get("name") != extname:
                raise ValueError(f"{path}: extension name {doc.get('name')!r}, expected {extname!r}")
            td = doc["types"][tname]
            if not {"name", "params", "bound"} <= set(td) or td["name"] != tname:
                raise ValueError(f"{path}: unexpected type definition record {sorted(td)}")
            out.append(f"Definition std_{key}_bound_{loc} : defbound := {_jbound(td['bound'])}.")
            out.append(f"Definition std_{key}_params_{loc} : list typaram := {glist(_jparam(p) for p in td['params'])}.")
    return "\n".join(out) + "\n"


# ------------------------------------------------------------------ histories of one object graph (kind "seq")
# case ::= {"kind": "seq", "ty": ty, "copy": None | "copy" | "deepcopy", "static": bool, "steps": [step..]}
# step ::= {"op": "set", "path": [slot..] (non-empty), "mode": "slot" | "attr", "new": ty}
#        | {"op": "append", "path": [slot..], "row": r, "new": ty}
#        | {"op": "def", "path": [slot..], "bound": ["E", b] | ["P", [i..]]}       (node is a generic "ext")
#        | {"op": "obound", "path": [slot..], "b": b}                              (node is an "opaque")
# A path is a list of indices into _slots(node), from the root.  Only objects that build_ty makes afresh are
# changed (never the shared atoms tys.Bool / tys.Qubit / FLOAT_T ..., never a TypeDef, which build_def shares).
_MUT = ("sum", "tuple", "option", "either", "func", "opaque", "ext", "array", "list", "sarray")


def _slots(t):
    """Type-valued child positions of a description: (index path inside the description, accessor on the object)."""
    k = t[0]
    if k == "sum":
        return [((1, i, j), ("rows", i, j)) for i, r in enumerate(t[1]) for j in range(len(r))]
    if k == "tuple":
        return [((1, j), ("rows", 0, j)) for j in range(len(t[1]))]
    if k == "option":
        return [((1, j), ("rows", 1, j)) for j in range(len(t[1]))]
    if k == "either":
        return [((1 + i, j), ("rows", i, j)) for i in (0, 1) for j in range(len(t[1 + i]))]
    if k == "func":
        return ([((1, j), ("in", j)) for j in range(len(t[1]))] + [((2, j), ("out", j)) for j in range(len(t[2]))])
    if k == "ext":
        return [((2, i, 1), ("args", i)) for i, a in enumerate(t[2]) if a[0] == "t"]
    if k == "opaque":
        return [((3, i, 1), ("args", i)) for i, a in enumerate(t[3]) if a[0] == "t"]
    if k == "array":
        return [((1,), ("args", 1))]
    if k in ("list", "sarray"):
        return [((1,), ("args", 0))]
    return []


def _rows(t):
    """Rows of a description one can append to: (index path of the row in the description, accessor)."""
    k = t[0]
    if k == "sum":
        return [((1, i), ("rows", i)) for i in range(len(t[1]))]
    if k == "tuple":
        return [((1,), ("rows", 0))]
    if k == "option":
        return [((1,), ("rows", 1))]
    if k == "either":
        return [((1,), ("rows", 0)), ((2,), ("rows", 1))]
    if k == "func":
        return [((1,), ("in",)), ((2,), ("out",))]
    return []


def _dget(t, pos):
    for p in pos:
        t = t[p]
    return t


def _dset(t, pos, v):
    if not pos:
        return v
    c = list(t)
    c[pos[0]] = _dset(t[pos[0]], pos[1:], v)
    return c


def _oget(o, acc):
    if acc[0] == "rows":
        return o.variant_rows[acc[1]][acc[2]]
    if acc[0] == "in":
        return o.input[acc[1]]
    if acc[0] == "out":
        return o.output[acc[1]]
    return o.args[acc[1]].ty


def _oset(o, acc, new, mode):
    from hugr import tys
    if acc[0] == "rows":
        if mode == "attr":
            rows = [list(r) for r in o.variant_rows]
            rows[acc[1]][acc[2]] = new
            o.variant_rows = rows
        else:
            o.variant_rows[acc[1]][acc[2]] = new
    elif acc[0] == "in":
        o.input[acc[1]] = new                    # FunctionType is frozen, its rows are plain lists
    elif acc[0] == "out":
        o.output[acc[1]] = new
    elif mode == "attr":
        a = list(o.args)
        a[acc[1]] = tys.TypeTypeArg(new)
        o.args = a
    else:
        o.args[acc[1]] = tys.TypeTypeArg(new)


def _inner(st):
    return st["path"][:-1] if st["op"] == "set" else st["path"]


def step_desc(t, st):
    """The description after the step (IndexError / ValueError / KeyError when the step does not fit)."""
    pos, node = (), t
    for s in _inner(st):
        p, _ = _slots(node)[s]
        pos, node = pos + p, _dget(node, p)
    if node[0] not in _MUT:
        raise ValueError("not a freshly built node")
    op = st["op"]
    if op == "set":
        p, _ = _slots(node)[st["path"][-1]]
        return _dset(t, pos + p, st["new"])
    if op == "append":
        p, _ = _rows(node)[st["row"]]
        return _dset(t, pos + p, list(_dget(node, p)) + [st["new"]])
    if op == "def":
        if node[0] != "ext":
            raise ValueError("def on a non-ext node")
        return _dset(t, pos + (1,), {**node[1], "bound": st["bound"]})
    if op == "obound":
        if node[0] != "opaque":
            raise ValueError("obound on a non-opaque node")
        return _dset(t, pos + (4,), st["b"])
    raise ValueError(op)


def step_obj(t, o, st):
    """Apply the step to the object graph `o` built from description `t`, through public attributes only."""
    node, on = t, o
    for s in _inner(st):
        p, acc = _slots(node)[s]
        node, on = _dget(node, p), _oget(on, acc)
    op = st["op"]
    if op == "set":
        _, acc = _slots(node)[st["path"][-1]]
        _oset(on, acc, build_ty(st["new"]), st["mode"])
    elif op == "append":
        _, acc = _rows(node)[st["row"]]
        lst = on.variant_rows[acc[1]] if acc[0] == "rows" else (on.input if acc[0] == "in" else on.output)
        lst.append(build_ty(st["new"]))
    elif op == "def":
        on.type_def = tv.build_def({**node[1], "bound": st["bound"]})
    elif op == "obound":
        on.bound = tv._bound(st["b"])
    else:
        raise ValueError(op)


def _nodes(t, path=(), under=False):
    """(path, node, inside a static array?) of every node reachable through _slots."""
    yield list(path), t, under
    for s, (p, _) in enumerate(_slots(t)):
        yield from _nodes(_dget(t, p), path + (s,), under or t[0] == "sarray")


def _sarray_ok(t):
    """No static array holds a linear element: in-place changes bypass StaticArray.__init__, which is the only
    place the property's 'containers that require copyable elements reject linear ones' is enforced, so the
    generator / shrinker never produce such a state (it would not be a violation of the property)."""
    try:
        return all(tv.desc_copyable(n[1]) for _, n, _ in _nodes(t) if n[0] == "sarray")
    except (IndexError, KeyError):
        return False


def seq_valid(case):
    try:
        t = case["ty"]
        if t[0] not in _MUT or not case["steps"] or not _sarray_ok(t):
            return False
        build_ty(t)
        for st in case["steps"]:
            t = step_desc(t, st)
            if not _sarray_ok(t):
                return False
        return True
    except Exception:
        return False


def run_seq(case, visit):
    """Build the root, visit; per step: change the object graph, visit every tracked object again.
    visit(obj, static) -> list of records; returns the concatenation."""
    import copy
    t = case["ty"]
    root = build_ty(t)
    static = bool(case.get("static"))
    out = list(visit(root, static))
    cur, tracked = root, [root]
    if case.get("copy"):
        cur = copy.copy(root) if case["copy"] == "copy" else copy.deepcopy(root)
        tracked = [cur, root]
    for st in case["steps"]:
        step_obj(t, cur, st)
        t = step_desc(t, st)
        for o in tracked:
            out += visit(o, static and o is cur)
    return out


def rand_new(rng, copy_only):
    if copy_only:
        return rand_ty(rng, rng.choice([0, 0, 1]), True)
    r = rng.random()
    if r < 0.4:
        return ["qubit"]
    if r < 0.55:
        return rng.choice([["usize"], ["bool"]])
    return rand_ty(rng, rng.choice([0, 1, 2]), False)


def rand_step(rng, t):
    sets, apps, defs, obs = [], [], [], []
    for path, n, under in _nodes(t):
        if n[0] not in _MUT:
            continue
        co = under or n[0] == "sarray"
        sets += [(path + [s], co) for s in range(len(_slots(n)))]
        apps += [(path, r, co) for r in range(len(_rows(n)))]
        if n[0] == "ext" and not under:
            defs.append((path, n))
        if n[0] == "opaque" and not under:
            obs.append((path, n))
    r = rng.random()
    order = (["set", "append", "def", "obound"] if r < 0.62 else ["append", "set", "def", "obound"] if r < 0.72 else
             ["def", "set", "append", "obound"] if r < 0.9 else ["obound", "set", "def", "append"])
    for op in order:
        if op == "set" and sets:
            path, co = rng.choice(sets)
            return {"op": "set", "path": path, "mode": rng.choice(["slot", "slot", "attr"]), "new": rand_new(rng, co)}
        if op == "append" and apps:
            path, row, co = rng.choice(apps)
            return {"op": "append", "path": path, "row": row, "new": rand_new(rng, co)}
        if op == "def" and defs:
            path, n = rng.choice(defs)
            na = len(n[2])
            if na == 0 or rng.random() < 0.35:
                b = ["E", tv.rand_bound(rng)]
            else:
                b = ["P", [rng.randrange(na) for _ in range(rng.choice([0, 1, 1, 2, 3]))]]
            return {"op": "def", "path": path, "bound": b}
        if op == "obound" and obs:
            path, n = rng.choice(obs)
            return {"op": "obound", "path": path, "b": "A" if n[4] == "C" else "C"}
    return None


def rand_seq(rng):
    for _ in range(50):
        d = rng.choice([1, 1, 2, 2, 3])
        r = rng.random()
        if r < 0.3:
            dd, args = tv.rand_def_and_args(rng, d, False)
            t = ["ext", dd, args]
        elif r < 0.38:
            t = ["list", rand_ty(rng, d - 1, False)]
        elif r < 0.46:
            t = ["array", rand_ty(rng, d - 1, False), rng.choice([0, 1, 2, 5])]
        else:
            t = rand_ty(rng, d, rng.random() < 0.15)
        if t[0] not in _MUT:
            continue
        t0, steps = t, []
        for _ in range(rng.choice([1, 1, 1, 2, 2, 3])):
            st = rand_step(rng, t)
            if st is None:
                break
            t2 = step_desc(t, st)
            if not _sarray_ok(t2):
                continue
            steps.append(st)
            t = t2
        if steps:
            return {"kind": "seq", "ty": t0, "copy": rng.choice([None, None, None, "copy", "copy", "deepcopy"]),
                    "static": rng.random() < 0.3, "steps": steps}
    raise RuntimeError("no history generated")


def shrink_seq(case):
    steps = case["steps"]
    if case.get("copy"):
        yield {**case, "copy": None}
    if case.get("static"):
        yield {**case, "static": False}
    for i in range(len(steps)):
        if len(steps) > 1:
            yield {**case, "steps": steps[:i] + steps[i + 1:]}
    # the subtree all steps work in, as the root
    first = {_inner(st)[0] if _inner(st) else None for st in steps}
    if len(first) == 1 and None not in first:
        s = first.pop()
        p, _ = _slots(case["ty"])[s]
        yield {**case, "ty": _dget(case["ty"], p), "steps": [{**st, "path": st["path"][1:]} for st in steps]}
    for i, st in enumerate(steps):
        rep = lambda x: {**case, "steps": steps[:i] + [x] + steps[i + 1:]}
        if st.get("mode") == "attr":
            yield rep({**st, "mode": "slot"})
        if "new" in st:
            for a in (["qubit"], ["usize"]):
                if st["new"] != a:
                    yield rep({**st, "new": a})
            for x in list(tv.shrink_ty(st["new"]))[:40]:
                yield rep({**st, "new": x})
        if st["op"] == "def" and st["bound"][0] == "P":
            for j in range(len(st["bound"][1])):
                yield rep({**st, "bound": ["P", st["bound"][1][:j] + st["bound"][1][j + 1:]]})
    for x in list(tv.shrink_ty(case["ty"]))[:200]:
        yield {**case, "ty": x}


# ------------------------------------------------------------------ chains of "same type" operations (kind "same")
# case ::= {"kind": "same", "ty": ty, "reg": [{"name": ext, "types": [def..]}..], "ops": [op..], "mode": str}
# op   ::= ["resolve", "type" | "arg" | "seq"] | ["copy"] | ["deepcopy"] | ["replace"] | ["roundtrip"]
# The type is built and observed; each op is applied to the object the previous one returned and the returned
# object is printed (gty) and observed.  The registry is built through the public ext API
# (Extension.add_type_def, ExtensionRegistry.add_extension) and printed from the built objects.
SAME_OPS = {"resolve": "OResolve", "copy": "OCopy", "deepcopy": "ODeepcopy", "replace": "OReplace",
            "roundtrip": "ORoundtrip"}
OTHER_EXTS = ["x.other", "vendor.resources", "prelude"]
OTHER_NAMES = ["Zed", "handle", "Q"]


def build_reg(reg):
    import semver
    from hugr import ext
    r = ext.ExtensionRegistry()
    for e in reg:
        x = ext.Extension(e["name"], semver.Version(0, 1, 0))
        for d in e["types"]:
            b = d["bound"]
            bound = ext.ExplicitBound(tv._bound(b[1])) if b[0] == "E" else ext.FromParamsBound(list(b[1]))
            x.add_type_def(ext.TypeDef(name=d["name"], description="generated",
                                       params=[tv.build_param(q) for q in d["params"]], bound=bound))
        r.add_extension(x)
    return r


def greg(r) -> str:
    """The registry as association lists, read from the dicts of the built objects."""
    return glist(fw.gpair(tv.gname(name), glist(fw.gpair(tv.gname(tn), tv.gdef(td)) for tn, td in x.types.items()))
                 for name, x in r.extensions.items())


_REPLACEABLE = ("Opaque", "ExtType", "FunctionType", "PolyFuncType", "Variable", "RowVariable", "Alias", "Sum", "USize")


def apply_same(op, o, reg):
    import copy
    import dataclasses
    from hugr import tys
    k = op[0]
    if k == "resolve":
        if op[1] == "type":
            return o.resolve(reg)
        if op[1] == "arg":
            return tys.TypeTypeArg(o).resolve(reg).ty
        return tys.SequenceArg([tys.StringArg("x"), tys.TypeTypeArg(o)]).resolve(reg).elems[1].ty
    if k == "copy":
        return copy.copy(o)
    if k == "deepcopy":
        return copy.deepcopy(o)
    if k == "replace":
        # dataclasses.replace re-runs __init__ with the fields: only for the classes whose __init__ is the
        # generated one (Tuple / UnitSum / the std subclasses take other arguments); a plain copy otherwise
        return dataclasses.replace(o) if type(o).__name__ in _REPLACEABLE else copy.copy(o)
    if k == "roundtrip":
        return o._to_serial().deserialize()
    raise ValueError(op)


def run_same(case, visit):
    """[visit(root)] + one entry per op: ["ok", visit(returned object)] or ["exc", class name] (the chain ends there)."""
    reg = build_reg(case["reg"])
    o = build_ty(case["ty"])
    out = [visit(o, reg)]
    for op in case["ops"]:
        try:
            o = apply_same(op, o, reg)
        except Exception as e:
            out.append(["exc", type(e).__name__])
            break
        out.append(["ok", visit(o, reg)])
    return out


def opaques_of(t, acc=None):
    """(extension, id, number of arguments) of every opaque type anywhere in a description."""
    acc = [] if acc is None else acc
    if t[0] == "opaque":
        acc.append((t[1], t[2], len(t[3])))
    for c in tv.child_types(t):
        opaques_of(c, acc)
    return acc


def rand_core(rng, depth):
    """An opaque type, mostly declared Any, possibly with arguments that hold opaque types themselves."""
    args = []
    for _ in range(rng.choice([0, 0, 0, 1, 1, 2])):
        r = rng.random()
        if depth > 0 and r < 0.4:
            args.append(["t", rand_core(rng, depth - 1)])
        elif depth > 0 and r < 0.55:
            args.append(["seq", [["t", rand_core(rng, depth - 1)]]])
        else:
            args.append(tv.rand_arg(rng, 1, False))
    return ["opaque", rng.choice(tv.EXTS + OTHER_EXTS[:2]), rng.choice(tv.NAMES + OTHER_NAMES[:2]), args,
            "A" if rng.random() < 0.65 else "C"]


def rand_wrap(rng, t, top):
    """t one level deeper: inside a row of a sum / function type, or a type argument."""
    sib = lambda: [rand_ty(rng, rng.choice([0, 0, 1]), False) for _ in range(rng.choice([0, 0, 1, 2]))]
    r = rng.random()
    if r < 0.16:
        return ["tuple", sib() + [t] + sib()]
    if r < 0.28:
        rows = [sib() for _ in range(rng.choice([0, 1, 2]))]
        rows.insert(rng.randint(0, len(rows)), sib() + [t])
        return ["sum", rows]
    if r < 0.36:
        return ["option", [t] + sib()]
    if r < 0.44:
        return ["either", sib(), [t] + sib()] if rng.random() < 0.5 else ["either", [t], sib()]
    if r < 0.56:
        return ["func", sib() + [t], sib(), []] if rng.random() < 0.5 else ["func", sib(), [t] + sib(), ["e.one"]]
    if r < 0.62 and top:
        return ["poly", [tv.rand_param(rng) for _ in range(rng.randint(0, 2))], [t] + sib(), sib()]
    if r < 0.74:
        arg = ["t", t] if rng.random() < 0.6 else ["seq", [["n", 3], ["t", t]]]
        return ["opaque", rng.choice(tv.EXTS), rng.choice(tv.NAMES), [["n", 1]] * rng.choice([0, 1]) + [arg], tv.rand_bound(rng)]
    if r < 0.84:
        d = {"ext": rng.choice(tv.EXTS), "name": rng.choice(tv.NAMES), "params": [["type", "A"]],
             "bound": rng.choice([["P", [0]], ["P", [0]], ["P", []], ["E", "C"], ["E", "A"]])}
        return ["ext", d, [["t", t]]]
    if r < 0.92:
        return ["list", t]
    return ["array", t, rng.choice([0, 2])]


def rand_reg(rng, t):
    ops_ = opaques_of(t)
    used_exts = sorted({e for e, _, _ in ops_})
    mk = lambda name, n: {"name": name, "params": [["type", "A"]] * n,
                          "bound": (["E", tv.rand_bound(rng)] if n == 0 or rng.random() < 0.5
                                    else ["P", [rng.randrange(n) for _ in range(rng.choice([0, 1, 1, 2]))]])}
    free_exts = [e for e in tv.EXTS + OTHER_EXTS if e not in used_exts]
    r = rng.random()
    mode = "empty" if r < 0.15 else "other-extensions" if r < 0.35 else "extension-without-type" if r < 0.65 else "partial"
    reg = {}
    if mode != "empty":
        for e in rng.sample(free_exts, min(len(free_exts), rng.choice([0, 1, 2]))):
            reg[e] = [mk(n, rng.choice([0, 1])) for n in rng.sample(tv.NAMES + OTHER_NAMES, rng.choice([0, 1, 2]))]
    if mode in ("extension-without-type", "partial"):
        for e in used_exts:
            if rng.random() < 0.75:
                free = [n for n in tv.NAMES + OTHER_NAMES if all((e, n) != (a, b) for a, b, _ in ops_)]
                reg[e] = [mk(n, rng.choice([0, 1])) for n in rng.sample(free, min(len(free), rng.choice([0, 1, 2])))]
    if mode == "partial":
        seen = set()
        for e, n, k in ops_:
            if (e, n) not in seen and rng.random() < 0.5:
                seen.add((e, n))
                ks = [c for a, b, c in ops_ if (a, b) == (e, n)]
                reg.setdefault(e, []).append(mk(n, min(ks) if rng.random() < 0.85 else max(ks)))
    names = list(reg)
    rng.shuffle(names)
    return [{"name": e, "types": reg[e]} for e in names], mode


def rand_chain_ops(rng):
    def one(first):
        r = rng.random()
        if r < (0.6 if first else 0.45):
            return ["resolve", rng.choice(["type", "type", "type", "arg", "seq"])]
        if r < 0.8:
            return ["roundtrip"]
        return [rng.choice(["copy", "deepcopy", "replace"])]
    return [one(i == 0) for i in range(rng.choice([1, 1, 1, 2, 2, 3]))]


def rand_same(rng):
    r = rng.random()
    if r < 0.04:
        # ill-formed index list: writing the type raises, every other operation still hands it back unchanged
        d, args = tv.rand_def_and_args(rng, 2, False)
        t = ["ext", {**d, "bound": ["P", [len(args) + rng.randint(0, 1)]]}, args]
        if rng.random() < 0.5:
            t = rand_wrap(rng, t, False)
    elif r < 0.2:
        t = rand_ty(rng, rng.choice([1, 2, 3]), False)
    else:
        t = rand_core(rng, rng.choice([0, 1, 1, 2]))
        for i in range(rng.choice([0, 1, 1, 2, 2, 3])):
            t = rand_wrap(rng, t, False)
        if rng.random() < 0.06:
            t = rand_wrap(rng, t, True)
    reg, mode = rand_reg(rng, t)
    ops = rand_chain_ops(rng)
    if t[0] == "poly":
        ops = [o for o in ops if o != ["resolve", "seq"]] or [["resolve", "type"]]
    return {"kind": "same", "ty": t, "reg": reg, "ops": ops, "mode": mode}


def same_valid(case):
    try:
        build_ty(case["ty"])
        build_reg(case["reg"])
        return bool(case["ops"])
    except Exception:
        return False


def shrink_same(case):
    ops, reg = case["ops"], case["reg"]
    for i in range(len(ops)):
        if len(ops) > 1:
            yield {**case, "ops": ops[:i] + ops[i + 1:]}
    for i in range(len(ops) - 1, 0, -1):
        yield {**case, "ops": ops[:i]}
    for i, o in enumerate(ops):
        if o[0] == "resolve" and o[1] != "type":
            yield {**case, "ops": ops[:i] + [["resolve", "type"]] + ops[i + 1:]}
        if o[0] in ("deepcopy", "replace"):
            yield {**case, "ops": ops[:i] + [["copy"]] + ops[i + 1:]}
    if reg:
        yield {**case, "reg": []}
    for i, e in enumerate(reg):
        yield {**case, "reg": reg[:i] + reg[i + 1:]}
        for j in range(len(e["types"])):
            yield {**case, "reg": reg[:i] + [{**e, "types": e["types"][:j] + e["types"][j + 1:]}] + reg[i + 1:]}
    t = case["ty"]
    for x in list(tv.shrink_ty(t))[:200]:
        yield {**case, "ty": x}
    if t[0] == "opaque":
        for i, a in enumerate(t[3]):
            yield {**case, "ty": t[:3] + [t[3][:i] + t[3][i + 1:]] + t[4:]}
            if a[0] == "seq":
                for b in a[1]:
                    yield {**case, "ty": t[:3] + [t[3][:i] + [b] + t[3][i + 1:]] + t[4:]}
            if a[0] == "t":
                for x in list(tv.shrink_ty(a[1]))[:40]:
                    yield {**case, "ty": t[:3] + [t[3][:i] + [["t", x]] + t[3][i + 1:]] + t[4:]}


# ------------------------------------------------------------------ constructor calls over any iterable (kind "ctor")
# case ::= {"kind": "ctor", "call": call}
# call ::= ["either", form, form, [elem..], [elem..]]          tys.Either(left, right)
#        | ["left", form, form, [val..], [elem..]]              val.Left(vals, right_typ).type_()
#        | ["right", form, form, [elem..], [val..]]             val.Right(left_typ, vals).type_()
#        | ["tuple", form, [elem..]] | ["option", form, [elem..]]   tys.Tuple(*it) / tys.Option(*it)
# elem ::= ["ty", ty] | ["call", call]          val ::= a constant description of tyval_c07c14 (bool / int / float / ..)
# form ::= how the row is handed to the constructor (FORMS): a list, a tuple, or one of several iterables that are
#          not sequences, most of them one-shot (a second iteration yields nothing).
# The rows of tys.Either / val.Left / val.Right are documented as `Iterable`: whatever iterable carries the elements,
# the type is the sum of exactly those rows, and the property's "eithers take the least upper bound of their element
# bounds" speaks about those elements.  The type the call DENOTES is printed from the description (the documented
# meaning of the sugar: Tuple = one row, Option = empty row + row, Either = left row + right row) over the elements
# (printed from objects built on their own), never from the object the constructor under test returned.
FORMS = ("list", "tuple", "gen", "iter", "map", "filter", "deque", "chain", "reiter", "oneshot", "islice", "reversed")
ONE_SHOT = ("gen", "iter", "map", "filter", "chain", "oneshot", "islice", "reversed")


class _ReIter:
    """An iterable that is neither a sequence nor an iterator (only __iter__; can be iterated again)."""

    def __init__(self, xs):
        self._xs = list(xs)

    def __iter__(self):
        return iter(list(self._xs))


class _OneShot:
    """A hand-written iterator."""

    def __init__(self, xs):
        self._xs = list(xs)
        self._i = 0

    def __iter__(self):
        return self

    def __next__(self):
        if self._i >= len(self._xs):
            raise StopIteration
        self._i += 1
        return self._xs[self._i - 1]


def as_form(form, xs):
    import collections
    import itertools
    xs = list(xs)
    if form == "list":
        return xs
    if form == "tuple":
        return tuple(xs)
    if form == "gen":
        return (x for x in xs)
    if form == "iter":
        return iter(xs)
    if form == "map":
        return map(lambda x: x, xs)
    if form == "filter":
        return filter(lambda x: True, xs)
    if form == "deque":
        return collections.deque(xs)
    if form == "chain":
        h = len(xs) // 2
        return itertools.chain(xs[:h], tuple(xs[h:]))
    if form == "reiter":
        return _ReIter(xs)
    if form == "oneshot":
        return _OneShot(xs)
    if form == "islice":
        return itertools.islice(xs + xs, len(xs))
    if form == "reversed":
        return reversed(xs[::-1])
    raise ValueError(form)


def _call_rows(c):
    """(positions of the element rows in the call description)"""
    return {"either": [3, 4], "left": [4], "right": [3], "tuple": [2], "option": [2]}[c[0]]


def build_elem(e):
    return build_ty(e[1]) if e[0] == "ty" else build_call(e[1])


def build_call(c):
    """Run the constructor call through the public API; every row is handed over in its form (a fresh iterable)."""
    from hugr import tys, val
    k = c[0]
    row = lambda r: [build_elem(e) for e in r]
    if k == "either":
        return tys.Either(as_form(c[1], row(c[3])), as_form(c[2], row(c[4])))
    if k == "left":
        return val.Left(as_form(c[1], [tv.build_val(v) for v in c[3]]), as_form(c[2], row(c[4]))).type_()
    if k == "right":
        return val.Right(as_form(c[1], row(c[3])), as_form(c[2], [tv.build_val(v) for v in c[4]])).type_()
    if k == "tuple":
        return tys.Tuple(*as_form(c[1], row(c[2])))
    if k == "option":
        return tys.Option(*as_form(c[1], row(c[2])))
    raise ValueError(c)


def gelem(e) -> str:
    return gty(build_ty(e[1])) if e[0] == "ty" else gcall(e[1])


def gcall(c) -> str:
    """The type the call denotes, from the description (see the header of this section)."""
    k = c[0]
    row = lambda r: glist(gelem(e) for e in r)
    vrow = lambda vs: glist(gty(build_ty(tv.val_type_desc(v))) for v in vs)
    if k == "either":
        rows = [row(c[3]), row(c[4])]
    elif k == "left":
        rows = [vrow(c[3]), row(c[4])]
    elif k == "right":
        rows = [row(c[3]), vrow(c[4])]
    elif k == "tuple":
        rows = [row(c[2])]
    elif k == "option":
        rows = ["[]", row(c[2])]
    else:
        raise ValueError(c)
    return gapp("TSum", glist(rows))


def call_valid(c):
    try:
        build_call(c)
        gcall(c)
        return True
    except Exception:
        return False


def rand_const(rng):
    r = rng.random()
    if r < 0.3:
        return ["bool", rng.random() < 0.5, "const"]
    if r < 0.5:
        return ["int", rng.choice([0, 1, 5]), rng.choice([3, 5, 6])]
    if r < 0.65:
        return ["float", rng.choice([0.5, 2.0])]
    if r < 0.8:
        return ["unitsum", 0, rng.choice([1, 3])]
    return ["tuple", [rand_const(rng) for _ in range(rng.choice([0, 1, 2]))]]


def rand_call(rng, depth):
    form = lambda: rng.choice(FORMS) if rng.random() < 0.3 else rng.choice(ONE_SHOT)

    def elem():
        if depth > 0 and rng.random() < 0.3:
            return ["call", rand_call(rng, depth - 1)]
        r = rng.random()
        if r < 0.3:
            return ["ty", ["qubit"]]
        if r < 0.45:
            return ["ty", rng.choice([["bool"], ["usize"]])]
        return ["ty", rand_ty(rng, rng.choice([0, 1, 1, 2]), False)]
    row = lambda: [elem() for _ in range(rng.choice([0, 1, 1, 2, 2, 3]))]
    vals = lambda: [rand_const(rng) for _ in range(rng.choice([0, 1, 1, 2]))]
    r = rng.random()
    if r < 0.5:
        return ["either", form(), form(), row(), row()]
    if r < 0.65:
        return ["left", form(), form(), vals(), row()]
    if r < 0.8:
        return ["right", form(), form(), row(), vals()]
    if r < 0.9:
        return ["tuple", form(), row()]
    return ["option", form(), row()]


def rand_ctor(rng):
    return {"kind": "ctor", "call": rand_call(rng, rng.choice([0, 0, 1, 1, 2]))}


def shrink_call(c):
    k = c[0]
    nforms = 1 if k in ("tuple", "option") else 2
    for p in _call_rows(c):
        for e in c[p]:
            if e[0] == "call":
                yield e[1]                                    # an inner call in place of the whole
    for p in _call_rows(c):
        r = c[p]
        for j, e in enumerate(r):
            yield c[:p] + [r[:j] + r[j + 1:]] + c[p + 1:]
        for j, e in enumerate(r):
            rep = lambda x: c[:p] + [r[:j] + [x] + r[j + 1:]] + c[p + 1:]
            if e[0] == "call":
                for a in (["qubit"], ["usize"]):
                    yield rep(["ty", a])
                for x in shrink_call(e[1]):
                    yield rep(["call", x])
            else:
                for a in (["qubit"], ["usize"]):
                    if e[1] != a:
                        yield rep(["ty", a])
                for x in list(tv.shrink_ty(e[1]))[:30]:
                    yield rep(["ty", x])
    if k in ("left", "right"):
        p = 3 if k == "left" else 4
        for j in range(len(c[p])):
            yield c[:p] + [c[p][:j] + c[p][j + 1:]] + c[p + 1:]
        # the same rows through the type constructor
        rows = [[["ty", tv.val_type_desc(v)] for v in c[3]], c[4]] if k == "left" else \
               [c[3], [["ty", tv.val_type_desc(v)] for v in c[4]]]
        yield ["either", c[1], c[2]] + rows
    for i in range(1, 1 + nforms):
        if c[i] != "list":
            yield c[:i] + ["list"] + c[i + 1:]
        if c[i] not in ("list", "gen"):
            yield c[:i] + ["gen"] + c[i + 1:]


B = {"C": "Copyable", "A": "Any"}


class C07(fw.Prop):
    id = "C07"
    props_file = "props/C07.v"
    run_file = "run/C07Run.v"
    run_module = "run.C07Run"
    shard = 300
    rule = ("generated type expressions to nesting depth 5 (quick: mostly <=4): sums incl. empty sums and empty rows, "
            "Tuple/Option/Either sugar, unit sums, function and polymorphic function types over linear rows, variables, "
            "row variables, aliases and opaque types of both bounds, ExtType over generated TypeDefs with explicit / "
            "from-parameters bounds and arbitrary in-range index lists (repetitions, non-type arguments at the indices), "
            "std int/float/string, Array/List/StaticArray over generated elements; a malformed stream with index lists "
            "out of range; the StaticArray constructor on copyable and linear elements; TypeBound.join on all bound "
            "lists up to length 4 and random longer ones; histories of one object graph (observe, then assign / append an "
            "element of a row or argument list, re-assign args / variant_rows / type_def / bound, at any depth, on the "
            "object or on a copy.copy / copy.deepcopy of it, observe again; 1-3 changes); chains of 1-3 operations that "
            "hand the same type back (resolve against a generated registry that is empty / holds other extensions / holds "
            "the extension without the type / knows some of the opaque types, through Type / TypeTypeArg / SequenceArg "
            ".resolve; copy.copy, copy.deepcopy, dataclasses.replace; _to_serial().deserialize()) over opaque types of "
            "both declared bounds nested in sums, function types and type arguments; constructor calls whose rows are "
            "handed over as any iterable (tys.Either, val.Left / val.Right (.type_()), Tuple / Option star-unpacked; rows "
            "as list, tuple, deque, a re-iterable object, or a one-shot iterator: generator, iter, map, filter, "
            "itertools.chain / islice, reversed, a hand-written iterator), nested 0-2 levels, judged against the type "
            "the call denotes (printed from the description), asked twice.  non-trivial = the type has a constituent (depth >= 1) or the "
            "case is a constructor/join case with >= 2 inputs or a history or a chain or a constructor call")
    trusted = ["indices of a from-parameters bound are naturals (negative Python indices, which would wrap around, are "
               "outside the model and the generator)",
               "serialised bounds are read from `_to_serial().model_dump()` by a pre-order walk over dict entries "
               "tagged t=Opaque (pydantic's dump is trusted to reproduce the serial objects)",
               "gen/StdBounds.v is re-translated from the JSON definition files of both locations on every run; "
               "which argument position each std subclass reads (Array 1, List 0, StaticArray 0) is hand-modelled "
               "and tied by correspondence"]
    assumptions = ["type definitions are registered in an Extension (ExtType._to_opaque asserts it)",
                   "bound index lists contain naturals"]

    def regenerate(self, ctx):
        path = os.path.join(fw.COQ, "gen", "StdBounds.v")
        fw.write_if_changed(path, translate_std_bounds())
        return ["gen/StdBounds.v"]

    # ------------------------------------------------------------------ cases
    def corpus(self, ctx):
        lin = ["qubit"]
        d_p = lambda idx, n: {"ext": "e.one", "name": "T", "params": [["type", "A"]] * n, "bound": ["P", idx]}
        return [
            {"kind": "ty", "ty": ["sum", []]},
            {"kind": "ty", "ty": ["sum", [[], []]]},
            {"kind": "ty", "ty": ["tuple", [["bool"], lin]]},
            {"kind": "ty", "ty": ["tuple", [lin, ["bool"]]]},
            {"kind": "ty", "ty": ["option", [["usize"], ["alias", "lin", "A"]]]},
            {"kind": "ty", "ty": ["either", [["usize"]], [lin]]},
            {"kind": "ty", "ty": ["func", [lin], [lin], []]},
            {"kind": "ty", "ty": ["ext", d_p([1], 2), [["t", lin], ["t", ["usize"]]]]},
            {"kind": "ty", "ty": ["ext", d_p([1, 0], 2), [["t", lin], ["t", ["usize"]]]]},
            {"kind": "ty", "ty": ["ext", d_p([0, 1], 2), [["t", ["usize"]], ["t", lin]]]},
            {"kind": "ty", "ty": ["ext", d_p([], 1), [["t", lin]]]},
            {"kind": "ty", "ty": ["ext", {"ext": "e.one", "name": "T", "params": [["nat", None], ["type", "A"]],
                                          "bound": ["P", [0, 1, 0]]}, [["n", 3], ["t", lin]]]},
            {"kind": "ty", "ty": ["ext", d_p([2], 2), [["t", lin], ["t", ["usize"]]]]},      # index out of range
            {"kind": "ty", "ty": ["array", lin, 3]},
            {"kind": "ty", "ty": ["array", ["tuple", [["usize"], ["list", lin]]], 0]},
            {"kind": "ty", "ty": ["list", ["array", ["bool"], 2]]},
            {"kind": "ty", "ty": ["sarray", ["tuple", [["int", 5], ["float"]]]]},
            {"kind": "static", "elem": lin},
            {"kind": "static", "elem": ["usize"]},
            {"kind": "static", "elem": ["tuple", [["usize"], ["list", lin]]]},
            {"kind": "static", "elem": ["func", [lin], [lin], []]},
            {"kind": "join", "bs": []},
            {"kind": "join", "bs": ["C", "A", "C"]},
        ] + self.seq_corpus() + self.same_corpus() + self.ctor_corpus()

    def ctor_corpus(self):
        """Constructor calls over iterables (seeded round 4): the rows of an Either are whatever the iterable yields."""
        q, bl = ["ty", ["qubit"]], ["ty", ["bool"]]
        cc = lambda call: {"kind": "ctor", "call": call}
        handle = ["ty", ["ext", {"ext": "e.one", "name": "box", "params": [["type", "A"]], "bound": ["P", [0]]},
                         [["t", ["qubit"]]]]]
        return [
            # C07-j: a validation pass over the rows before they are stored exhausts one-shot iterators
            cc(["either", "gen", "list", [q], []]),
            cc(["either", "list", "iter", [], [q]]),
            cc(["either", "gen", "iter", [bl, q], [bl]]),                                     # the demo
            cc(["either", "map", "filter", [["call", ["tuple", "list", [bl]]]], [["call", ["option", "list", [q]]]]]),
            cc(["tuple", "list", [bl, ["call", ["either", "map", "filter", [bl], [q]]]]]),
            cc(["left", "list", "gen", [["bool", True, "const"]], [q]]),                      # val.Left forwards its row
            cc(["right", "oneshot", "gen", [q], [["bool", False, "const"]]]),
            cc(["left", "gen", "tuple", [["int", 1, 5], ["float", 0.5]], [handle]]),
            cc(["either", "oneshot", "chain", [handle], [bl, q]]),                            # written bounds too
            cc(["either", "islice", "reversed", [bl, q], [q, bl]]),
            cc(["either", "deque", "reiter", [q], [bl]]),
            cc(["either", "tuple", "list", [bl], [bl, bl]]),
            cc(["tuple", "gen", [bl, q]]),
            cc(["option", "iter", [q]]),
        ]

    def same_corpus(self):
        """Chains (seeded round 3): a declared bound survives every operation that hands the same type back."""
        handle = ["opaque", "vendor.resources", "handle", [], "A"]
        other = {"name": "Zed", "params": [], "bound": ["E", "C"]}
        sm = lambda ty, reg, ops: {"kind": "same", "ty": ty, "reg": reg, "ops": ops, "mode": "corpus"}
        res = ["resolve", "type"]
        return [
            # C07-e: the not-found fallback of Opaque.resolve rebuilt the type without its declared bound
            sm(handle, [], [res]),
            sm(handle, [{"name": "vendor.resources", "types": [other]}], [res]),                  # TypeNotFound path
            sm(handle, [{"name": "x.other", "types": [{**other, "name": "handle"}]}], [res]),     # same id elsewhere
            sm(["tuple", [["bool"], handle]], [], [res]),
            sm(["func", [handle], [["option", [handle]]], []], [], [["resolve", "arg"]]),
            sm(["opaque", "e.one", "box", [["seq", [["t", handle]]]], "C"], [], [["resolve", "seq"]]),
            sm(["poly", [["type", "A"]], [handle], []], [], [res]),
            sm(["list", handle], [], [["roundtrip"], res]),                                       # the demo's last step
            # the outer type resolves, the inner one does not: it still keeps its bound
            sm(["opaque", "e.one", "box", [["t", handle]], "A"],
               [{"name": "e.one", "types": [{"name": "box", "params": [["type", "A"]], "bound": ["P", [0]]}]}], [res, res]),
            sm(["tuple", [handle, ["var", 0, "A"], ["alias", "lin", "A"]]], [], [["copy"], ["deepcopy"], ["replace"]]),
            sm(handle, [], [["replace"], ["roundtrip"], ["deepcopy"]]),
            sm(["array", ["tuple", [handle]], 2], [], [["roundtrip"], ["roundtrip"]]),
            # an index list out of range: copies and resolve hand the type back, writing it raises
            sm(["tuple", [["ext", {"ext": "e.one", "name": "T", "params": [["type", "A"]] * 2, "bound": ["P", [2]]},
                           [["t", handle], ["t", ["usize"]]]]]], [], [["deepcopy"], res, ["roundtrip"]]),
        ]

    def seq_corpus(self):
        """Histories (seeded round 2): the bound reported / written is that of the type's CURRENT value."""
        lin, bl = ["qubit"], ["bool"]
        pair = {"ext": "e.one", "name": "Pair", "params": [["type", "A"]] * 2, "bound": ["P", [0, 1]]}
        box = {"ext": "e.one", "name": "box", "params": [["type", "A"]], "bound": ["P", [0]]}
        sq = lambda ty, steps, copy=None, static=False: {"kind": "seq", "ty": ty, "copy": copy, "static": static,
                                                           "steps": steps}
        st = lambda path, new, mode="slot": {"op": "set", "path": path, "mode": mode, "new": new}
        return [
            # serialize, assign one type argument in place, serialize again (C07-d: memoised _to_opaque)
            sq(["ext", pair, [["t", bl], ["t", bl]]], [st([1], lin)]),
            sq(["ext", pair, [["t", bl], ["t", lin]]], [st([1], bl, "attr")]),
            # a copy of a type that was serialized before gets new arguments; the original keeps its bound
            sq(["list", bl], [st([0], lin, "attr")], copy="copy"),
            sq(["array", bl, 2], [st([0], lin)], copy="deepcopy"),
            # the element of an inner sum changes under an extension type that was serialized before
            sq(["ext", box, [["t", ["tuple", [bl]]]]], [st([0, 0], lin)]),
            sq(["list", ["option", [bl]]], [{"op": "append", "path": [0], "row": 0, "new": lin}]),
            # sums themselves; the definition / the declared bound re-assigned
            sq(["tuple", [bl]], [{"op": "append", "path": [], "row": 0, "new": lin}, st([1], ["usize"])], static=True),
            sq(["ext", {**box, "bound": ["E", "C"]}, [["t", lin]]], [{"op": "def", "path": [], "bound": ["P", [0]]},
                                                                      {"op": "def", "path": [], "bound": ["E", "A"]}]),
            sq(["tuple", [["opaque", "e.two", "Ref", [], "C"]]], [{"op": "obound", "path": [0], "b": "A"}], static=True),
            sq(["sarray", ["tuple", [bl]]], [st([0, 0], ["usize"])]),
        ]

    def generate(self, rng, tier, ctx):
        k = 1 if tier == "quick" else 8
        cases = []
        for n in range(1100 * k):
            depth = rng.choice([1, 2, 2, 3, 3, 4, 4, 5])
            t = rand_ty(rng, depth, rng.random() < 0.2)
            if tv.depth_of(t) == 0 and rng.random() < 0.85:
                t = rand_ty(rng, depth, False)
            cases.append({"kind": "ty", "ty": t})
        for _ in range(60 * k):
            cases.append({"kind": "ty", "ty": ["poly", [tv.rand_param(rng) for _ in range(rng.randint(0, 2))],
                                               tv.rand_row(rng, 3, False), tv.rand_row(rng, 3, False)]})
        for _ in range(250 * k):
            cases.append({"kind": "static", "elem": rand_ty(rng, rng.choice([0, 1, 2, 3, 4]), rng.random() < 0.45)})
        # malformed / edge stream: index lists out of range (type_bound() raises IndexError), deep inside or at the top
        for _ in range(80 * k):
            d, args = tv.rand_def_and_args(rng, 3, False)
            n = len(args)
            d = {**d, "bound": ["P", [rng.randrange(n + 1) for _ in range(rng.randint(0, 2))] + [n + rng.randint(0, 2)] +
                            [rng.randrange(n + 1) for _ in range(rng.randint(0, 1))]]}
            t = ["ext", d, args]
            r = rng.random()
            if r < 0.3:
                t = ["tuple", [["usize"], t]]
            elif r < 0.5:
                t = ["list", t]
            elif r < 0.6:
                t = ["func", [t], [], []]
            cases.append({"kind": "ty", "ty": t})
        # histories: build, observe, change through public attributes (possibly on a copy), observe again
        for _ in range(400 * k):
            cases.append(rand_seq(rng))
        # TypeBound.join: exhaustive up to length 4, then random
        import itertools
        for n in range(5):
            for bs in itertools.product("CA", repeat=n):
                cases.append({"kind": "join", "bs": list(bs)})
        for _ in range(40 * k):
            cases.append({"kind": "join", "bs": [rng.choice("CCCA") for _ in range(rng.randint(5, 12))]})
        # chains of operations that hand the same type back (drawn last: the older streams are unchanged)
        for _ in range(320 * k):
            cases.append(rand_same(rng))
        # constructor calls whose rows are handed over as lists, tuples and (mostly one-shot) iterables (drawn last)
        for _ in range(300 * k):
            cases.append(rand_ctor(rng))
        return cases

    # ------------------------------------------------------------------ implementation
    def observe(self, case, ctx):
        from hugr import tys
        k = case["kind"]

        def guard(f):
            try:
                return ["ok", f()]
            except Exception as e:
                return ["exc", type(e).__name__]
        if k == "join":
            return guard(lambda: tys.TypeBound.join(*[tv._bound(b) for b in case["bs"]]).value)
        from hugr.std.collections.static_array import StaticArray

        def obs_ty(t):
            ob = guard(lambda: t.type_bound().value)
            oopq = guard(lambda: t._to_opaque().bound.value) if isinstance(t, tys.ExtType) else None
            oser = guard(lambda: serial_bounds(t._to_serial().model_dump(mode="json")))
            return {"bound": ob, "opaque": oopq, "serial": oser}
        if k == "static":
            elem = build_ty(case["elem"])
            return guard(lambda: StaticArray(elem).type_bound().value)
        if k == "seq":
            return run_seq(case, lambda o, static: [obs_ty(o)] + (
                [guard(lambda: StaticArray(o).type_bound().value)] if static else []))
        if k == "same":
            return run_same(case, lambda o, reg: obs_ty(o))
        if k == "ctor":
            o = build_call(case["call"])
            return [obs_ty(o), obs_ty(o)]               # asked twice: the answer does not wear off
        return obs_ty(build_ty(case["ty"]))

    def literal(self, case, obs, ctx):
        k = case["kind"]
        gob = lambda o: gopt(B[o[1]] if o[0] == "ok" else None)
        def lit_static(ctor, g, o):
            acc = "(Some true)" if o[0] == "ok" else ("(Some false)" if o == ["exc", "ValueError"] else "None")
            return gapp(ctor, g, acc, gob(o))

        def trip(o):
            oopq = "None" if o["opaque"] is None else gapp("Some", gob(o["opaque"]))
            oser = gopt(glist(B[b] for b in o["serial"][1]) if o["serial"][0] == "ok" else None)
            return "%s %s %s" % (gob(o["bound"]), oopq, oser)

        def lit_ty(ctor, g, o):
            return "(%s %s %s)" % (ctor, g, trip(o))
        if k == "join":
            return gapp("CJoin", glist(B[b] for b in case["bs"]), gob(obs))
        if k == "static":
            return lit_static("CStatic", gty(build_ty(case["elem"])), obs)
        if k == "seq":
            # the same history replayed without observing: the types are printed from the objects at each moment
            gs = run_seq(case, lambda o, static: [("ty", gty(o))] + ([("static", gty(o))] if static else []))
            if len(gs) != len(obs):
                raise AssertionError("history replay and observations disagree in length")
            return gapp("CSeq", glist(lit_ty("STy", g, o) if tag == "ty" else lit_static("SStatic", g, o)
                                      for (tag, g), o in zip(gs, obs)))
        if k == "same":
            # the same chain replayed: registry and types are printed from the objects each operation returned
            gs = run_same(case, lambda o, reg: (gty(o), greg(reg)))
            if len(gs) != len(obs) or [x[0] for x in gs[1:]] != [x[0] for x in obs[1:]]:
                raise AssertionError("chain replay and observations disagree")
            steps = []
            for op, g, o in zip(case["ops"], gs[1:], obs[1:]):
                if g[0] == "ok":
                    steps.append("(SOp %s (Some %s) %s)" % (SAME_OPS[op[0]], g[1][0], trip(o[1])))
                else:
                    steps.append("(SOp %s None None None None)" % SAME_OPS[op[0]])
            return "(CSame %s %s %s %s)" % (gs[0][1], gs[0][0], trip(obs[0]), glist(steps))
        if k == "ctor":
            # both observations of the constructed object are judged against the type the call DENOTES (gcall: from
            # the description, not from the object)
            g = gcall(case["call"])
            return gapp("CSeq", glist(lit_ty("STy", g, o) for o in obs))
        return lit_ty("CTy", gty(build_ty(case["ty"])), obs)

    def nontrivial(self, case, obs):
        if case["kind"] == "ty":
            return tv.depth_of(case["ty"]) >= 1
        if case["kind"] in ("static", "seq", "same", "ctor"):
            return True
        return len(case["bs"]) >= 2

    def describe(self, case, obs):
        return {"input": case, "observed": obs}

    def signature(self, case, obs, ctx):
        k = case["kind"]
        if k == "ty":
            top = case["ty"][0]
            res = obs["bound"][1] if obs["bound"][0] == "ok" else "raises"
            return f"bound:{top}:{res}"
        if k == "static":
            return "static_array:" + ("accepted" if obs[0] == "ok" else obs[1])
        if k == "seq":
            return "history:%s:%s" % (case["ty"][0], "+".join(st["op"] for st in case["steps"]))
        if k == "same":
            return "same:%s:%s" % (case["ty"][0], "+".join(o[0] for o in case["ops"]))
        if k == "ctor":
            c = case["call"]
            return "ctor:%s:%s" % (c[0], "+".join(c[1:2 if c[0] in ("tuple", "option") else 3]))
        return "join"

    def shrink(self, case):
        k = case["kind"]
        if k == "ty":
            for s in tv.shrink_ty(case["ty"]):
                yield {"kind": "ty", "ty": s}
        elif k == "static":
            for s in tv.shrink_ty(case["elem"]):
                yield {"kind": "static", "elem": s}
        elif k == "seq":
            for c in shrink_seq(case):
                if seq_valid(c):
                    yield c
        elif k == "same":
            for c in shrink_same(case):
                if same_valid(c):
                    yield c
        elif k == "ctor":
            for c in shrink_call(case["call"]):
                if call_valid(c):
                    yield {"kind": "ctor", "call": c}
        else:
            bs = case["bs"]
            for i in range(len(bs)):
                yield {"kind": "join", "bs": bs[:i] + bs[i + 1:]}

    def neighbours(self, case, rng):
        out = []
        if case["kind"] == "seq":
            for i in range(len(case["steps"])):
                out.append({**case, "steps": case["steps"][:i + 1]})
                out.append({**case, "copy": None, "static": False, "steps": case["steps"][i:i + 1]})
            out = [c for c in out if seq_valid(c)]
            for _ in range(300):
                out.append(rand_seq(rng))
        elif case["kind"] == "same":
            for i in range(len(case["ops"])):
                out.append({**case, "ops": case["ops"][:i + 1]})
                out.append({**case, "ops": case["ops"][i:i + 1]})
            for op in (["resolve", "type"], ["roundtrip"], ["copy"], ["deepcopy"], ["replace"]):
                out.append({**case, "ops": [op]})
                out.append({**case, "reg": [], "ops": [op]})
            for c in tv.child_types(case["ty"]):
                out.append({**case, "ty": c})
            for _ in range(300):
                out.append(rand_same(rng))
        elif case["kind"] == "ctor":
            c = case["call"]
            for p in _call_rows(c):
                out += [{"kind": "ctor", "call": e[1]} for e in c[p] if e[0] == "call"]
            for f in FORMS:
                nf = 1 if c[0] in ("tuple", "option") else 2
                out.append({"kind": "ctor", "call": c[:1] + [f] * nf + c[1 + nf:]})
            for _ in range(300):
                out.append(rand_ctor(rng))
        elif case["kind"] in ("ty", "static"):
            t = case.get("ty", case.get("elem"))
            todo = [t]
            while todo and len(out) < 300:
                x = todo.pop()
                out.append({"kind": "ty", "ty": x})
                if x[0] != "sarray":
                    out.append({"kind": "static", "elem": x})
                todo += tv.child_types(x)
            for _ in range(600):
                out.append({"kind": "ty", "ty": rand_ty(rng, rng.choice([1, 2, 3]), False)})
            for _ in range(200):
                out.append({"kind": "static", "elem": rand_ty(rng, rng.choice([0, 1, 2]), False)})
        else:
            for _ in range(200):
                out.append({"kind": "join", "bs": [rng.choice("CA") for _ in range(rng.randint(0, 6))]})
        return out

    def distribution(self, cases, observations):
        d = {"kinds": {}, "depth": {}, "constructors": {}, "bounds": {}, "raises": 0, "static": {},
             "history_ops": {}, "history_copy": {}, "history_root": {}, "history_bound_changed": 0,
             "chain_ops": {}, "chain_registry": {}, "chain_linear_opaque": 0, "chain_raised": 0,
             "ctor_calls": {}, "ctor_forms": {}, "ctor_one_shot_row_with_linear": 0, "ctor_bounds": {}}
        for c, o in zip(cases, observations):
            k = c["kind"]
            d["kinds"][k] = d["kinds"].get(k, 0) + 1
            if k == "ty":
                dp = str(tv.depth_of(c["ty"]))
                d["depth"][dp] = d["depth"].get(dp, 0) + 1
                for kk, n in tv.kinds_of(c["ty"]).items():
                    d["constructors"][kk] = d["constructors"].get(kk, 0) + n
                if o["bound"][0] == "ok":
                    d["bounds"][o["bound"][1]] = d["bounds"].get(o["bound"][1], 0) + 1
                else:
                    d["raises"] += 1
            elif k == "static":
                key = "accepted" if o[0] == "ok" else o[1]
                d["static"][key] = d["static"].get(key, 0) + 1
            elif k == "seq":
                for st in c["steps"]:
                    d["history_ops"][st["op"]] = d["history_ops"].get(st["op"], 0) + 1
                d["history_copy"][str(c.get("copy"))] = d["history_copy"].get(str(c.get("copy")), 0) + 1
                d["history_root"][c["ty"][0]] = d["history_root"].get(c["ty"][0], 0) + 1
                bs = [x["bound"] for x in o if isinstance(x, dict)]
                d["history_bound_changed"] += int(any(b != bs[0] for b in bs))
            elif k == "same":
                for op in c["ops"]:
                    key = ":".join(op)
                    d["chain_ops"][key] = d["chain_ops"].get(key, 0) + 1
                m = c.get("mode", "?")
                d["chain_registry"][m] = d["chain_registry"].get(m, 0) + 1
                d["chain_linear_opaque"] += int('"opaque"' in json.dumps(c["ty"]) and any(
                    x[0] == "opaque" and x[4] == "A" for x in _all_nodes(c["ty"])))
                d["chain_raised"] += int(any(x[0] == "exc" for x in o[1:]))
            elif k == "ctor":
                for cl in _all_calls(c["call"]):
                    d["ctor_calls"][cl[0]] = d["ctor_calls"].get(cl[0], 0) + 1
                    nf = 1 if cl[0] in ("tuple", "option") else 2
                    for f in cl[1:1 + nf]:
                        d["ctor_forms"][f] = d["ctor_forms"].get(f, 0) + 1
                    if cl[0] in ("either", "left", "right"):
                        for f, p in zip(cl[1:3], (3, 4)):
                            if f in ONE_SHOT and p in _call_rows(cl) and any(
                                    e[0] == "ty" and not tv.desc_copyable(e[1]) for e in cl[p]):
                                d["ctor_one_shot_row_with_linear"] += 1
                key = o[0]["bound"][1] if o[0]["bound"][0] == "ok" else "raises"
                d["ctor_bounds"][key] = d["ctor_bounds"].get(key, 0) + 1
        return d


def _all_calls(c):
    yield c
    for p in _call_rows(c):
        for e in c[p]:
            if e[0] == "call":
                yield from _all_calls(e[1])


def _all_nodes(t):
    yield t
    for c in tv.child_types(t):
        yield from _all_nodes(c)


def serial_bounds(doc):
    """Bounds of the serial Opaque records of a dumped type, in document (pre-)order."""
    out = []

    def walk(x):
        if isinstance(x, dict):
            if x.get("t") == "Opaque":
                if set(x) != {"t", "extension", "id", "args", "bound"}:
                    raise AssertionError(f"unexpected serial Opaque fields {sorted(x)}")
                out.append(x["bound"])
                walk(x["args"])
            else:
                for v in x.values():
                    walk(v)
        elif isinstance(x, list):
            for v in x:
                walk(v)
    walk(doc)
    return out


PROP = C07()
