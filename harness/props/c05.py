"""C05 — types, values and operations survive encoding and decoding unchanged.
Models: coq/model/{SerialTypes,Codec,CodecVals,CodecOps,CodecDoc}.v, spec: coq/spec/CodecS.v."""
import json

import fw
from fw import gN, gZ, gnat, gbool, glist, gopt, gapp, gpair
import c05terms as T
from c05terms import WalkError


def guard(f):
    try:
        return ["ok", f()]
    except WalkError:
        raise
    except Exception as e:                       # exception classes only
        return ["raised", type(e).__name__]


def obound(f):
    try:
        return gopt(T.gbound(f()))
    except Exception:
        return "None"


class C05(fw.Prop):
    id = "C05"
    props_file = "props/C05.v"
    run_file = "run/C05Run.v"
    run_module = "run.C05Run"
    shard = 150
    rule = ("grammar-based abstract terms built with the public constructors; non-trivial = the term contains an "
            "extension type / sugar class / nested sum / function type, or is a foreign serial term with an omitted "
            "default or permuted keys")
    trusted = ["pydantic: JSON text <-> serial models (monitored per case: validate(dump(s)) == s)",
               "fail-closed walkers of pydantic instances and API objects (harness/c05terms.py)"]
    assumptions = ["well-formed terms: indices, sizes and tags are non-negative; names are strings"]

    # ------------------------------------------------------------------ cases
    def corpus(self, ctx):
        return [
            {"kind": "ty", "t": ["Ext", "Tp0", [["T", ["Qubit"]]]]},
            {"kind": "ty", "t": ["Sum", [[["Ext", "Tp12", [["N", 3], ["T", ["Qubit"]], ["T", ["USize"]]]]], []]]},
            {"kind": "ty", "t": ["Ext", "Tbad", [["T", ["Qubit"]]]]},
            {"kind": "sugar", "s": ["UnitSum", 2]},
            {"kind": "sugar", "s": ["Option", [["Qubit"]]]},
        ]

    def generate(self, rng, tier, ctx):
        k = 1 if tier == "quick" else 10
        cases = []
        for _ in range(250 * k):
            cases.append({"kind": "ty", "t": T.gen_ty(rng, rng.choice([1, 2, 3, 3, 4]), bad=0.05)})
        for _ in range(80 * k):
            cases.append({"kind": "arg", "a": T.gen_arg(rng, rng.choice([1, 2, 3]))})
        for _ in range(40 * k):
            cases.append({"kind": "param", "p": T.gen_param(rng, 3)})
        for _ in range(60 * k):
            r = rng.random()
            d = rng.choice([0, 1, 2])
            s = (["Tuple", T.gen_row(rng, d)] if r < 0.25 else ["Option", T.gen_row(rng, d)] if r < 0.5 else
                 ["Either", T.gen_row(rng, d), T.gen_row(rng, d)] if r < 0.75 else ["UnitSum", rng.choice([0, 1, 2, 3, 7])])
            cases.append({"kind": "sugar", "s": s})
        for _ in range(120 * k):
            cases.append({"kind": "sty", "j": T.gen_jty(rng, rng.choice([1, 2, 3]))})
        return cases

    # ------------------------------------------------------------------ observation
    def observe(self, case, ctx):
        e = T.env()
        k = case["kind"]
        if k == "ty":
            t = T.build_ty(case["t"])
            o = {"t": T.lit_ty_obj(t), "b1": obound(t.type_bound)}
            r = guard(lambda: t._to_serial_root())
            if r[0] == "raised":
                return {**o, "raised": r[1]}
            s = r[1]
            d = T.via_json(s).deserialize()
            return {**o, "raised": None, "ser": T.walk_sty(s), "deser": T.lit_ty_obj(d),
                    "reser": T.walk_sty(d._to_serial_root()), "b2": obound(d.type_bound), "json_ok": T.json_identity(s)}
        if k == "arg":
            a = T.build_arg(case["a"])
            o = {"a": T.lit_arg_obj(a)}
            r = guard(lambda: a._to_serial_root())
            if r[0] == "raised":
                return {**o, "raised": r[1]}
            s = r[1]
            d = T.via_json(s).deserialize()
            return {**o, "raised": None, "ser": T.walk_sarg(s), "deser": T.lit_arg_obj(d),
                    "reser": T.walk_sarg(d._to_serial_root()), "json_ok": T.json_identity(s)}
        if k == "param":
            p = T.build_param(case["p"])
            s = p._to_serial_root()
            d = T.via_json(s).deserialize()
            return {"p": T.lit_param_obj(p), "ser": T.walk_sparam(s), "deser": T.lit_param_obj(d),
                    "reser": T.walk_sparam(d._to_serial_root()), "json_ok": T.json_identity(s)}
        if k == "sugar":
            tys = e["tys"]
            s = case["s"]
            obj = T.build_ty(s)
            rows = ([T.build_row(s[1])] if s[0] == "Tuple" else [[], T.build_row(s[1])] if s[0] == "Option" else
                    [T.build_row(s[1]), T.build_row(s[2])] if s[0] == "Either" else [[] for _ in range(s[1])])
            gen = tys.Sum(rows)
            lit = (gapp("SgTuple", T.lit_row_obj(rows[0])) if s[0] == "Tuple" else
                   gapp("SgOption", T.lit_row_obj(rows[1])) if s[0] == "Option" else
                   gapp("SgEither", T.lit_row_obj(rows[0]), T.lit_row_obj(rows[1])) if s[0] == "Either" else
                   gapp("SgUnitSum", gnat(s[1])))
            py_eq = bool((obj == gen) and (gen == obj) and not (obj != gen) and obj.type_bound() == gen.type_bound()
                         and isinstance(obj, tys.Sum) and obj.variant_rows == gen.variant_rows)
            return {"s": lit, "py_eq": py_eq, "ser_s": T.walk_sty(obj._to_serial_root()),
                    "ser_g": T.walk_sty(gen._to_serial_root()), "b_s": obound(obj.type_bound), "b_g": obound(gen.type_bound),
                    "rows": glist(glist(T.walk_sty(x._to_serial_root()) for x in r) for r in obj.variant_rows)}
        if k == "sty":
            s = e["stys"].Type.model_validate(case["j"])
            d = s.deserialize()
            return {"s": T.walk_sty(s), "deser": T.lit_ty_obj(d), "reser": T.walk_sty(d._to_serial_root())}
        raise AssertionError(k)

    def literal(self, case, o, ctx):
        k = case["kind"]
        if k == "ty":
            if o["raised"]:
                return gapp("CTy", o["t"], "true", "SQubit", "TQubit", "SQubit", o["b1"], "None", "true")
            return gapp("CTy", o["t"], "false", o["ser"], o["deser"], o["reser"], o["b1"], o["b2"], gbool(o["json_ok"]))
        if k == "arg":
            if o["raised"]:
                return gapp("CArg", o["a"], "true", "(SANat 0)", "(ANat 0)", "(SANat 0)", "true")
            return gapp("CArg", o["a"], "false", o["ser"], o["deser"], o["reser"], gbool(o["json_ok"]))
        if k == "param":
            return gapp("CParam", o["p"], o["ser"], o["deser"], o["reser"], gbool(o["json_ok"]))
        if k == "sugar":
            return gapp("CSugar", o["s"], gbool(o["py_eq"]), o["ser_s"], o["ser_g"], o["b_s"], o["b_g"], o["rows"])
        if k == "sty":
            return gapp("CSTy", o["s"], o["deser"], o["reser"])
        raise AssertionError(k)

    # ------------------------------------------------------------------ bookkeeping
    def nontrivial(self, case, obs):
        txt = json.dumps(case)
        k = case["kind"]
        if k in ("ty", "arg"):
            return any(w in txt for w in ('"Ext"', '"Tuple"', '"Option"', '"Either"', '"Func"', '"Array"', '"List"', '"Sum", [['))
        if k == "sty":
            return '"G"' in txt or '"Opaque"' in txt
        return True

    def describe(self, case, obs):
        return {"input": case, "observed": obs}

    def signature(self, case, obs, ctx):
        k = case["kind"]
        if isinstance(obs, dict) and obs.get("raised"):
            return f"codec:{k}:raised:{obs['raised']}"
        return f"codec:{k}"

    def shrink(self, case):
        k = case["kind"]
        key = {"ty": "t", "arg": "a", "param": "p", "sugar": "s", "sty": "j"}.get(k)
        if key is None:
            return
        for sub in shrink_term(case[key]):
            c = {**case, key: sub}
            try:                                  # keep only well-sorted candidates
                self.observe(c, None)
            except Exception:
                continue
            yield c

    def neighbours(self, case, rng):
        out = list(self.shrink(case))
        for _ in range(200):
            out.extend(self.generate(rng, "quick", None)[:3])
        return out[:1500]

    def distribution(self, cases, observations):
        d = {}
        for c, o in zip(cases, observations):
            e = d.setdefault(c["kind"], {"n": 0, "raised": 0})
            e["n"] += 1
            if isinstance(o, dict) and o.get("raised"):
                e["raised"] += 1
        return d


def shrink_term(t):
    """Smaller variants of a nested-list term: replace by a sub-term of the same sort, drop list elements."""
    if isinstance(t, dict):
        for k, v in t.items():
            if isinstance(v, (list, dict)):
                for s in shrink_term(v):
                    yield {**t, k: s}
        return
    if not isinstance(t, list):
        return
    tagged = bool(t) and isinstance(t[0], str)
    if tagged:
        # a direct sub-term with the same kind of tag set (type for type ...)
        for x in t[1:]:
            for y in (x if isinstance(x, list) else []):
                if isinstance(y, list) and y and isinstance(y[0], str) and same_sort(t, y):
                    yield y
                for z in (y if isinstance(y, list) else []):
                    if isinstance(z, list) and z and isinstance(z[0], str) and same_sort(t, z):
                        yield z
        for i in range(1, len(t)):
            if isinstance(t[i], list):
                for s in shrink_term(t[i]):
                    yield t[:i] + [s] + t[i + 1:]
    else:
        for i in range(len(t)):
            yield t[:i] + t[i + 1:]
        for i in range(len(t)):
            if isinstance(t[i], (list, dict)):
                for s in shrink_term(t[i]):
                    yield t[:i] + [s] + t[i + 1:]


TY_TAGS = {"Sum", "Tuple", "Option", "Either", "UnitSum", "Var", "RowVar", "USize", "Qubit", "Alias", "Func", "Opaque",
           "Ext", "Array", "ArrayV", "List", "StaticArray", "Int", "Float", "String", "Poly"}
ARG_TAGS = {"T", "N", "S", "Seq", "Exts", "V"}


def same_sort(a, b):
    for tags in (TY_TAGS, ARG_TAGS):
        if a[0] in tags:
            return b[0] in tags
    return False


PROP = C05()
