"""C05 — types, values and operations survive encoding and decoding unchanged.
Models: coq/model/{SerialTypes,Codec,CodecVals,CodecOps,CodecDoc}.v, spec: coq/spec/CodecS.v."""
import json

import fw
from fw import gN, gZ, gnat, gbool, glist, gopt, gapp, gpair
import c05terms as T
import c05ops as O
from c05terms import WalkError


def guard(f):
    try:
        return ["ok", f()]
    except WalkError:
        raise
    except Exception as e:                       # exception classes only
        return ["raised", type(e).__name__]


def obound(f):
    try:
        return gopt(T.gbound(f()))
    except Exception:
        return "None"


def build2(case, build, term):
    """(reference, observed): the object a public constructor builds from `term` with every `Iterable`-typed argument
    given as a list, and the one built with those arguments handed over in the case's iteration mode (`it`: generator,
    iterator, map object, tuple, re-iterable non-sequence; absent = the list, both are then one object).  The case's
    INPUT literal is the walk of the reference -- the term as requested from the constructor --, everything observed
    comes from the second object: a constructor that consumes an iterable twice / indexes it / takes its length shows
    as a decoded object that is not the input attribute by attribute (or as a raise on encodable input)."""
    ref = build(term)
    m = case.get("it")
    if m is None:
        return ref, ref
    with T.iter_mode(m):
        try:
            return ref, build(term)
        except WalkError:
            raise
        except Exception as e:                    # the reference was built: the constructor refuses the iterable
            return ref, BuildRaised(type(e).__name__)


class BuildRaised:
    def __init__(self, name):
        self.name = name


ORD_B = {"t": "Sum", "s": "Unit", "size": 2}
ORD_G = lambda i, o: {"t": "G", "input": i, "output": o, "runtime_reqs": []}
PHANTOM_BODY = {"t": "G", "input": [{"t": "I"}], "output": [], "runtime_reqs": []}
PHANTOM_SIG = {"params": [{"tp": "BoundedNat", "bound": None}], "body": PHANTOM_BODY}


class C05(fw.Prop):
    id = "C05"
    props_file = "props/C05.v"
    run_file = "run/C05Run.v"
    run_module = "run.C05Run"
    shard = 150
    rule = ("grammar-based abstract terms built with the public constructors; non-trivial = the term contains an "
            "extension type / sugar class / nested sum / function type, or is a foreign serial term with an omitted "
            "default or permuted keys; every operation put on a node of a HUGR that goes through Hugr.to_json / load_json; "
            "foreign operations and documents written by hand (no library encoder involved) with coinciding attributes; "
            "Iterable-typed constructor arguments handed over as generators / iterators / map objects / tuples; hand-written "
            "documents and API-built HUGRs with state-order edges on both sides of nodes of asymmetric arity")
    trusted = ["pydantic: JSON text <-> serial models (monitored per case: validate(dump(s)) == s)",
               "fail-closed walkers of pydantic instances and API objects (harness/c05terms.py)"]
    assumptions = ["well-formed terms: indices, sizes and tags are non-negative; names are strings"]

    # ------------------------------------------------------------------ cases
    def corpus(self, ctx):
        return [
            {"kind": "ty", "t": ["Ext", "Tp0", [["T", ["Qubit"]]]]},
            {"kind": "ty", "t": ["Sum", [[["Ext", "Tp12", [["N", 3], ["T", ["Qubit"]], ["T", ["USize"]]]]], []]]},
            {"kind": "ty", "t": ["Ext", "Tbad", [["T", ["Qubit"]]]]},
            {"kind": "sugar", "s": ["UnitSum", 2]},
            {"kind": "sugar", "s": ["Option", [["Qubit"]]]},
            # D8: FuncDefn.deserialize dropped the type parameters of a polymorphic function
            {"kind": "op", "o": ["FuncDefn", "f", [["Var", 0, "A"]], [["Type", "A"]], [["Var", 0, "A"]]]},
            # D9: DataflowBlock.deserialize dropped extension_delta
            {"kind": "op", "o": ["DataflowBlock", [], ["UnitSum", 1], [], ["a.b"]]},
            # D10: ExtensionOp.deserialize dropped the description
            {"kind": "op", "o": ["Custom", "op", [[], [], []], "does things", "my.ext", []]},
            # D17: ExtOp.to_custom_op dropped the definition's description
            {"kind": "op", "o": ["ExtOp", "OpMono", None, []]},
            {"kind": "op", "o": ["Tag", 0, ["UnitSum", 2]]},
            {"kind": "op", "o": ["Const", ["VFunc", 3]]},
            {"kind": "val", "v": ["VList", [["VInt", 3, 5]], ["Int", 5]]},
            {"kind": "valsugar", "s": ["VTrue"]},
            # D12: an order edge written the hugr-rs way (no port offsets) was skipped on load
            {"kind": "doc", "j": {"version": "live", "nodes": [
                {"parent": 0, "op": "DFG", "signature": {"t": "G", "input": [], "output": []}},
                {"parent": 0, "op": "Input", "types": []}, {"parent": 0, "op": "Output", "types": []}],
                "edges": [[[1, None], [2, None]]], "metadata": [None, {"k": [1, None]}, None], "encoder": "hugr-rs v0.15.0"}},
            # D11: the same edge with the explicit offset hugr-py writes
            {"kind": "doc", "j": {"version": "live", "nodes": [
                {"parent": 0, "op": "DFG", "signature": {"t": "G", "input": [], "output": []}},
                {"parent": 0, "op": "Input", "types": []}, {"parent": 0, "op": "Output", "types": []}],
                "edges": [[[1, 0], [2, 0]]]}},
            # seeded C05-d: Hugr.to_json dropped every attribute whose value is JSON null, also the required ones
            # (an unbounded nat parameter -- plain, nested in List/Tuple parameters, as the declaration of a variable
            # argument -- and an extension constant whose payload is null): the operation sits on a node of a HUGR
            # and goes through Hugr.to_json / Hugr.load_json
            {"kind": "hop", "o": ["FuncDecl", "f", [[["Nat", None]], [[], [], []]]]},
            {"kind": "hop", "o": ["FuncDefn", "f", [], [["List", ["Nat", None]], ["Tuple", [["Nat", 3], ["Nat", None]]]], []]},
            {"kind": "hop", "o": ["Custom", "op", [[], [], []], "", "my.ext", [["V", 0, ["Nat", None]]]]},
            {"kind": "hop", "o": ["Const", ["VExt", "ConstToken", ["Opaque", "token", "C", [], "my.ext"], "null", ["my.ext"]]]},
            {"kind": "hop", "o": ["Const", ["VFunc", 3]]},
            # ... and the same content in a document that this library did not write
            {"kind": "doc", "j": {"version": "live", "nodes": [
                {"parent": 0, "op": "Module"},
                {"parent": 0, "op": "FuncDecl", "name": "g", "signature": {
                    "params": [{"tp": "BoundedNat", "bound": None}, {"tp": "List", "param": {"tp": "BoundedNat", "bound": None}}],
                    "body": {"t": "G", "input": [], "output": [], "runtime_reqs": []}}},
                {"parent": 0, "op": "Const", "v": {"v": "Extension", "extensions": [], "typ": {"t": "Q"},
                                                   "value": {"c": "K", "v": None}}}],
                "edges": [], "metadata": [None, {"k": None}], "encoder": None}},
            # seeded C05-e: Call / LoadFunction of a polymorphic function whose type parameter does not occur in the body of
            # its signature (instantiation == body, type arguments not empty): the decoder dropped the type arguments.
            # Foreign serial operations written by hand ...
            {"kind": "sop", "j": {"parent": 0, "op": "Call", "func_sig": PHANTOM_SIG, "type_args": [{"tya": "BoundedNat", "n": 3}],
                                  "instantiation": PHANTOM_BODY}},
            {"kind": "sop", "j": {"parent": 3, "op": "LoadFunction", "func_sig": PHANTOM_SIG,
                                  "type_args": [{"tya": "BoundedNat", "n": 7}], "instantiation": PHANTOM_BODY}},
            # ... a whole foreign document: declaration, main, the call wired to both
            {"kind": "doc", "j": {"version": "live", "nodes": [
                {"parent": 0, "op": "Module"},
                {"parent": 0, "op": "FuncDecl", "name": "phantom", "signature": PHANTOM_SIG},
                {"parent": 0, "op": "FuncDefn", "name": "main", "signature": {"params": [], "body": PHANTOM_BODY}},
                {"parent": 2, "op": "Input", "types": [{"t": "I"}]}, {"parent": 2, "op": "Output", "types": []},
                {"parent": 2, "op": "Call", "func_sig": PHANTOM_SIG, "type_args": [{"tya": "BoundedNat", "n": 3}],
                 "instantiation": PHANTOM_BODY}],
                "edges": [[[3, 0], [5, 0]], [[1, 0], [5, 1]], [[3, None], [5, None]]]}},
            # ... and the same operations asked of the public constructors, alone and on a node of a HUGR
            {"kind": "op", "o": ["Call", [[["Nat", None]], [[["UnitSum", 2]], [["UnitSum", 2]], []]],
                                 [[["UnitSum", 2]], [["UnitSum", 2]], []], [["N", 7]]]},
            {"kind": "hop", "o": ["LoadFunc", [[["Type", "A"], ["Nat", 5]], [[["USize"]], [], []]], [[["USize"]], [], []],
                                  [["T", ["Qubit"]], ["N", 1]]]},
            # seeded C05-g: val.Left / val.Right walked their `vals: Iterable[Value]` twice (type, then payload): a one-shot
            # iterable gave the right Either type and an EMPTY payload.  `it` = how every Iterable-typed constructor
            # argument of the term is handed over (generator / iterator / map object / tuple / re-iterable non-sequence)
            {"kind": "valsugar", "s": ["VRight", [["UnitSum", 1]], [["VTrue"], ["VFalse"]]], "it": "gen"},
            {"kind": "valsugar", "s": ["VLeft", [["VUnit"]], [["UnitSum", 2], ["UnitSum", 2]]], "it": "iter"},
            {"kind": "val", "v": ["VTuple", [["VRight", [["Qubit"]], [["VInt", 3, 5], ["VLeft", [["VTrue"]], []]]]]], "it": "map"},
            {"kind": "hop", "o": ["Const", ["VLeft", [["VUnit"], ["VFalse"]], [["USize"]]]], "it": "gen"},
            {"kind": "sugar", "s": ["Either", [["Qubit"]], [["UnitSum", 2], ["USize"]]], "it": "iter"},
            {"kind": "ty", "t": ["Func", [["Either", [["Qubit"]], []]], [["Either", [], [["USize"], ["Qubit"]]]], []], "it": "gen"},
            {"kind": "op", "o": ["Tag", 1, ["Either", [["Qubit"]], [["UnitSum", 2]]]], "it": "reiter"},
            # seeded C05-h: Hugr._to_serial cached the offset of the order port per node, without the direction: a dataflow
            # node with an order edge on BOTH sides and different numbers of input and output ports had one of them
            # written at the other side's port count.  A foreign document (order edges without offsets, the hugr-rs way;
            # node 5 has two inputs and one output, node 4 none) ...
            {"kind": "doc", "j": {"version": "live", "nodes": [
                {"parent": 0, "op": "Module"},
                {"parent": 0, "op": "FuncDefn", "name": "main", "signature": {"params": [], "body": ORD_G([ORD_B, ORD_B], [ORD_B])}},
                {"parent": 1, "op": "Input", "types": [ORD_B, ORD_B]}, {"parent": 1, "op": "Output", "types": [ORD_B]},
                {"parent": 1, "op": "Extension", "extension": "demo.ext", "name": "Init", "signature": ORD_G([], []),
                 "description": "", "args": []},
                {"parent": 1, "op": "Extension", "extension": "demo.ext", "name": "And", "signature": ORD_G([ORD_B, ORD_B], [ORD_B]),
                 "description": "", "args": []}],
                "edges": [[[2, 0], [5, 0]], [[2, 1], [5, 1]], [[5, 0], [3, 0]],
                          [[2, None], [4, None]], [[4, None], [5, None]], [[5, None], [3, None]]],
                "metadata": [None, None, None, None, {"note": "first"}, None], "encoder": "not hugr-py"}},
            # ... the same with the order port's explicit offset on one end of each edge, through a Call (static port counted)
            {"kind": "doc", "j": {"version": "live", "nodes": [
                {"parent": 0, "op": "Module"},
                {"parent": 0, "op": "FuncDecl", "name": "f", "signature": {"params": [], "body": ORD_G([ORD_B], [ORD_B, ORD_B, ORD_B])}},
                {"parent": 0, "op": "FuncDefn", "name": "main", "signature": {"params": [], "body": ORD_G([ORD_B], [])}},
                {"parent": 2, "op": "Input", "types": [ORD_B]}, {"parent": 2, "op": "Output", "types": []},
                {"parent": 2, "op": "Call", "func_sig": {"params": [], "body": ORD_G([ORD_B], [ORD_B, ORD_B, ORD_B])}, "type_args": [],
                 "instantiation": ORD_G([ORD_B], [ORD_B, ORD_B, ORD_B])}],
                "edges": [[[3, 0], [5, 0]], [[1, 0], [5, 1]], [[3, 1], [5, None]], [[5, None], [4, 0]]]}},
            # ... and the operation on a node of a HUGR built through the public API, an order link on both sides
            {"kind": "hop", "o": ["Custom", "And", [[["UnitSum", 2], ["UnitSum", 2]], [["UnitSum", 2]], []], "", "demo.ext", []],
             "wire": True},
            {"kind": "hop", "o": ["LoadConst", ["Qubit"]], "wire": True},
            # seeded C05-j: Hugr._from_serial added an edge between two order ports through add_order_link, which skips a
            # pair of nodes that is already linked: the second of two order edges between the same ordered pair of nodes
            # was dropped on load.  A foreign document with the edge 4 -> 5 written twice without offsets ...
            {"kind": "doc", "j": {"version": "live", "nodes": [
                {"parent": 0, "op": "Module"},
                {"parent": 0, "op": "FuncDefn", "name": "main", "signature": {"params": [], "body": ORD_G([], [])}},
                {"parent": 1, "op": "Input", "types": []}, {"parent": 1, "op": "Output", "types": []},
                {"parent": 1, "op": "Extension", "extension": "dbg", "name": "first", "signature": ORD_G([], []),
                 "description": "", "args": []},
                {"parent": 1, "op": "Extension", "extension": "dbg", "name": "second", "signature": ORD_G([], []),
                 "description": "", "args": []}],
                "edges": [[[2, None], [4, None]], [[4, None], [5, None]], [[4, None], [5, None]], [[5, None], [3, None]]],
                "metadata": [None, None, None, None, {"k": 1}, None], "encoder": "not hugr-py"}},
            # ... once without and once with the explicit offsets (node 5: two inputs, one output), three times Input -> 5,
            # and a value edge written twice
            {"kind": "doc", "j": {"version": "live", "nodes": [
                {"parent": 0, "op": "DFG", "signature": ORD_G([ORD_B, ORD_B], [ORD_B])},
                {"parent": 0, "op": "Input", "types": [ORD_B, ORD_B]}, {"parent": 0, "op": "Output", "types": [ORD_B]},
                {"parent": 0, "op": "Extension", "extension": "demo.ext", "name": "Init", "signature": ORD_G([], [ORD_B]),
                 "description": "", "args": []},
                {"parent": 0, "op": "Extension", "extension": "demo.ext", "name": "And", "signature": ORD_G([ORD_B, ORD_B], [ORD_B]),
                 "description": "", "args": []}],
                "edges": [[[1, 0], [4, 0]], [[3, 0], [4, 1]], [[4, 0], [2, 0]], [[4, 0], [2, 0]],
                          [[3, None], [4, None]], [[3, 1], [4, 2]], [[1, None], [4, None]], [[1, 2], [4, None]], [[1, None], [4, 2]],
                          [[4, 1], [2, 1]], [[4, None], [2, None]]]}},
        ]

    def generate(self, rng, tier, ctx):
        k = 1 if tier == "quick" else 10
        cases = []
        for _ in range(250 * k):
            cases.append({"kind": "ty", "t": T.gen_ty(rng, rng.choice([1, 2, 3, 3, 4]), bad=0.05)})
        for _ in range(80 * k):
            cases.append({"kind": "arg", "a": T.gen_arg(rng, rng.choice([1, 2, 3]))})
        for _ in range(40 * k):
            cases.append({"kind": "param", "p": T.gen_param(rng, 3)})
        for _ in range(60 * k):
            r = rng.random()
            d = rng.choice([0, 1, 2])
            s = (["Tuple", T.gen_row(rng, d)] if r < 0.25 else ["Option", T.gen_row(rng, d)] if r < 0.5 else
                 ["Either", T.gen_row(rng, d), T.gen_row(rng, d)] if r < 0.75 else ["UnitSum", rng.choice([0, 1, 2, 3, 7])])
            cases.append({"kind": "sugar", "s": s})
        for _ in range(120 * k):
            cases.append({"kind": "sty", "j": T.gen_jty(rng, rng.choice([1, 2, 3]))})
        for _ in range(150 * k):
            cases.append({"kind": "val", "v": O.gen_val(rng, rng.choice([1, 2, 3]))})
        for _ in range(50 * k):
            r = rng.random()
            vs = [O.gen_val(rng, 1) for _ in range(rng.choice([0, 1, 2]))]
            s = (["VUnitSum", rng.choice([0, 1]), rng.choice([2, 3])] if r < 0.15 else rng.choice([["VTrue"], ["VFalse"], ["VUnit"]]) if r < 0.3 else
                 ["VSome", vs] if r < 0.45 else ["VNone", T.gen_row(rng, 1)] if r < 0.55 else ["VLeft", vs, T.gen_row(rng, 1)] if r < 0.7 else
                 ["VRight", T.gen_row(rng, 1), vs] if r < 0.85 else ["VTuple", vs])
            cases.append({"kind": "valsugar", "s": s})
        for kind in O.OP_KINDS:
            for _ in range(12 * k):
                cases.append({"kind": "op", "o": O.gen_op(rng, kind, rng.choice([1, 2]))})
        for _ in range(30 * k):
            cases.append({"kind": "tagsugar", "s": O.gen_tagsugar(rng)})
        for _ in range(150 * k):
            cases.append({"kind": "sop", "j": O.gen_jop(rng)})
        import progs
        n_docs = 0
        for _ in range(400 * k):
            if n_docs >= 60 * k:
                break
            try:
                h = progs.run(progs.gen_program(rng)).hugr
                j = O.foreign_doc(rng, h)
            except Exception:
                continue
            if len(j["nodes"]) > 60:
                continue
            n_docs += 1
            cases.append({"kind": "doc", "j": j})
        # operations / constants / parameter lists / arguments / types sitting on a node of a HUGR that goes through
        # the JSON text path Hugr.to_json -> Hugr.load_json (drawn after every older stream: their draws are unchanged)
        for kind in O.OP_KINDS:
            for _ in range(6 * k):
                cases.append({"kind": "hop", "o": O.gen_op(rng, kind, rng.choice([1, 2]))})
        for _ in range(120 * k):
            cases.append({"kind": "hop", "o": O.gen_carrier(rng)})
        # foreign documents assembled from foreign serial operations (no library document involved): a module with a
        # few children, metadata with nulls inside
        for _ in range(60 * k):
            cases.append({"kind": "doc", "j": O.gen_jdoc(rng)})
        # seeded round 3: foreign operations and documents written by hand (no library object, constructor or encoder
        # between the random choices and the JSON), attributes of one operation coinciding with each other; and the same
        # coincidences through the public constructors.  Drawn after every older stream.
        for kind in O.JOP_KINDS:
            for _ in range((12 if kind in ("Call", "LoadFunction") else 4) * k):
                cases.append({"kind": "sop", "j": O.gen_jop_direct(rng, kind)})
        for _ in range(30 * k):
            cases.append({"kind": "doc", "j": O.gen_jdoc_direct(rng)})
        for _ in range(40 * k):
            cases.append({"kind": "doc", "j": O.gen_jcalldoc(rng)})
        for _ in range(60 * k):
            cases.append({"kind": rng.choice(["op", "hop"]), "o": O.gen_op_coinc(rng)})
        # seeded round 4 (drawn after every older stream): Iterable-typed constructor arguments handed over as non-lists;
        # hand-written documents with state-order chains through nodes of asymmetric arity; dataflow operations wired
        # with an order link on both sides in a HUGR built through the public API
        for _ in range(150 * k):
            cases.append(O.gen_iter_case(rng))
        for _ in range(60 * k):
            cases.append({"kind": "doc", "j": O.gen_jorderdoc(rng)})
        for kind in O.WIRE_KINDS:
            for _ in range(5 * k):
                cases.append({"kind": "hop", "o": O.gen_op(rng, kind, rng.choice([1, 2])), "wire": True})
        for _ in range(15 * k):
            cases.append({"kind": "hop", "o": O.gen_op_coinc(rng), "wire": True})
        # seeded round 5 (drawn after every older stream): hand-written documents in which edges of every kind -- value,
        # static, state-order (each copy's ends spelt afresh: null or the explicit offset) -- occur two or three times
        for _ in range(50 * k):
            cases.append({"kind": "doc", "j": O.gen_jorderdoc(rng, multi=0.35)})
        import glob, os
        for f in sorted(glob.glob(os.path.join(fw.REPO, "resources", "test", "*.json")) +
                        glob.glob(os.path.join(fw.REPO, "hugr-core", "src", "hugr", "serialize", "upgrade", "testcases", "*.json"))):
            try:
                cases.append({"kind": "doc", "j": json.load(open(f)), "file": os.path.basename(f)})
            except Exception:
                pass
        return cases

    # ------------------------------------------------------------------ observation
    def observe(self, case, ctx):
        e = T.env()
        k = case["kind"]
        if k == "ty":
            t_ref, t = build2(case, T.build_ty, case["t"])
            if isinstance(t, BuildRaised):
                return {"t": T.lit_ty_obj(t_ref), "b1": obound(t_ref.type_bound), "raised": t.name}
            o = {"t": T.lit_ty_obj(t_ref), "b1": obound(t.type_bound)}
            r = guard(lambda: t._to_serial_root())
            if r[0] == "raised":
                return {**o, "raised": r[1]}
            s = r[1]
            d = T.via_json(s).deserialize()
            return {**o, "raised": None, "ser": T.walk_sty(s), "deser": T.lit_ty_obj(d),
                    "reser": T.walk_sty(d._to_serial_root()), "b2": obound(d.type_bound), "json_ok": T.json_identity(s)}
        if k == "arg":
            a_ref, a = build2(case, T.build_arg, case["a"])
            if isinstance(a, BuildRaised):
                return {"a": T.lit_arg_obj(a_ref), "raised": a.name}
            o = {"a": T.lit_arg_obj(a_ref)}
            r = guard(lambda: a._to_serial_root())
            if r[0] == "raised":
                return {**o, "raised": r[1]}
            s = r[1]
            d = T.via_json(s).deserialize()
            return {**o, "raised": None, "ser": T.walk_sarg(s), "deser": T.lit_arg_obj(d),
                    "reser": T.walk_sarg(d._to_serial_root()), "json_ok": T.json_identity(s)}
        if k == "param":
            p = T.build_param(case["p"])
            s = p._to_serial_root()
            d = T.via_json(s).deserialize()
            return {"p": T.lit_param_obj(p), "ser": T.walk_sparam(s), "deser": T.lit_param_obj(d),
                    "reser": T.walk_sparam(d._to_serial_root()), "json_ok": T.json_identity(s)}
        if k == "sugar":
            tys = e["tys"]
            s = case["s"]
            ref, obj = build2(case, T.build_ty, s)
            bad = isinstance(obj, BuildRaised)
            obj = ref if bad else obj
            rows = ([T.build_row(s[1])] if s[0] == "Tuple" else [[], T.build_row(s[1])] if s[0] == "Option" else
                    [T.build_row(s[1]), T.build_row(s[2])] if s[0] == "Either" else [[] for _ in range(s[1])])
            gen = tys.Sum(rows)
            lit = (gapp("SgTuple", T.lit_row_obj(rows[0])) if s[0] == "Tuple" else
                   gapp("SgOption", T.lit_row_obj(rows[1])) if s[0] == "Option" else
                   gapp("SgEither", T.lit_row_obj(rows[0]), T.lit_row_obj(rows[1])) if s[0] == "Either" else
                   gapp("SgUnitSum", gnat(s[1])))
            py_eq = bool(not bad and (obj == gen) and (gen == obj) and not (obj != gen) and obj.type_bound() == gen.type_bound()
                         and isinstance(obj, tys.Sum) and obj.variant_rows == gen.variant_rows)
            return {"s": lit, "py_eq": py_eq, "ser_s": T.walk_sty(obj._to_serial_root()),
                    "ser_g": T.walk_sty(gen._to_serial_root()), "b_s": obound(obj.type_bound), "b_g": obound(gen.type_bound),
                    "rows": glist(glist(T.walk_sty(x._to_serial_root()) for x in r) for r in obj.variant_rows)}
        if k == "sty":
            s = e["stys"].Type.model_validate(case["j"])
            d = s.deserialize()
            return {"s": T.walk_sty(s), "deser": T.lit_ty_obj(d), "reser": T.walk_sty(d._to_serial_root())}
        if k == "val":
            tab = O.Tab()
            v_ref, v = build2(case, O.build_val, case["v"])
            if isinstance(v, BuildRaised):
                return {"v": O.lit_val_obj(v_ref, tab), "b1": obound(lambda: v_ref.type_().type_bound()), "tab": tab.lit(),
                        "raised": v.name}
            o = {"v": O.lit_val_obj(v_ref, tab), "b1": obound(lambda: v.type_().type_bound())}
            r = guard(lambda: v._to_serial_root())
            if r[0] == "raised":
                return {**o, "tab": tab.lit(), "raised": r[1]}
            s = r[1]
            d = T.via_json(s).deserialize()
            o.update(raised=None, ser=O.walk_svalue(s), deser=O.lit_val_obj(d, tab), reser=O.walk_svalue(d._to_serial_root()),
                     ty1=T.walk_sty(v.type_()._to_serial_root()), ty2=T.walk_sty(d.type_()._to_serial_root()),
                     b2=obound(lambda: d.type_().type_bound()), json_ok=T.json_identity(s), tab=tab.lit())
            return o
        if k == "valsugar":
            val, tys = e["val"], e["tys"]
            s = case["s"]
            tab = O.Tab()
            ref, obj = build2(case, O.build_val, s)
            bad = isinstance(obj, BuildRaised)
            obj = ref if bad else obj
            vals = lambda l: [O.build_val(x) for x in l]
            lv = lambda l: glist(O.lit_val_obj(x, tab) for x in l)
            t = s[0]
            if t in ("VUnitSum", "VTrue", "VFalse", "VUnit"):
                tag, n = {"VTrue": (1, 2), "VFalse": (0, 2), "VUnit": (0, 1)}.get(t, (s[1] if t == "VUnitSum" else 0, s[2] if t == "VUnitSum" else 0))
                gen = val.Sum(tag, tys.Sum([[] for _ in range(n)]), [])
                lit = gapp("VgUnitSum", gN(tag), gnat(n))
            elif t == "VSome":
                vs = vals(s[1])
                gen = val.Sum(1, tys.Sum([[], [x.type_() for x in vs]]), vs)
                lit = gapp("VgSome", lv(vs))
            elif t == "VNone":
                gen = val.Sum(0, tys.Sum([[], T.build_row(s[1])]), [])
                lit = gapp("VgNone", T.lit_row_obj(T.build_row(s[1])))
            elif t == "VLeft":
                vs = vals(s[1])
                gen = val.Sum(0, tys.Sum([[x.type_() for x in vs], T.build_row(s[2])]), vs)
                lit = gapp("VgLeft", lv(vs), T.lit_row_obj(T.build_row(s[2])))
            elif t == "VRight":
                vs = vals(s[2])
                gen = val.Sum(1, tys.Sum([T.build_row(s[1]), [x.type_() for x in vs]]), vs)
                lit = gapp("VgRight", T.lit_row_obj(T.build_row(s[1])), lv(vs))
            else:
                vs = vals(s[1])
                gen = val.Sum(0, tys.Sum([[x.type_() for x in vs]]), vs)
                lit = gapp("VgTuple", lv(vs))
            py_eq = bool(not bad and obj == gen and gen == obj and not (obj != gen) and obj.type_() == gen.type_()
                         and obj.type_().type_bound() == gen.type_().type_bound() and isinstance(obj, val.Sum))
            return {"s": lit, "tab": tab.lit(), "py_eq": py_eq, "ser_s": O.walk_svalue(obj._to_serial_root()),
                    "ser_g": O.walk_svalue(gen._to_serial_root()), "ty_s": T.walk_sty(obj.type_()._to_serial_root()),
                    "ty_g": T.walk_sty(gen.type_()._to_serial_root()), "b_s": obound(lambda: obj.type_().type_bound()),
                    "b_g": obound(lambda: gen.type_().type_bound())}
        if k == "op":
            from hugr.hugr.node_port import Node
            tab = O.Tab()
            r0 = guard(lambda: O.build_op(case["o"]))
            if r0[0] == "raised":
                return {"unbuildable": r0[1]}
            op_ref = op = r0[1]
            if case.get("it"):
                # the same term with its `Iterable`-typed constructor arguments handed over as non-lists (see build2)
                op = build2(case, O.build_op, case["o"])[1]
                if isinstance(op, BuildRaised):
                    return {"o": O.lit_op_obj(op_ref, tab), "tab": tab.lit(), "raised": op.name}
            # a polymorphic Call / LoadFunc is the operation as requested from the constructor (which keeps what it is given)
            o = {"o": O.requested_call_lit(case["o"]) or O.lit_op_obj(op_ref, tab), "f1": O.facts_lit(op), "k1": O.kinds_lit(op)}
            r = guard(lambda: op._to_serial(Node(7)))
            if r[0] == "raised":
                return {**o, "tab": tab.lit(), "raised": r[1]}
            s = e["sops"].OpType(root=r[1])
            d = T.via_json(s).root.deserialize()
            o.update(raised=None, ser=O.walk_sop(s), deser=O.lit_op_obj(d, tab), reser=O.walk_sop(d._to_serial(Node(7))),
                     f2=O.facts_lit(d), k2=O.kinds_lit(d), json_ok=T.json_identity(s), tab=tab.lit())
            return o
        if k == "hop":
            # the same operation as the single child of a module: encoded by Hugr.to_json (JSON text), decoded by
            # Hugr.load_json; "deser" is the operation found on the loaded node
            from hugr.hugr.node_port import Node
            from hugr.hugr import Hugr
            tab = O.Tab()
            r0 = guard(lambda: O.build_op(case["o"]))
            if r0[0] == "raised":
                return {"unbuildable": r0[1]}
            op_ref = op = r0[1]
            if case.get("it"):
                # the same term with its `Iterable`-typed constructor arguments handed over as non-lists (see build2)
                op = build2(case, O.build_op, case["o"])[1]
                if isinstance(op, BuildRaised):
                    return {"o": O.lit_op_obj(op_ref, tab), "tab": tab.lit(), "raised": op.name}
            # a polymorphic Call / LoadFunc is the operation as requested from the constructor (which keeps what it is given)
            o = {"o": O.requested_call_lit(case["o"]) or O.lit_op_obj(op_ref, tab), "f1": O.facts_lit(op), "k1": O.kinds_lit(op)}
            r = guard(lambda: op._to_serial(Node(7)))
            if r[0] == "raised":
                return {**o, "tab": tab.lit(), "raised": r[1]}
            s = e["sops"].OpType(root=r[1])
            meta = {"k": [1, None], "n": None}
            rows = O.wire_rows(op) if case.get("wire") else None
            if rows is not None:
                # seeded round 4: a dataflow operation wired between Input and Output of a DFG, a value link on every
                # value port and a state-order link on BOTH sides of its node (building that HUGR is C03's business:
                # if the builder calls refuse, the operation goes on the child of a module like every other one)
                try:
                    h, w_inp, w_out, node = O.wired_hugr(op, rows, meta)
                    n_nodes, n_kids = 4, 3
                except WalkError:
                    raise
                except Exception:
                    rows = None
            if rows is None:
                h = Hugr()
                node = h.add_node(op, metadata=meta)
                n_nodes, n_kids = 2, 1
            r = guard(lambda: O.text_trip(h))
            if r[0] == "raised":
                return {**o, "tab": tab.lit(), "raised": r[1]}
            txt, back, txt2 = r[1]
            kids = back.children(back.root)
            if len(back) != n_nodes or len(kids) != n_kids:
                return {**o, "tab": tab.lit(), "raised": "NodeCount"}
            kid = kids[-1]
            d = back[kid].op
            # the document written holds the operation's encoding (parent 0), and the loaded HUGR writes the same document
            doc = json.loads(txt)
            in_doc = e["sops"].OpType.model_validate({**doc["nodes"][node.idx], "parent": 7})
            # (documents compared with their `edges` arrays as multisets: no order of that array is promised)
            same_doc = (O.walk_sop(in_doc) == O.walk_sop(s) and O.sort_edge_lists(json.loads(txt2)) == O.sort_edge_lists(doc)
                        and back[kid].metadata == meta and kid.idx == node.idx)
            if rows is not None:
                # every link of the HUGR that was written is a link of the HUGR that was read, between the same ports,
                # the state-order links as state-order links (through Hugr.links / outgoing_ / incoming_order_links;
                # nothing is said about the offsets the document spells them with)
                lf = O.link_facts(back)
                same_doc = (same_doc and lf == O.link_facts(h) and len(doc["edges"]) == len(lf[0]) and
                            lf[1] == lf[2] == sorted([(w_inp.idx, node.idx), (node.idx, w_out.idx)]))
            o.update(raised=None, ser=O.walk_sop(s), deser=O.lit_op_obj(d, tab), reser=O.walk_sop(d._to_serial(Node(7))),
                     f2=O.facts_lit(d), k2=O.kinds_lit(d), json_ok=bool(same_doc), tab=tab.lit())
            return o
        if k == "tagsugar":
            from hugr.hugr.node_port import Node
            ops = e["ops"]
            sg, gen = O.build_tagsugar(case["s"])
            s = case["s"]
            R = lambda l: T.lit_row_obj(T.build_row(l))
            lit = gapp("TgSome", R(s[1])) if s[0] == "Some" else gapp("Tg" + s[0], R(s[1]), R(s[2]))
            return {"s": lit, "ser_s": O.walk_sop(sg._to_serial(Node(7))), "ser_g": O.walk_sop(gen._to_serial(Node(7))),
                    "f_s": O.facts_lit(sg), "f_g": O.facts_lit(gen),
                    "is_tag": isinstance(sg, ops.Tag) and O.kinds_lit(sg) == O.kinds_lit(gen)}
        if k == "sop":
            from hugr.hugr.node_port import Node
            tab = O.Tab()
            s = e["sops"].OpType.model_validate(case["j"])
            d = s.root.deserialize()
            return {"s": O.walk_sop(s), "deser": O.lit_op_obj(d, tab), "reser": O.walk_sop(d._to_serial(Node(s.root.parent)))}
        if k == "doc":
            return O.observe_doc(case["j"], ctx)
        raise AssertionError(k)

    def literal(self, case, o, ctx):
        k = case["kind"]
        if k in ("ty", "arg", "param", "sugar", "sty"):
            return gapp("KT", self.literal_t(case, o, ctx))
        if k == "doc":
            if o["raised"]:
                return gapp("KD", gapp("CDoc", o["s"], "true", "(SDoc [] [] None)", "true"))
            return gapp("KD", gapp("CDoc", o["s"], "false", o["reser"], gbool(o["ok"])))
        return gapp("KV", self.literal_v(case, o, ctx))

    def literal_v(self, case, o, ctx):
        k = case["kind"]
        F0 = "{| f_outer := None; f_inner := None; f_num_out := None; f_static := None |}"
        if k == "val":
            if o["raised"]:
                return gapp("CVal", o["tab"], o["v"], "true", "(SVTuple [])", "(VTuple [])", "(SVTuple [])", "SQubit", "SQubit",
                            o["b1"], "None", "true")
            return gapp("CVal", o["tab"], o["v"], "false", o["ser"], o["deser"], o["reser"], o["ty1"], o["ty2"], o["b1"], o["b2"],
                        gbool(o["json_ok"]))
        if k == "valsugar":
            return gapp("CValSugar", o["tab"], o["s"], gbool(o["py_eq"]), o["ser_s"], o["ser_g"], o["ty_s"], o["ty_g"], o["b_s"], o["b_g"])
        if k in ("op", "hop"):
            if "unbuildable" in o:                      # the constructor refused the arguments: nothing to encode
                return gapp("CSOp", "(SModule 0)", "OModule", "(SModule 0)")
            if o["raised"]:
                return gapp("COp", o["tab"], o["o"], "true", "(SModule 0)", "OModule", "(SModule 0)", F0, F0, "[]", "[]", "true")
            return gapp("COp", o["tab"], o["o"], "false", o["ser"], o["deser"], o["reser"], o["f1"], o["f2"], o["k1"], o["k2"],
                        gbool(o["json_ok"]))
        if k == "tagsugar":
            return gapp("CTagSugar", o["s"], o["ser_s"], o["ser_g"], o["f_s"], o["f_g"], gbool(o["is_tag"]))
        if k == "sop":
            return gapp("CSOp", o["s"], o["deser"], o["reser"])
        raise AssertionError(k)

    def literal_t(self, case, o, ctx):
        k = case["kind"]
        if k == "ty":
            if o["raised"]:
                return gapp("CTy", o["t"], "true", "SQubit", "TQubit", "SQubit", o["b1"], "None", "true")
            return gapp("CTy", o["t"], "false", o["ser"], o["deser"], o["reser"], o["b1"], o["b2"], gbool(o["json_ok"]))
        if k == "arg":
            if o["raised"]:
                return gapp("CArg", o["a"], "true", "(SANat 0)", "(ANat 0)", "(SANat 0)", "true")
            return gapp("CArg", o["a"], "false", o["ser"], o["deser"], o["reser"], gbool(o["json_ok"]))
        if k == "param":
            return gapp("CParam", o["p"], o["ser"], o["deser"], o["reser"], gbool(o["json_ok"]))
        if k == "sugar":
            return gapp("CSugar", o["s"], gbool(o["py_eq"]), o["ser_s"], o["ser_g"], o["b_s"], o["b_g"], o["rows"])
        if k == "sty":
            return gapp("CSTy", o["s"], o["deser"], o["reser"])
        raise AssertionError(k)

    # ------------------------------------------------------------------ bookkeeping
    def nontrivial(self, case, obs):
        txt = json.dumps(case)
        k = case["kind"]
        if k in ("ty", "arg"):
            return any(w in txt for w in ('"Ext"', '"Tuple"', '"Option"', '"Either"', '"Func"', '"Array"', '"List"', '"Sum", [['))
        if k == "sty":
            return '"G"' in txt or '"Opaque"' in txt
        if k == "doc":
            return any(a[1] is None or b[1] is None for a, b in case["j"]["edges"]) or bool(case["j"].get("metadata"))
        return True

    def describe(self, case, obs):
        return {"input": case, "observed": obs}

    def signature(self, case, obs, ctx):
        k = case["kind"]
        if isinstance(obs, dict) and obs.get("raised"):
            return f"codec:{k}:raised:{obs['raised']}"
        return f"codec:{k}"

    def shrink(self, case):
        k = case["kind"]
        key = {"ty": "t", "arg": "a", "param": "p", "sugar": "s", "sty": "j", "val": "v", "valsugar": "s", "op": "o", "hop": "o",
               "tagsugar": "s", "sop": "j"}.get(k)
        if k == "doc":
            yield from shrink_doc(case)
            return
        if key is None:
            return
        for sub in shrink_term(case[key]):
            c = {**case, key: sub}
            try:                                  # keep only well-sorted candidates
                self.observe(c, None)
            except Exception:
                continue
            yield c

    def neighbours(self, case, rng):
        out = list(self.shrink(case))
        for _ in range(200):
            out.extend(self.generate(rng, "quick", None)[:3])
        return out[:1500]

    def distribution(self, cases, observations):
        d = {}
        for c, o in zip(cases, observations):
            e = d.setdefault(c["kind"], {"n": 0, "raised": 0})
            e["n"] += 1
            if isinstance(o, dict) and o.get("raised"):
                e["raised"] += 1
        return d


def shrink_term(t):
    """Smaller variants of a nested-list term: replace by a sub-term of the same sort, drop list elements."""
    if isinstance(t, dict):
        for k, v in t.items():
            if isinstance(v, (list, dict)):
                for s in shrink_term(v):
                    yield {**t, k: s}
        return
    if not isinstance(t, list):
        return
    tagged = bool(t) and isinstance(t[0], str)
    if tagged:
        # a direct sub-term with the same kind of tag set (type for type ...)
        for x in t[1:]:
            for y in (x if isinstance(x, list) else []):
                if isinstance(y, list) and y and isinstance(y[0], str) and same_sort(t, y):
                    yield y
                for z in (y if isinstance(y, list) else []):
                    if isinstance(z, list) and z and isinstance(z[0], str) and same_sort(t, z):
                        yield z
        for i in range(1, len(t)):
            if isinstance(t[i], list):
                for s in shrink_term(t[i]):
                    yield t[:i] + [s] + t[i + 1:]
    else:
        for i in range(len(t)):
            yield t[:i] + t[i + 1:]
        for i in range(len(t)):
            if isinstance(t[i], (list, dict)):
                for s in shrink_term(t[i]):
                    yield t[:i] + [s] + t[i + 1:]


def shrink_doc(case):
    """Drop an edge, drop metadata, drop the last node when nothing refers to it."""
    j = case["j"]
    for i in range(len(j["edges"])):
        yield {**case, "j": {**j, "edges": j["edges"][:i] + j["edges"][i + 1:]}}
    if j.get("metadata"):
        yield {**case, "j": {k: v for k, v in j.items() if k != "metadata"}}
    n = len(j["nodes"]) - 1
    if n > 0 and all(a[0] != n and b[0] != n for a, b in j["edges"]) and all(x["parent"] != n for x in j["nodes"][:n]):
        md = j.get("metadata")
        yield {**case, "j": {**j, "nodes": j["nodes"][:n], **({"metadata": md[:n]} if md else {})}}


TY_TAGS = {"Sum", "Tuple", "Option", "Either", "UnitSum", "Var", "RowVar", "USize", "Qubit", "Alias", "Func", "Opaque",
           "Ext", "Array", "ArrayV", "List", "StaticArray", "Int", "Float", "String", "Poly"}
ARG_TAGS = {"T", "N", "S", "Seq", "Exts", "V"}


def same_sort(a, b):
    for tags in (TY_TAGS, ARG_TAGS):
        if a[0] in tags:
            return b[0] in tags
    return False


PROP = C05()
