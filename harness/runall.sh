#!/bin/bash
# Runs every claimed check (quick by default) against /repo and prints one line per property.
cd "$(dirname "$0")/.."
TIER=${1:-quick}
for P in $(python3 -c "import json;print(' '.join(c['property_id'] for c in json.load(open('MANIFEST.json'))['checks']))"); do
  s=$(date +%s)
  out=$(timeout 7200 ./check $P --tier $TIER 2>&1)
  rc=$?
  echo "$P rc=$rc $(( $(date +%s) - s ))s $(echo "$out" | grep -E '^(OK|VIOLATION)' | head -2 | cut -c1-150 | tr '\n' ' ') known=$(echo "$out" | grep -c '^KNOWN-FINDING')"
done
